"""Shared driver code of builder P2b (C16, C17, C18, C19): request grammar, an independent python
reader of NTP datagrams (used by the monitors and to locate NTS authenticator fields), the translation
of harness output into Coq terms for coq/Model/Response.v, and the four monitors.

A case is a dict; `line_of` turns it into the token line of harness/ntp-proto/p2b.rs."""
import json
import os
import struct

from tools import vplib

DRAFT = b"draft-ietf-ntp-ntpv5-09"
T_UID, T_COOKIE, T_PLACEHOLDER, T_AUTH = 0x104, 0x204, 0x304, 0x404
T_DRAFT, T_PADDING, T_REFREQ, T_REFRESP = 0xF5FF, 0xF501, 0xF503, 0xF504
COOKIE_LEN = {15: 104, 17: 168}


# --------------------------------------------------------------------------------------------
# building datagrams
# --------------------------------------------------------------------------------------------

def header(rng, ver, mode=3, poll=None, upgrade=False):
    """48 header bytes with a distinct random value in every field"""
    b = bytearray(rng.getrandbits(8) for _ in range(48))
    b[0] = (rng.randrange(4) << 6) | (ver << 3) | mode
    if poll is not None:
        b[2] = poll
    if ver == 5:
        b[12] = rng.randrange(4)          # timescale
        b[14] = 0
        b[15] = rng.randrange(8)          # flags
    elif upgrade:
        b[16:24] = b"NTP5DRFT"
    return bytes(b)


def field(ver, ty, payload, length=None):
    """extension field: NTPv4 pads the length field too, NTPv5 only the bytes"""
    if ver == 5:
        ln = 4 + len(payload) if length is None else length
        return struct.pack(">HH", ty, ln) + payload + bytes((-len(payload)) % 4)
    pad = (-len(payload)) % 4
    ln = 4 + len(payload) + pad if length is None else length
    return struct.pack(">HH", ty, ln) + payload + bytes(pad)


def rbytes(rng, n):
    return bytes(rng.getrandbits(8) for _ in range(n))


# --------------------------------------------------------------------------------------------
# independent reader of datagrams (RFC 5905 / 7822 / 8915 / draft-ietf-ntp-ntpv5 layout)
# --------------------------------------------------------------------------------------------

def scan(msg, mac_cutoff=None):
    """top-level structure of a datagram: dict(version, mode, poll, fields=[(offset, type, value, wire)], mac)
    or None when it is not well-formed at this level.  NTPv4: extension fields while more than 24 bytes remain
    (the rest is the MAC), lengths multiples of 4; NTPv5: no MAC, values padded to 4."""
    if len(msg) < 48:
        return None
    ver = (msg[0] >> 3) & 7
    out = {"version": ver, "mode": msg[0] & 7, "poll": msg[2], "fields": [], "mac": b""}
    if ver == 3:
        out["mac"] = msg[48:]
        return out
    if ver not in (4, 5):
        return None
    cutoff = (24 if ver == 4 else 0) if mac_cutoff is None else mac_cutoff
    off = 48
    while len(msg) - off > cutoff:
        if len(msg) - off < 4:
            return None
        ty, ln = struct.unpack(">HH", msg[off:off + 4])
        if ln < 4 or (ver == 4 and ln % 4):
            return None
        wire = (ln + 3) // 4 * 4
        if off + wire > len(msg):
            return None
        out["fields"].append((off, ty, msg[off + 4:off + ln], wire))
        off += wire
    out["mac"] = msg[off:]
    return out


def auth_fields(sc):
    """(offset, nonce_len, ct_len, wire) of every NTS authenticator field"""
    res = []
    for off, ty, val, wire in sc["fields"]:
        if ty == T_AUTH:
            if len(val) < 4:
                return None
            n, c = struct.unpack(">HH", val[:4])
            res.append((off, n, c, wire))
    return res


# --------------------------------------------------------------------------------------------
# harness output
# --------------------------------------------------------------------------------------------

def unhex(s):
    return b"" if s == "-" else bytes.fromhex(s)


def parse_items(s):
    if s == "-":
        return []
    return s.split(",")


def parse_dump(d):
    """'OK:ver.mode.poll.xmit.upg.mac|U:..|A:..|E:..|K..' -> dict"""
    status, rest = d.split(":", 1)
    parts = rest.split("|")
    h = parts[0].split(".")
    res = {"status": status, "version": int(h[0]), "mode": int(h[1]), "poll": int(h[2]), "xmit": unhex(h[3]),
           "upgrade": h[4] == "1", "mac": int(h[5])}
    for p in parts[1:]:
        if p[0] in "UAE":
            res[p[0]] = parse_items(p[2:])
        elif p[0] == "K":
            res["K"] = None if p == "K-" else p[1:].split(".")
    return res


class Out:
    """the parsed output line of one harness case"""

    def __init__(self, toks):
        kv = {}
        for t in toks:
            if "=" in t:
                k, v = t.split("=", 1)
                kv[k] = v
        self.panic = bool(toks) and toks[0] == "PANIC"
        self.raw = toks
        if self.panic or "msg" not in kv:
            self.msg = None
            return
        self.msg = unhex(kv["msg"])
        self.st = kv["st"].split("/")
        self.bf = unhex(kv["bf"])
        self.parse = None if kv["p"] == "ERR" else parse_dump(kv["p"])
        self.results = {}
        for tag in ("r1", "r2", "r3"):
            if tag in kv:
                self.results[tag] = Result(kv[tag])


class Result:
    def __init__(self, s):
        f = s.split(".", 4)
        self.sent = f[0] == "S"
        self.stats = f[1]
        if self.sent:
            self.length = int(f[2])
            self.bytes = unhex(f[3])
            self.dump = None if f[4] == "ERR" else parse_dump(f[4])
            self.dump_status = "ERR" if f[4] == "ERR" else self.dump["status"]

    def stat_list(self):
        if self.stats in ("-", "serialize", "noparse", "nocookie", ""):
            return []
        res = []
        for reg in self.stats.split("+"):
            res += [int(x) for x in reg.split("/")]
        return res


# --------------------------------------------------------------------------------------------
# Coq terms
# --------------------------------------------------------------------------------------------

def zl(bs):
    return "[" + ";".join(str(b) for b in bs) + "]"


def coq_field(item):
    k, v = item[0], item[1:]
    if k == "u":
        return "FUid " + zl(unhex(v))
    if k == "c":
        return "FCookie %d" % len(unhex(v))
    if k == "k":
        return "FCookie %s" % v.split(".")[0]
    if k == "p":
        return "FPlaceholder %s" % v
    if k == "i":
        return "FInvalidNts"
    if k == "d":
        return "FDraft " + zl(unhex(v))
    if k == "g":
        return "FPadding %s" % v
    if k == "q":
        a, b = v.split(".")
        return "FRefReq %s %s" % (a, b)
    if k == "r":
        return "FRefResp " + zl(unhex(v))
    if k == "x":
        a, b = v.split(".")
        return "FUnknown %s %d" % (a, len(unhex(b)))
    raise ValueError(item)


def coq_fields(items):
    return "[" + "; ".join(coq_field(i) for i in items) + "]"


def coq_request(o):
    p = o.parse
    sc = scan(o.msg)
    auths = auth_fields(sc) if sc else None
    if auths is None:
        auths = [(0, -1, -1, -1)]      # the reader disagrees with the decoder: makes wf_request false
    cookie = "None"
    if p["status"] == "OK" and p.get("K"):
        cookie = "(Some %s)" % p["K"][0]
    return ("{| q_version := %d; q_mode := %d; q_poll := %d; q_xmit := %s; q_upgrade := %s; q_untrusted := %s; "
            "q_auth := %s; q_enc := %s; q_mac := %d; q_cookie := %s; q_decrypt_failed := %s; q_auths := %s |}" % (
                p["version"], p["mode"], p["poll"], zl(p["xmit"]), vplib.blit(p["upgrade"]),
                coq_fields(p["U"]), coq_fields(p["A"]), coq_fields(p["E"]), p["mac"], cookie,
                vplib.blit(p["status"] == "DE"),
                "[" + "; ".join("(%d, %d, %d)" % (n, c, w) for _, n, c, w in auths) + "]"))


OPS = {"H": 0, "Bt": 1, "BT": 2, "Bd": 3, "BD": 4, "Bn": 5, "Br": 6, "BR": 7}


def coq_case_term(case, o, bufsize):
    cfg = "{| c_intended := %d; c_require_nts := %d; c_accepted := %s |}" % (
        1 if case["policy"] == "D" else 3, {"n": 0, "i": 1, "d": 2}[case["require"]],
        zl([v for bit, v in ((1, 3), (2, 4), (4, 5)) if case["vmask"] & bit]))
    need_filter = o.parse is not None and any(i[0] == "q" for i in o.parse["U"] + o.parse["A"])
    st = ("{| s_stratum := %d; s_leap := %d; s_refid := %s; s_precision := %d; s_rdelay_short := %s; s_rdisp_short := %s; "
          "s_rdelay_t32 := %s; s_rdisp_t32 := %s; s_filter := %s |}" % (
              case["stratum"], case["leap"], zl(struct.pack(">I", case["refid"])), int(o.st[0]) & 255,
              zl(unhex(o.st[1])), zl(unhex(o.st[2])), zl(unhex(o.st[3])), zl(unhex(o.st[4])),
              zl(o.bf if o.bf else bytes(512)) if need_filter else "[]"))
    req = "None" if o.parse is None else "(Some %s)" % coq_request(o)
    return ("{| k_op := %d; k_cfg := %s; k_state := %s; k_recv := %s; k_now := %s; k_req := %s; k_first := %d; "
            "k_mlen := %d; k_buf := %d |}" % (
                OPS[case["op"]], cfg, st, zl(bytes.fromhex(case["recv"])), zl(bytes.fromhex(case["now"])), req,
                o.msg[0] if o.msg else 0, len(o.msg), bufsize))


def coq_outcome(r):
    """the implementation's result as an [outcome] term"""
    if not r.sent:
        return "OIgnore %s" % zl(r.stat_list())
    resp = r.bytes
    sc = scan(resp, mac_cutoff=0)
    auth = None
    if sc:
        for off, ty, val, wire in sc["fields"]:
            if ty == T_AUTH and len(val) >= 4:
                auth = (off, wire) + struct.unpack(">HH", val[:4])
                break
    canon = bytearray(resp)
    if len(canon) >= 24 and (canon[0] >> 3) & 7 == 5:
        canon[16:24] = bytes(8)           # the random server cookie
    if auth is None:
        w = "{| w_prefix := %s; w_auth := None; w_suffix := %s |}" % (zl(canon[:48]), zl(canon[48:]))
    else:
        off, wire, n, c = auth
        if r.dump_status == "OK":
            codes = [int(i[1:].split(".")[0]) if (i[0] == "k" and not i.endswith(".bad")) else -2 for i in r.dump["E"]]
        else:
            codes = [-1]
        w = "{| w_prefix := %s; w_auth := Some (%d, %d, %d, %s); w_suffix := %s |}" % (
            zl(canon[:off]), wire, n, c, zl(codes), zl(canon[off + wire:]))
    stats = r.stat_list()
    if r.length != len(resp):
        stats = stats + [-1]
    return "ORespond %s %s" % (zl(stats), w)


PREAMBLE = "From V Require Import Model.Response.\n"
CHECKER = "mismatches result_eqb run"


def coq_cases(case, o):
    """one Coq case per buffer; returns list of (input term, expected term)"""
    res = []
    if o.msg is None:
        return res
    for tag, r in sorted(o.results.items()):
        bufsize = {"r1": len(o.msg), "r2": 1024}.get(tag, case.get("buf3", 0))
        if not r.sent and r.stats in ("noparse", "nocookie"):
            continue
        res.append((coq_case_term(case, o, bufsize), "(%s, %d, true)" % (coq_outcome(r), len(o.msg))))
    return res


# --------------------------------------------------------------------------------------------
# harness input line
# --------------------------------------------------------------------------------------------

def line_of(case):
    toks = [case["op"], case["policy"], case["require"], str(case["vmask"]), str(case["stratum"]), str(case["leap"]),
            str(case["refid"]), str(case["prec"]), str(case["rdelay"]), case["varbase"], case["recv"], case["now"],
            "%d.%d" % tuple(case["bloom"]), "%d.%d.%d" % tuple(case["keyset"]), case["spec"]]
    if "buf3" in case:
        toks.append(str(case["buf3"]))
    return " ".join(toks)


# --------------------------------------------------------------------------------------------
# generator
# --------------------------------------------------------------------------------------------

UID_SIZES = [0, 4, 8, 12, 16, 20, 24, 28, 32, 36, 64]


def base_case(rng, spec, op="H"):
    return {
        "op": op,
        "policy": "D" if rng.random() < 0.15 else "T",
        "require": rng.choice("nnnnnnid"),
        "vmask": 7 if rng.random() < 0.85 else rng.randrange(8),
        "stratum": rng.choice([1, 2, 3, 15, 16, 0, 255, rng.randrange(256)]),
        "leap": rng.randrange(5),
        "refid": rng.getrandbits(32),
        "prec": rng.choice([-18, -20, -25, -6, 0]),
        "rdelay": rng.choice([0, 1000, 42949672, 4294967296, rng.getrandbits(34)]),
        "varbase": rng.choice(["1e-9", "0.0", "1e-4", "2.5", "1e-12"]),
        "recv": "%016x" % rng.getrandbits(64),
        "now": "%016x" % rng.getrandbits(64),
        "bloom": [0, 0],
        "keyset": [rng.choice([0, 1, 5, 4294967295]), 0, 1],
        "spec": spec,
    }


def with_keys(rng, case):
    n = rng.choice([1, 1, 2, 3])
    case["keyset"] = [case["keyset"][0], rng.randrange(n), n]
    return case


def cookie_key(rng, case):
    """which server key encrypts the request's cookie: mostly the primary, sometimes an older one"""
    n = case["keyset"][2]
    return "p" if rng.random() < 0.6 else str(rng.randrange(n))


def gen_clear_field(rng, ver, kinds):
    """one cleartext field -> bytes"""
    k = rng.choice(kinds)
    if k == "uid":
        n = rng.choice(UID_SIZES)
        if ver == 5 and rng.random() < 0.3:
            n = rng.randrange(0, 40)
        return field(ver, T_UID, rbytes(rng, n))
    if k == "unknown":
        ty = rng.choice([0x0002, 0x0999, 0x2005, 0xF5FF if ver == 4 else 0x0777, T_PADDING, T_REFRESP])
        n = rng.choice([0, 4, 12, 16, 24, 28, 32, 36, 100])
        if ver == 5 and rng.random() < 0.3:
            n = rng.randrange(0, 40)
        return field(ver, ty, rbytes(rng, n))
    if k == "placeholder":
        return field(ver, T_PLACEHOLDER, bytes(rng.choice([0, 4, 100, 104, 108, 164, 168, 172])))
    if k == "badplaceholder":
        return field(ver, T_PLACEHOLDER, rbytes(rng, 8))
    if k == "junkcookie":
        return field(ver, T_COOKIE, rbytes(rng, rng.choice([0, 16, 20, 24, 104, 108])))
    if k == "draft":
        return field(ver, T_DRAFT, DRAFT)
    if k == "baddraft":
        return field(ver, T_DRAFT, rng.choice([b"draft-ietf-ntp-ntpv5-08", b"draft", DRAFT + b"x", b"\xff\xfe"]))
    if k == "refreq":
        plen = rng.choice([2, 4, 8, 16, 64, 128, 512, 6, 3, 516])
        off = rng.choice([0, 4, 8, 500, 508, 512, 513, 600, 65535, rng.randrange(0, 520)])
        if ver == 5 and plen % 4 and rng.random() < 0.7:
            plen = 4 * (plen // 4 + 1)
        return field(ver, T_REFREQ, struct.pack(">H", off) + bytes(max(0, plen - 2)))
    if k == "short":       # length field lies
        return struct.pack(">HH", T_UID, rng.choice([0, 1, 2, 3, 5, 6, 7])) + rbytes(rng, 4)
    raise ValueError(k)


def gen_mac(rng, ver):
    if ver == 5:
        return b"" if rng.random() < 0.9 else rbytes(rng, rng.choice([1, 2, 3, 4, 8]))
    r = rng.random()
    if r < 0.55:
        return b""
    if r < 0.9:
        return rbytes(rng, rng.choice([4, 8, 12, 16, 20, 24]))
    return rbytes(rng, rng.randrange(1, 29))


def gen_plain(rng, ver=None):
    ver = ver or rng.choice([3, 4, 4, 4, 5, 5])
    mode = 3 if rng.random() < 0.93 else rng.randrange(8)
    msg = header(rng, ver, mode, poll=rng.choice([None, 0, 6, 17, 126, 127, 128, 255]),
                 upgrade=(ver == 4 and rng.random() < 0.2))
    if ver == 3:
        msg += gen_mac(rng, 4)
    else:
        kinds = ["uid"] * 5 + ["unknown"] * 3 + ["placeholder", "junkcookie"]
        if ver == 5:
            kinds += ["refreq"] * 3 + ["baddraft"]
        if rng.random() < 0.05:
            kinds += ["short", "badplaceholder"]
        fs = [gen_clear_field(rng, ver, kinds) for _ in range(rng.choice([0, 0, 1, 1, 2, 2, 3, 4, 5, 6]))]
        if ver == 5 and rng.random() < 0.93:
            fs.insert(rng.randrange(len(fs) + 1), field(5, T_DRAFT, DRAFT))
        msg += b"".join(fs) + gen_mac(rng, ver)
    c = base_case(rng, "h" + msg.hex())
    if any(t == T_REFREQ for t in (0,)) or ver == 5:
        c["bloom"] = [rng.choice([0, 1, 3, 20]), rng.randrange(1000)]
    return c


def gen_nts(rng, ver=None, valid=None):
    """NTS request: [pre fields incl. cookie] authenticator [post fields] [mac]"""
    ver = ver or rng.choice([4, 4, 5])
    valid = (rng.random() < 0.8) if valid is None else valid
    c = with_keys(rng, base_case(rng, ""))
    alg = rng.choice([15, 15, 17])
    sess = rng.randrange(1, 5)
    mode = 3 if rng.random() < 0.95 else rng.randrange(8)
    parts = []
    pre = []
    kinds = ["uid"] * 3 + ["unknown"] * 2 + ["placeholder"] * 3
    if ver == 5:
        kinds += ["refreq"] * 2
    npre = rng.choice([0, 1, 1, 2, 2, 3, 4, 6, 8, 9, 10])
    if rng.random() < 0.55:
        # the usual client layout: 32-byte uid, cookie, placeholders
        pre.append(("h", field(ver, T_UID, rbytes(rng, rng.choice([32, 32, 32, 16, 8, 4, 0, 12])))))
        pre.append(("c", "c%d.%s.%d.%d" % (alg, cookie_key(rng, c), rng.choice([0, 0, 0, 4, 8]), sess)))
        for _ in range(rng.choice([0, 0, 1, 2, 3, 7, 8, 9])):
            pre.append(("h", field(ver, T_PLACEHOLDER, bytes(COOKIE_LEN[alg] + rng.choice([0, 0, 0, -4, 4, 64])))))
    else:
        if rng.random() < 0.3:
            kinds = [x for x in kinds if x != "uid"]         # no unique identifier at all
        for _ in range(npre):
            pre.append(("h", gen_clear_field(rng, ver, kinds)))
        ck = ("c", "c%d.%s.%d.%d" % (alg, cookie_key(rng, c), rng.choice([0, 0, 4]), sess))
        r = rng.random()
        if r < 0.85:
            pre.insert(rng.randrange(len(pre) + 1), ck)
        elif r < 0.9:
            pre.insert(rng.randrange(len(pre) + 1), ck)
            pre.insert(rng.randrange(len(pre) + 1), ck)      # two cookies: no key
        # else: no cookie at all
    if ver == 5 and rng.random() < 0.9:
        pre.insert(rng.randrange(len(pre) + 1), ("h", field(5, T_DRAFT, DRAFT)))
    if not valid:
        r = rng.random()
        if r < 0.3:
            sess_used = sess + 1                                  # wrong session key
        else:
            sess_used = sess
            if r < 0.5:
                pre = [(k, v.replace(".p.", ".x.") if k == "c" else v) for k, v in pre]   # unknown server key
            elif r < 0.6:
                pre = [(k, v) for k, v in pre if k != "c"]
    else:
        sess_used = sess
    # encrypted fields
    sub = []
    for _ in range(rng.choice([0, 0, 0, 1, 2, 3, 9])):
        k = rng.choice(["placeholder", "placeholder", "unknown", "uid", "cookie", "junkcookie"])
        if k == "cookie":
            sub.append("c%d.p.0.%d" % (alg, sess))
        elif k == "junkcookie":
            # an NTS cookie field that is shorter (or not) than a fresh cookie, among the encrypted fields:
            # it may only be replaced by a fresh cookie that is not larger than it (added after a seeded change)
            sub.append("h" + field(ver, T_COOKIE, rbytes(rng, rng.choice([4, 4, 8, 12, 60, 100, 104, 108]))).hex())
        else:
            sub.append("h" + gen_clear_field(rng, ver, [k]).hex())
    nonce = rng.choice([16, 16, 16, 16, 16, rng.randrange(1, 33), rng.randrange(1, 33), 12, 15, 17, 32, 0])
    extra = rng.choice([0, 0, 0, 0, 4, 8])
    lie = 0 if rng.random() < 0.95 else rng.choice([-1, 1, 4, -16])
    auth = "a%d.%d.%d.%d.%d.%s" % (nonce, sess_used, alg, extra, lie, ";".join(sub) if sub else "-")
    post = []
    for _ in range(rng.choice([0, 0, 0, 0, 1, 2])):
        post.append("h" + gen_clear_field(rng, ver, ["uid", "uid", "unknown", "placeholder"]).hex())
    if ver == 5 and not any(v.startswith("h" + struct.pack(">H", T_DRAFT).hex()) for v in post) and rng.random() < 0.1:
        post.append("h" + field(5, T_DRAFT, DRAFT).hex())
    parts.append("h" + header(rng, ver, mode, upgrade=(ver == 4 and rng.random() < 0.1)).hex())
    for k, v in pre:
        parts.append(v if k == "c" else "h" + v.hex())
    parts.append(auth)
    if rng.random() < 0.04:
        # a second authenticator (with its own cookie in between or not)
        if rng.random() < 0.5:
            parts.append("c%d.p.0.%d" % (alg, sess))
        parts.append("a16.%d.%d.0.0.-" % (sess, alg))
    parts += post
    mac = gen_mac(rng, ver) if rng.random() < 0.3 else b""
    if mac:
        parts.append("h" + mac.hex())
    c["spec"] = ",".join(parts)
    if ver == 5:
        c["bloom"] = [rng.choice([0, 1, 3, 20]), rng.randrange(1000)]
    return c


def mutate(rng, case):
    """malformed stream: truncation or byte damage appended to the spec (applied by the harness after building)"""
    c = dict(case)
    r = rng.random()
    if r < 0.4:
        c["spec"] += ",t%d" % rng.choice([0, 1, 47, 48, 49, 52, 60, 64, 72, rng.randrange(0, 400)])
    elif r < 0.8:
        c["spec"] += ",x%d.%d" % (rng.choice([0, 0, 2, 14, 15, 48, 49, 50, 51, rng.randrange(0, 300)]), 1 << rng.randrange(8))
    else:
        c["spec"] += ",x%d.%d,x%d.%d" % (rng.randrange(48, 200), rng.randrange(1, 256), rng.randrange(48, 400), rng.randrange(1, 256))
    return c


def witnesses():
    """the two requests of DESIGN.md C17 and their NTS sibling, plus boundary neighbours outside the class"""
    import random
    rng = random.Random(17)
    res = []

    def mk(spec, **kw):
        c = base_case(rng, spec)
        c.update({"policy": "T", "require": "n", "vmask": 7})
        c.update(kw)
        return c
    h4 = header(rng, 4)
    res.append(mk("h" + (h4 + field(4, T_UID, rbytes(rng, 12)) + bytes(9)).hex()))                    # 73 bytes: class
    res.append(mk("h" + (h4 + field(4, T_UID, rbytes(rng, 4)) + field(4, T_UID, rbytes(rng, 4)) + rbytes(rng, 20)).hex()))  # 84 bytes: class
    uid = field(4, T_UID, rbytes(rng, 32))
    res.append(mk("h" + (h4 + uid).hex() + ",c15.p.0.1,a8.1.15.0.0.-"))                              # short nonce: class
    res.append(mk("h" + (h4 + uid).hex() + ",c15.p.0.1,a15.1.15.0.0.-"))                             # nonce 15: pads to 16, fits
    res.append(mk("h" + (h4 + uid).hex() + ",c15.p.0.1,a16.1.15.0.0.-"))                             # fits
    res.append(mk("h" + (h4 + field(4, T_UID, rbytes(rng, 24))).hex()))                              # 28-byte last field: fits
    res.append(mk("h" + (h4 + field(4, T_UID, rbytes(rng, 20))).hex()))                              # 24 bytes after the header: read as a MAC
    res.append(mk("h" + (h4 + field(4, T_UID, rbytes(rng, 20)) + bytes(1)).hex()))                   # 24-byte uid + 1: class
    res.append(mk("h" + (h4 + field(4, T_UID, rbytes(rng, 12)) + field(4, T_UID, rbytes(rng, 24))).hex()))   # 16 + 28: fits
    res.append(mk("h" + (h4 + field(4, T_UID, rbytes(rng, 8)) + field(4, T_UID, rbytes(rng, 24))).hex()))    # 12 + 28: class
    # no unique identifier, cookie ninth: the answer carries nothing to authenticate (C19)
    unk = b"".join(field(4, 0x0999, rbytes(rng, 12)) for _ in range(8))
    res.append(mk("h" + (h4 + unk).hex() + ",c15.p.0.1,a16.1.15.0.0.-"))
    res.append(mk("h" + h4.hex() + ",c15.p.0.1,a16.1.15.0.0.-", policy="D"))                          # NTS deny without uid
    # a short NTS cookie field among the encrypted fields must not be replaced by a larger fresh cookie (C19)
    res.append(mk("h" + (h4 + uid).hex() + ",c15.p.0.1,a16.1.15.0.0.h" + field(4, T_COOKIE, rbytes(rng, 4)).hex()))
    h5 = header(rng, 5)
    res.append(mk("h" + (h5 + field(5, T_UID, rbytes(rng, 5)) + field(5, T_DRAFT, DRAFT)).hex() + ",c15.p.0.1,a16.1.15.0.0.-"))  # v5 short uid authenticated: class
    res.append(mk("h" + (h5 + field(5, T_UID, rbytes(rng, 5)) + field(5, T_DRAFT, DRAFT)).hex()))     # v5 plain: fits
    return res


def load_corpus(prop):
    d = os.path.join(vplib.VERIF, "corpus", prop)
    res = []
    if os.path.isdir(d):
        for f in sorted(os.listdir(d)):
            if f.endswith(".jsonl"):
                for l in open(os.path.join(d, f)):
                    if l.strip():
                        res.append(json.loads(l))
    return res


def generate(rng, n, weights=None):
    """n cases: structured plain / NTS, boundary buffers, builder ops, malformed"""
    w = {"plain": 0.36, "nts": 0.36, "builder": 0.12, "mutant": 0.16}
    if weights:
        w.update(weights)
    kinds = list(w)
    cases = []
    for _ in range(n):
        k = rng.choices(kinds, weights=[w[x] for x in kinds])[0]
        if k == "plain":
            c = gen_plain(rng)
        elif k == "nts":
            c = gen_nts(rng)
        elif k == "builder":
            c = gen_nts(rng, valid=True) if rng.random() < 0.6 else gen_plain(rng)
            c["op"] = rng.choice(["Bt", "BT", "Bd", "BD", "Bn", "Br", "BR", "Br", "BR"])
        else:
            c = mutate(rng, gen_nts(rng) if rng.random() < 0.5 else gen_plain(rng))
        if rng.random() < 0.25:
            c["buf3"] = rng.choice([0, 1, 47, 48, 49, 60, 64, 76, 88, 100, 200, rng.randrange(0, 400)])
        cases.append(c)
    return cases


# --------------------------------------------------------------------------------------------
# monitors: the property statements evaluated on one implementation run
# --------------------------------------------------------------------------------------------

def uid_wire(ver, item):
    n = len(unhex(item[1:]))
    return (4 + n + 3) // 4 * 4


def c17_class_nodraft(o, nts_answer):
    """NTPv5 request without the draft identification whose NTS authenticator failed (NAK / DENY adds the field)"""
    p = o.parse
    return (not nts_answer and p["version"] == 5 and p["status"] == "DE"
            and not any(i[0] == "d" and unhex(i[1:]) == DRAFT for i in p["U"] + p["A"]))


def c17_class(o, nts_answer):
    """KnownClass_C17 computed from the decoder's view of the request: some echoed unique-identifier field
    is shorter on the wire than the minimum size at its place in the answer, or (NTS answers) an NTS nonce is
    shorter than 16 bytes"""
    p = o.parse
    ver = p["version"]
    if nts_answer:
        echoed = [i for i in p["A"] if i[0] == "u"]
        for i in echoed:
            if uid_wire(ver, i) < 16:
                return True
        sc = scan(o.msg)
        for _, n, _, _ in (auth_fields(sc) or []):
            if n < 16:
                return True
        return False
    echoed = [i for i in p["U"] + p["A"] if i[0] == "u"]
    if ver != 4:
        return False
    for k, i in enumerate(echoed):
        m = 28 if k == len(echoed) - 1 else 16
        if uid_wire(ver, i) < m:
            return True
    return False


def is_nts_answer(case, o):
    """does the server answer this request through one of the NTS builders"""
    p = o.parse
    if p is None or p["status"] != "OK" or not p.get("K"):
        return False
    if case["op"] == "H":
        return True
    return case["op"] in ("BT", "BD", "BR")


def monitor_c16(case, toks):
    o = Out(toks)
    if o.msg is None:
        return None
    sizes = {"r1": len(o.msg), "r2": 1024, "r3": case.get("buf3", 0)}
    for tag, r in o.results.items():
        if r.sent and (r.length > sizes[tag] or len(r.bytes) > sizes[tag]):
            return ("answer of %d bytes written into a buffer of %d bytes" % (r.length, sizes[tag]), {"request_hex": o.msg.hex()})
    r1 = o.results.get("r1")
    if r1 is not None and r1.sent and len(r1.bytes) > len(o.msg):
        return ("the server answers a %d-byte request with %d bytes when given the daemon's request-sized buffer"
                % (len(o.msg), len(r1.bytes)), {"request_hex": o.msg.hex(), "response_hex": r1.bytes.hex()})
    return None


def monitor_c17(case, toks):
    o = Out(toks)
    if o.msg is None or len(o.msg) > 1024:
        return None
    r1, r2 = o.results.get("r1"), o.results.get("r2")
    if r1 is None or r2 is None:
        return None
    if r2.sent and not r1.sent:
        payload = {"request_hex": o.msg.hex(), "request_len": len(o.msg), "answer_len": r2.length}
        if o.parse is not None and c17_class(o, is_nts_answer(case, o)):
            payload["class"] = "C17-short-uid-or-nonce"
        elif o.parse is not None and c17_class_nodraft(o, is_nts_answer(case, o)):
            payload["class"] = "C17-v5-nak-without-draft"
        return ("a %d-byte request is answered (%d bytes) with a 1024-byte buffer but dropped (%s) with a buffer as long as the request"
                % (len(o.msg), r2.length, r1.stats), payload)
    return None


def _find_markers(o):
    """8-byte windows of request content that must not be reflected: header fields other than poll and the
    echoed timestamp, payloads of non-uid fields, bodies of NTS authenticator fields"""
    msg = o.msg
    ver = (msg[0] >> 3) & 7
    marks = []
    if ver == 5:
        spans = [(16, 24), (32, 40), (40, 48)]
    else:
        spans = [(16, 24), (24, 32), (32, 40)]
    for a, b in spans:
        marks.append(msg[a:b])
    sc = scan(msg)
    if sc:
        for off, ty, val, wire in sc["fields"]:
            if ty != T_UID and ty != T_DRAFT:
                for k in range(0, max(0, len(val) - 7), 8):
                    marks.append(val[k:k + 8])
        if len(sc["mac"]) >= 8:
            marks.append(sc["mac"][:8])
    return [m for m in marks if len(set(m)) >= 5 and m != b"NTP5DRFT" and m not in DRAFT]


def monitor_c18(case, toks):
    o = Out(toks)
    if o.msg is None:
        return None
    msg = o.msg
    pay = {"request_hex": msg.hex()}
    for tag, r in o.results.items():
        if not r.sent:
            continue
        resp = r.bytes
        pay["response_hex"] = resp.hex()
        sc = scan(msg)
        if sc is None or o.parse is None:
            return ("a datagram the decoder rejects is answered", pay)
        ver = sc["version"]
        if len(resp) < 48:
            return ("answer shorter than a header", pay)
        if case["op"] == "H":
            st = r.stat_list()
            akind = {3: "time", 1: "deny", 0: "nak"}.get(st[3] if len(st) == 4 else -1)
        else:
            akind = {"t": "time", "T": "time", "d": "deny", "D": "deny", "n": "nak", "r": "rate", "R": "rate"}[case["op"][1]]
        if akind is None:
            return ("answer with unexpected statistics %s" % r.stats, pay)
        if resp[0] & 7 != 4:
            return ("answer is not in server mode", pay)
        if (resp[0] >> 3) & 7 != ver:
            return ("answer version %d differs from request version %d" % ((resp[0] >> 3) & 7, ver), pay)
        echo = msg[24:32] if ver == 5 else msg[40:48]
        if resp[24:32] != echo:
            return ("answer does not echo the request's transmit timestamp / client cookie", pay)
        recv, now = bytes.fromhex(case["recv"]), bytes.fromhex(case["now"])
        if akind == "time":
            if resp[2] != msg[2]:
                return ("time answer does not echo the poll value", pay)
            if resp[32:40] != recv or resp[40:48] != now:
                return ("time answer does not carry the reception time and the clock reading", pay)
            if resp[1] != case["stratum"]:
                return ("time answer does not carry the server's stratum", pay)
            if resp[0] >> 6 != min(case["leap"], 3):
                return ("time answer does not carry the server's leap indicator", pay)
            if resp[3] != int(o.st[0]) & 255:
                return ("time answer does not carry the server's precision", pay)
            if ver == 5:
                if resp[4:8] != unhex(o.st[3]) or resp[8:12] != unhex(o.st[4]):
                    return ("time answer does not carry the server's root delay/dispersion", pay)
                if resp[12:16] != bytes([0, 0, 0, 1 if case["stratum"] < 16 else 0]):
                    return ("NTPv5 time answer: timescale/era/flags wrong", pay)
            else:
                if resp[4:8] != unhex(o.st[1]) or resp[8:12] != unhex(o.st[2]):
                    return ("time answer does not carry the server's root delay/dispersion", pay)
                if resp[12:16] != struct.pack(">I", case["refid"]):
                    return ("time answer does not carry the server's reference id", pay)
                want_ref = recv[:3] + bytes([recv[3] & 0x80]) + bytes(4)
                ok_refs = [want_ref] + ([b"NTP5DRFT"] if (ver == 4 and msg[16:24] == b"NTP5DRFT") else [])
                if resp[16:24] not in ok_refs:
                    return ("time answer: reference timestamp is neither the truncated reception time nor the requested upgrade marker", pay)
        else:
            if resp[1] != 0:
                return ("%s answer with non-zero stratum" % akind, pay)
            if resp[32:48] != bytes(16) or (ver != 5 and resp[16:24] != bytes(8)):
                return ("%s answer carries server timestamps" % akind, pay)
            if ver == 5:
                sp = msg[2] - 256 if msg[2] > 127 else msg[2]
                want_poll = {"deny": 127, "rate": (sp if sp == 127 else sp + 1) & 255, "nak": 0}[akind]
                want_flags = 4 if akind == "nak" else 0
                if resp[2] != want_poll or resp[12:16] != bytes([0, 0, 0, want_flags]):
                    return ("NTPv5 %s answer: poll/flags wrong" % akind, pay)
            else:
                if resp[12:16] != {"deny": b"DENY", "rate": b"RATE", "nak": b"NTSN"}[akind]:
                    return ("%s answer without the kiss code" % akind, pay)
        # extension fields of the answer
        if r.dump is None:
            return ("the answer cannot be decoded", pay)
        d = r.dump
        nts = is_nts_answer(case, o)
        req = o.parse
        allowed_uids = [unhex(i[1:]) for i in (req["A"] if nts else req["U"] + req["A"]) if i[0] == "u"]
        got_uids = [unhex(i[1:]) for i in d["U"] + d["A"] + d["E"] if i[0] == "u"]
        pool = list(allowed_uids)
        for g in got_uids:
            hit = None
            for k, a in enumerate(pool):
                if g[:len(a)] == a and not any(g[len(a):]):
                    hit = k
                    break
            if hit is None:
                return ("the answer carries a unique identifier that is not one of the request's", pay)
            pool.pop(hit)
        refreqs = [tuple(int(x) for x in i[1:].split(".")) for i in (req["A"] if nts else req["U"] + req["A"]) if i[0] == "q"]
        filt = o.bf if o.bf else bytes(512)
        for i in d["U"] + d["A"] + d["E"]:
            k = i[0]
            if k == "u":
                continue
            if k == "r" and ver == 5 and akind == "time":
                b = unhex(i[1:])
                if not any(off + ln <= 512 and filt[off:off + ln] == b and ln == len(b) for ln, off in refreqs):
                    return ("reference id response that matches no reference id request of the request", pay)
                continue
            if k == "d" and ver == 5 and unhex(i[1:]) == DRAFT:
                continue
            if k == "k" and akind == "time" and nts and i in d["E"]:
                continue
            if k == "x" and ver == 5 and i.startswith("x%d." % T_PADDING) and not any(unhex(i.split(".")[1])) and i in d["U"]:
                continue
            return ("the answer carries an extension field (%s...) that is neither an echoed unique identifier, a reference id "
                    "response, the draft identification nor a fresh cookie" % i[:24], pay)
        for m in _find_markers(o):
            if m in resp:
                return ("request content %s is reflected in the answer" % m.hex(), pay)
    return None


def monitor_c19(case, toks):
    o = Out(toks)
    if o.msg is None or case["op"] != "H":
        return None
    pay = {"request_hex": o.msg.hex()}
    p = o.parse
    for tag, r in o.results.items():
        st = r.stat_list()
        if p is not None and p["status"] == "DE" and r.sent:
            if len(st) != 4 or st[3] not in (0, 1) or (st[3] == 1 and case["policy"] != "D" and case["require"] != "d"):
                return ("a request whose NTS authentication fails is answered with %s" % r.stats, pay)
            if r.bytes[1] != 0:
                return ("a request whose NTS authentication fails gets an answer with stratum %d" % r.bytes[1], pay)
        if not r.sent or len(st) != 4 or st[3] != 3:
            continue
        if p is None or p["status"] != "OK" or not p.get("K"):
            continue
        pay["response_hex"] = r.bytes.hex()
        # time answer to an authenticated request
        sc = scan(r.bytes, mac_cutoff=0)
        has_auth = sc is not None and any(ty == T_AUTH for _, ty, _, _ in sc["fields"])
        if not has_auth or r.dump_status != "OK":
            return ("the time answer to an authenticated request %s" % (
                "carries no NTS authenticator: the client cannot authenticate it" if not has_auth
                else "does not authenticate under the cookie's server-to-client key"), pay)
        d = r.dump
        if any(i[0] in "uk" for i in d["U"]):
            return ("unique identifier or cookie outside the authenticated part of the answer", pay)
        fresh = [i for i in d["E"] if i[0] == "k"]
        slots = sorted([len(unhex(i[1:])) if i[0] == "c" else int(i[1:]) for i in p["A"] + p["E"] if i[0] in "cp"], reverse=True)
        if len(fresh) > 8 or len(fresh) > len(slots):
            return ("%d fresh cookies for %d cookies/placeholders in the request" % (len(fresh), len(slots)), pay)
        sizes = sorted([int(i[1:].split(".")[0]) for i in fresh], reverse=True)
        for a, b in zip(sizes, slots):
            if a > b:
                return ("a fresh cookie of %d bytes is larger than the field it replaces (%d)" % (a, b), pay)
        for i in fresh:
            f = i[1:].split(".")
            if f[1] == "bad" or f[1:] != p["K"]:
                return ("a fresh cookie does not decode under the server's keys to the request's session keys", pay)
    return None


# --------------------------------------------------------------------------------------------
# the common flow
# --------------------------------------------------------------------------------------------

def outcome_class(case, o):
    if o.msg is None:
        return "panic"
    r1, r2 = o.results.get("r1"), o.results.get("r2")
    if o.parse is None:
        return "rejected"
    k = "nts" if (o.parse.get("K") and o.parse["status"] == "OK") else ("decrypt-error" if o.parse["status"] == "DE" else "plain")
    a = "answered" if (r1 and r1.sent) else ("dropped-small-buffer" if (r2 and r2.sent) else "ignored")
    return "v%d-%s-%s" % (o.parse["version"], k, a)


def run_property(prop, monitor, crate_rule, n_quick=700, n_thorough=1500, weights=None, extra_assumptions=(), pre_finish=None):
    c = vplib.Check(prop)
    c.run_gate()
    n = n_quick if c.tier == "quick" else n_thorough
    cases = witnesses() + load_corpus(prop) + generate(c.rng, n, weights)
    cases = vplib.replay_cases() or cases
    dist = {}
    flat = []          # (case index, coq input, coq expected)
    exe, log, mode = vplib.build_harness("ntp-proto", prop)
    if exe is None:
        c.not_shown_because("correspondence %s model <-> ntp-proto harness: the harness no longer builds against the current tree: %s" % (prop, log[-1500:]))
        if pre_finish:
            pre_finish(c)
        return c.finish()
    if mode != "verif_all":
        c.notes.append("harness built in isolation (%s): another property's harness module does not compile" % mode)
    lines = ["%d %s" % (i, line_of(case)) for i, case in enumerate(cases)]
    rc, out, res = vplib.run_harness(exe, prop, lines, "ntp-proto")
    outs = {}
    for l in res:
        t = l.split()
        if t:
            outs[int(t[0])] = t[1:]
    if rc != 0 or len(outs) != len(cases):
        c.not_shown_because("correspondence %s: harness run failed (rc=%s, %d of %d cases answered): %s" % (prop, rc, len(outs), len(cases), out[-1200:]))
    terms = []
    for i, case in enumerate(cases):
        toks = outs.get(i)
        if toks is None:
            continue
        o = Out(toks)
        cls = outcome_class(case, o)
        dist[cls] = dist.get(cls, 0) + 1
        c.count_case(lines[i].split(" ", 1)[1], nontrivial=(o.msg is not None and o.parse is not None))
        if len(c.cov["samples"]) < 6 and i % max(1, len(cases) // 6) == 0 and o.msg is not None:
            c.sample({"request_hex": o.msg.hex()[:200], "class": cls,
                      "request_sized_buffer": ("answer of %d bytes" % o.results["r1"].length) if o.results["r1"].sent else "no answer (%s)" % o.results["r1"].stats})
        m = monitor(case, toks)
        if m:
            what, payload = m
            payload = dict(payload)
            payload.update({"harness_input": lines[i], "implementation_output": " ".join(toks)[:4000], "crate": "ntp-proto"})
            try:
                json.dumps(case)
                payload["case_for_replay"] = case
                payload.setdefault("case", case)
            except (TypeError, ValueError):
                pass
            c.fail(what, payload)
        if o.panic:
            terms.append("(%d%%N, {| k_op := 0; k_cfg := {| c_intended := 3; c_require_nts := 0; c_accepted := [] |}; "
                         "k_state := {| s_stratum := 0; s_leap := 0; s_refid := []; s_precision := 0; s_rdelay_short := []; s_rdisp_short := []; "
                         "s_rdelay_t32 := []; s_rdisp_t32 := []; s_filter := [] |}; k_recv := []; k_now := []; k_req := None; k_first := 0; k_mlen := 0; k_buf := 0 |}, "
                         "(OPanic 0, 0, true))" % (4 * i))
            continue
        for j, (inp, exp) in enumerate(coq_cases(case, o)):
            terms.append("(%d%%N, %s, %s)" % (4 * i + j, inp, exp))
    c.cov["distribution"] = {"cases": len(cases), "model_evaluations": len(terms), "outcome_classes": dict(sorted(dist.items()))}
    c.cov["rule"] = crate_rule
    if c.gate is not None and not c.gate.ok and any("proof build failed" in p for p in c.gate.problems):
        c.not_shown_because("correspondence %s: not evaluated, the Coq development does not build" % prop)
        if pre_finish:
            pre_finish(c)
        return c.finish()
    mism, errors = vplib.run_coq_cases(prop, PREAMBLE, terms, CHECKER, shard=150)
    for e in errors:
        c.not_shown_because("correspondence %s: model evaluation failed: %s" % (prop, e))
    nm = 0
    import re
    for k, body in mism:
        for mm in re.finditer(r"\((\d+)%N,\s*", body):
            idx = int(mm.group(1))
            nm += 1
            if nm <= 5:
                i = idx // 4
                c.not_shown_because("correspondence %s model <-> Server::handle: case %d (buffer %d) differs: input `%s` implementation `%s` model says %s" % (
                    prop, i, idx % 4, lines[i][:400], " ".join(outs.get(i, []))[:600], body[mm.start():mm.start() + 500]))
    c.cov["model_mismatches"] = nm
    c.cov["model_cases"] = len(terms)
    c.assumptions += [
        "hand-written model coq/Model/Response.v over parsed requests; the byte-level decoder is outside it (builder P1); the request as the real "
        "decoder reports it is the model's input, the request length formula and well-formedness predicate are checked against every datagram",
        "AES-SIV, the random nonce/server cookie and cookie contents are abstract in the model; the harness decrypts answers and fresh cookies with the real keys",
        "reception time, clock reading, precision.log2(), the wire encodings of root delay/dispersion and the Bloom filter bytes are inputs of the model (computed by the same Rust functions in the harness)",
        "requests are at most 1024 bytes (the daemon's receive buffer, constant DAEMON_MAX_PACKET_SIZE)",
    ] + list(extra_assumptions)
    if pre_finish:
        pre_finish(c)
    return c.finish()
