#!/bin/sh
# RUSTC_WORKSPACE_WRAPPER for the harness builds: adds the hook guard and the
# harness selection cfg (taken from this script's own name: verif_all or
# verif_cNN) to the compilation of workspace members only.
sel=$(basename "$0")
rustc="$1"; shift
exec "$rustc" "$@" --cfg pendulum_project_ntpd_rs_verif --cfg "$sel" -A warnings
