"""Shared machinery of the /verif checks (see DESIGN.md section 2).

One check  =  constants translator -> proof gate (make + forbidden words +
Print Assumptions allow-list) -> harness build (cargo, guarded hooks) ->
cases (generated from VERIF_SEED, corpus first) run on the implementation ->
the same cases evaluated by the Gallina model inside coqc (vm_compute) and
compared there -> verdict -> evidence.

Only the python standard library is used.
"""
import hashlib
import json
import os
import random
import re
import shutil
import subprocess
import sys
import time
from concurrent.futures import ThreadPoolExecutor

VERIF = os.path.dirname(os.path.dirname(os.path.abspath(__file__)))
REPO = os.environ.get("VERIF_REPO", "/repo")
COQ = os.path.join(VERIF, "coq")
CACHE = os.path.join(VERIF, ".cache")
TARGET = os.path.join(CACHE, "target")   # re-pointed below for scratch worktrees
_ALT = os.path.realpath(REPO) != "/repo"   # a scratch worktree is being checked: keep /verif's own evidence untouched
REPLAYS = os.path.join(CACHE, "alt", "replays") if _ALT else os.path.join(VERIF, "replays")
EVIDENCE = os.path.join(CACHE, "alt", "evidence") if _ALT else os.path.join(VERIF, "evidence")
if _ALT:
    # one cargo target dir per source tree: the artifacts of /repo and of a scratch worktree
    # have the same file names and cargo's freshness test is mtime based, so sharing a
    # target dir between trees can run a stale binary (and alternating trees thrashes)
    TARGET = os.path.join(CACHE, "alt", "target_" + hashlib.sha1(os.path.realpath(REPO).encode()).hexdigest()[:8])
GUARD = "pendulum_project_ntpd_rs_verif"
NCPU = os.cpu_count() or 4


def jobs():
    """parallelism for make / cargo / coqc shards: all cores on an idle machine, few when
    many checks run at once (the machine is shared by concurrent checks)"""
    try:
        load = os.getloadavg()[0]
    except OSError:
        load = 0.0
    if load < NCPU:
        return NCPU
    if load < 3 * NCPU:
        return max(2, NCPU // 4)
    return 2

FORBIDDEN = re.compile(
    r"\b(Admitted|admit|Axiom|Axioms|Parameter|Parameters|Conjecture|Conjectures|"
    r"Primitive|Admit\s+Obligations|Unset\s+Guard\s+Checking|Unset\s+Positivity\s+Checking|"
    r"Unset\s+Universe\s+Checking|bypass_check|type-in-type|impredicative-set|"
    r"native_compute|Extract\s+Constant|Extract\s+Inductive)\b")


def sh(cmd, cwd=None, env=None, timeout=None, input=None):
    e = dict(os.environ)
    if env:
        e.update(env)
    p = subprocess.run(cmd, cwd=cwd, env=e, shell=isinstance(cmd, str), input=input,
                       stdout=subprocess.PIPE, stderr=subprocess.STDOUT, timeout=timeout,
                       text=True, errors="replace")
    return p.returncode, p.stdout


# --------------------------------------------------------------------------
# Coq side
# --------------------------------------------------------------------------

def strip_comments(src):
    """remove (possibly nested) Coq comments and string literals"""
    out = []
    i, depth, n = 0, 0, len(src)
    instr = False
    while i < n:
        if depth == 0 and src[i] == '"':
            instr = not instr
            i += 1
            continue
        if instr:
            i += 1
            continue
        if src.startswith("(*", i):
            depth += 1
            i += 2
            continue
        if depth and src.startswith("*)", i):
            depth -= 1
            i += 2
            continue
        if depth == 0:
            out.append(src[i])
        i += 1
    return "".join(out)


def coq_files():
    res = []
    for d, _, fs in os.walk(COQ):
        for f in fs:
            if f.endswith(".v"):
                res.append(os.path.relpath(os.path.join(d, f), COQ))
    return sorted(res)


def ensure_makefile():
    mk = os.path.join(COQ, "Makefile")
    proj = os.path.join(COQ, "_CoqProject")
    files = coq_files()
    body = "-Q . V\n-arg -w -arg -notation-overridden,-ambiguous-paths,-deprecated-hint-without-locality,-deprecated-instance-without-locality,-deprecated-hint-rewrite-without-locality\n" + "\n".join(files) + "\n"
    old = open(proj).read() if os.path.exists(proj) else ""
    if old != body or not os.path.exists(mk):
        with open(proj, "w") as f:
            f.write(body)
        rc, out = sh("coq_makefile -f _CoqProject -o Makefile", cwd=COQ)
        if rc != 0:
            raise RuntimeError("coq_makefile failed: " + out)


_DEP_RE = re.compile(r"^\s*(?:From\s+V\s+)?Require\s+(?:Import\s+|Export\s+)?(.*?)\.\s*$", re.M)


def cone(vfile):
    """transitive closure of the V.* dependencies of coq/<vfile> (paths relative to coq/)"""
    seen, todo = [], [vfile]
    while todo:
        f = todo.pop()
        if f in seen:
            continue
        seen.append(f)
        src = strip_comments(open(os.path.join(COQ, f)).read())
        mods = [m.group(1) for m in re.finditer(r"\bV\.([A-Za-z0-9_]+(?:\.[A-Za-z0-9_]+)*)", src)]
        for m in re.finditer(r"From\s+V\s+Require\s+(?:Import\s+|Export\s+)?(.*?)\.(?=\s|$)", src, re.S):
            mods += m.group(1).split()
        for mod in mods:
            p = mod.replace(".", "/") + ".v"
            if os.path.exists(os.path.join(COQ, p)):
                todo.append(p)
    return sorted(seen)


STMT_RE = re.compile(r"^\s*(?:Local\s+|Global\s+|#\[[^\]]*\]\s*)*(Theorem|Lemma|Example|Corollary|Fact|Proposition|Remark)\s+([A-Za-z0-9_']+)", re.M)


def count_obligations(files):
    n = 0
    names = []
    for f in files:
        src = strip_comments(open(os.path.join(COQ, f)).read())
        for m in STMT_RE.finditer(src):
            n += 1
            names.append(f + ":" + m.group(2))
    return n, names


def load_allow():
    allow = set()
    p = os.path.join(COQ, "assumptions.allow")
    for line in open(p):
        line = line.split("#")[0].strip()
        if line:
            allow.add(line)
    return allow


def parse_assumptions(src, out):
    """{theorem: [axiom names]}: the k-th `Print Assumptions T.` of the Props source
    corresponds to the k-th block of the coqc output (a block starts with
    `Closed under the global context` or `Axioms:`)."""
    names = re.findall(r"Print\s+Assumptions\s+([A-Za-z0-9_.']+?)\s*\.(?:\s|$)", strip_comments(src))
    blocks = []
    for line in out.splitlines():
        if line.startswith("Closed under the global context"):
            blocks.append([])
        elif line.startswith("Axioms:"):
            blocks.append([])
        elif blocks and line and not line.startswith(" "):
            m = re.match(r"^([A-Za-z0-9_.']+)\s*(:|$)", line)
            if m:
                blocks[-1].append(m.group(1))
    if len(blocks) != len(names):
        return None
    return dict(zip(names, blocks))


class ProofGate:
    def __init__(self):
        self.ok = True
        self.problems = []
        self.obligations = 0
        self.discharged = 0
        self.cmds = []
        self.assumptions = {}
        self.cone = []
        self.wall = 0.0


def proof_gate(prop, tier="quick", extra_props=()):
    """build the cone of Props/<prop>.v, scan it, check Print Assumptions"""
    t0 = time.time()
    g = ProofGate()
    ensure_makefile()
    targets = ["Props/%s.vo" % p for p in (prop,) + tuple(extra_props)]
    g.cone = sorted(set(sum([cone("Props/%s.v" % p) for p in (prop,) + tuple(extra_props)], [])))
    g.obligations, names = count_obligations(g.cone)
    cmd = "timeout 3000 make -j%d %s" % (jobs(), " ".join(targets))
    g.cmds.append("cd coq && " + cmd)
    rc, out = sh(cmd, cwd=COQ)
    if rc != 0:
        g.ok = False
        m = re.findall(r'File "\./([^"]+)", line (\d+)', out)
        where = ("%s line %s" % m[-1]) if m else "unknown location"
        g.problems.append("proof build failed at %s: %s" % (where, out[-1500:]))
    else:
        g.discharged = g.obligations
    private = None
    if tier == "thorough" and rc == 0:
        # rebuild the whole cone from clean in a private copy (coq/ itself is shared with
        # concurrently running checks, so nothing is deleted there)
        private = os.path.join(CACHE, "thorough", "%s_%d" % (prop, os.getpid()))
        shutil.rmtree(private, ignore_errors=True)
        for f in g.cone:
            os.makedirs(os.path.dirname(os.path.join(private, f)), exist_ok=True)
            shutil.copy(os.path.join(COQ, f), os.path.join(private, f))
        with open(os.path.join(private, "_CoqProject"), "w") as fh:
            fh.write("-Q . V\n-arg -w -arg -notation-overridden,-ambiguous-paths,-deprecated-hint-without-locality,-deprecated-instance-without-locality,-deprecated-hint-rewrite-without-locality\n" + "\n".join(g.cone) + "\n")
        cmd2 = "coq_makefile -f _CoqProject -o Makefile && timeout 6000 make -j%d" % jobs()
        g.cmds.append("cd <private copy of the cone> && " + cmd2)
        rc2, out2 = sh(cmd2, cwd=private)
        if rc2 != 0:
            g.ok = False
            g.discharged = 0
            g.problems.append("clean rebuild of the cone failed: " + out2[-1500:])
    # forbidden words anywhere in the cone
    for f in g.cone:
        src = strip_comments(open(os.path.join(COQ, f)).read())
        for m in FORBIDDEN.finditer(src):
            g.ok = False
            g.problems.append("forbidden construct %r in coq/%s" % (m.group(0), f))
    # Print Assumptions of the property theorems: recompile the Props file to a scratch .vo
    if rc == 0:
        allow = load_allow()
        for p in (prop,) + tuple(extra_props):
            sdir = os.path.join(CACHE, "props", str(os.getpid()))
            os.makedirs(sdir, exist_ok=True)
            scratch = os.path.join(sdir, p + ".vo")
            cmd = "timeout 900 coqc -q -noglob -Q . V -o %s Props/%s.v" % (scratch, p)
            g.cmds.append("cd coq && " + cmd)
            rc2, out2 = sh(cmd, cwd=COQ)
            shutil.rmtree(sdir, ignore_errors=True)
            if rc2 != 0:
                g.ok = False
                g.problems.append("Props/%s.v does not compile: %s" % (p, out2[-1500:]))
                continue
            ass = parse_assumptions(open(os.path.join(COQ, "Props", p + ".v")).read(), out2)
            if not ass:
                g.ok = False
                g.problems.append("Props/%s.v: Print Assumptions output missing or not matching the theorems" % p)
                ass = {}
            for thm, axs in ass.items():
                g.assumptions[thm] = axs
                for a in axs:
                    if a not in allow and a.split(".")[-1] not in {x.split(".")[-1] for x in allow}:
                        g.ok = False
                        g.problems.append("theorem %s depends on %s, not in assumptions.allow" % (thm, a))
        if tier == "thorough" and os.environ.get("VERIF_COQCHK", "1") == "1":
            mods = " ".join("V." + f[:-2].replace("/", ".") for f in g.cone if f.startswith("Props/"))
            cmd = "timeout 3000 coqchk -silent -o -Q . V %s" % mods
            g.cmds.append("cd <private copy of the cone> && " + cmd)
            rc3, out3 = sh(cmd, cwd=private or COQ)
            if rc3 != 0:
                g.ok = False
                g.problems.append("coqchk failed: " + out3[-1500:])
            else:
                axs = []
                on = False
                for line in out3.splitlines():
                    if line.strip().startswith("* Axioms:"):
                        on = True
                        continue
                    if line.strip().startswith("* ") and on:
                        on = False
                    if on and line.strip() and line.strip() != "<none>":
                        axs.append(line.strip())
                g.assumptions["coqchk"] = axs
                for a in axs:
                    short = a.split(".")[-1]
                    if a not in allow and short not in {x.split(".")[-1] for x in allow}:
                        g.ok = False
                        g.problems.append("coqchk reports axiom %s, not in assumptions.allow" % a)
    if private:
        shutil.rmtree(private, ignore_errors=True)
    g.wall = time.time() - t0
    return g


def run_coq_cases(tag, preamble, case_terms, checker, shard=400, timeout=1800):
    """Evaluate  `checker [case; ...]`  in Coq with vm_compute, sharded over coqc
    processes.  `checker : list T -> list (N * R)` returns the mismatching
    cases (index, what the model computed).  Returns (list of (index, text), errors)."""
    base = os.path.join(CACHE, "cases")
    os.makedirs(base, exist_ok=True)
    for f in os.listdir(base):      # drop the case dirs of finished runs
        try:
            pid = int(f.rsplit("_", 1)[1])
            if pid != os.getpid() and not os.path.exists("/proc/%d" % pid):
                shutil.rmtree(os.path.join(base, f), ignore_errors=True)
        except (ValueError, IndexError, OSError):
            pass
    d = os.path.join(base, "%s_%d" % (tag, os.getpid()))
    shutil.rmtree(d, ignore_errors=True)
    os.makedirs(d)
    shards = [case_terms[i:i + shard] for i in range(0, len(case_terms), shard)]
    shard_jobs = []
    for k, sh_cases in enumerate(shards):
        name = "cases_%s_%d" % (re.sub(r"\W", "_", tag), k)
        path = os.path.join(d, name + ".v")
        with open(path, "w") as f:
            f.write(preamble + "\n")
            f.write("Definition the_cases := [\n")
            f.write(";\n".join(sh_cases))
            f.write("\n].\n")
            f.write('Set Printing Width 1000000. Set Printing Depth 1000000.\n')
            f.write("Eval vm_compute in (%s the_cases).\n" % checker)
        shard_jobs.append((k, path))

    def one(job):
        k, path = job
        rc, out = sh("timeout %d coqc -q -noglob -Q %s V %s" % (timeout, COQ, path), cwd=d)
        return k, rc, out

    mism, errors = [], []
    with ThreadPoolExecutor(max_workers=jobs()) as ex:
        for k, rc, out in ex.map(one, shard_jobs):
            if rc != 0:
                errors.append("shard %d: coqc rc=%d: %s" % (k, rc, out[-2000:]))
                continue
            m = re.search(r"^\s*=\s*(.*?)\n\s*:\s", out + "\n : ", re.S | re.M)
            body = m.group(1).strip() if m else out.strip()
            if body.startswith("[]") or body == "nil":
                continue
            mism.append((k, body))
    return mism, errors


# --------------------------------------------------------------------------
# Rust side
# --------------------------------------------------------------------------

CRATE_DIRS = {"ntp-proto": "ntp-proto", "ntpd": "ntpd", "statime-wire": "statime-wire",
              "statime-base": "statime-base", "statime-algo": "statime-algo",
              "statime-csptp": "statime-csptp", "statime-netptp": "statime-netptp"}


def cargo_env():
    return {
        "CARGO_TARGET_DIR": TARGET,
        "CARGO_NET_OFFLINE": "true",
        "CARGO_BUILD_JOBS": str(jobs()),
        # release semantics for arithmetic and debug_assert (DESIGN.md 2.2)
        "CARGO_PROFILE_TEST_OVERFLOW_CHECKS": "false",
        "CARGO_PROFILE_TEST_DEBUG_ASSERTIONS": "false",
        "CARGO_PROFILE_DEV_OVERFLOW_CHECKS": "false",
        "CARGO_PROFILE_DEV_DEBUG_ASSERTIONS": "false",
    }


HARNESS_PACKAGES = ["ntp-proto", "ntpd", "statime-wire", "statime-base", "statime-algo", "statime-csptp"]


def _wrapper(sel):
    d = os.path.join(VERIF, "tools", "wrap")
    w = os.path.join(d, sel)
    if not os.path.exists(w):
        shutil.copy(os.path.join(d, "wrapper.sh"), w)
        os.chmod(w, 0o755)
    return w


def build_harness(crate, prop, extra_args=""):
    """returns (exe or None, log, mode).  The lib test binaries of all hooked crates
    are built in one cargo invocation (features unify as in the repository's own
    `cargo test --workspace`); the guard cfg and the harness selection cfg are added
    to workspace members only, through RUSTC_WORKSPACE_WRAPPER, so dependencies are
    shared.  First the all-properties build; if that fails, the build with only this
    property's harness module, so that an edit which breaks another property's
    harness does not raise an alarm here."""
    os.makedirs(CACHE, exist_ok=True)
    import fcntl
    # One harness build at a time, and the test binary is copied to a private path
    # before the lock is released: the binary's file name is the same for /repo and for
    # a scratch worktree (VERIF_REPO), so a concurrent check must not be able to replace
    # it between the build and the run.
    os.makedirs(TARGET, exist_ok=True)
    with open(os.path.join(TARGET, "verif_build.lock"), "w") as lockf:
        fcntl.flock(lockf, fcntl.LOCK_EX)
        try:
            return _build_harness_locked(crate, prop, extra_args)
        finally:
            fcntl.flock(lockf, fcntl.LOCK_UN)


def _tree_stamp():
    """cargo's freshness test for path packages is mtime based and the artifacts of /repo
    and of a scratch worktree (VERIF_REPO) have the same file names in the shared target
    dir, so after a build from another tree cargo can consider a stale binary fresh.
    When the tree differs from the one built last, the crate roots of this tree are
    touched (content unchanged) so that every workspace member is rebuilt from it."""
    stamp = os.path.join(TARGET, "verif_last_tree")
    cur = os.path.realpath(REPO)
    try:
        last = open(stamp).read().strip()
    except OSError:
        last = ""
    if last != cur:
        for c in list(CRATE_DIRS.values()):
            for rel in ("src/lib.rs", "src/test.rs"):
                f = os.path.join(cur, c, rel)
                if os.path.exists(f):
                    os.utime(f, None)
        with open(stamp, "w") as fh:
            fh.write(cur)


def _build_harness_locked(crate, prop, extra_args):
    last = ""
    _tree_stamp()
    for mode in ("verif_all", "verif_" + prop.lower()):
        env = cargo_env()
        env["RUSTC_WORKSPACE_WRAPPER"] = _wrapper(mode)
        cmd = "cargo test --no-run --lib %s --offline --message-format=json %s" % (
            " ".join("-p " + p for p in HARNESS_PACKAGES), extra_args)
        rc, out = sh(cmd, cwd=REPO, env=env, timeout=3000)
        exe = None
        msgs = []
        for line in out.splitlines():
            if line.startswith("{"):
                try:
                    j = json.loads(line)
                except ValueError:
                    continue
                if j.get("reason") == "compiler-artifact" and j.get("executable") and \
                        j.get("target", {}).get("name", "").replace("-", "_") == crate.replace("-", "_"):
                    exe = j["executable"]
                if j.get("reason") == "compiler-message":
                    r = j.get("message", {}).get("rendered")
                    if r and j["message"].get("level") == "error":
                        msgs.append(r)
            else:
                msgs.append(line)
        last = "\n".join(msgs)[-4000:]
        if rc == 0 and exe:
            d = os.path.join(CACHE, "exe")
            os.makedirs(d, exist_ok=True)
            private = os.path.join(d, "%s_%s_%d" % (crate, prop.lower(), os.getpid()))
            shutil.copy2(exe, private)
            # keep the directory small: drop private copies older than a day or of dead processes
            for f in os.listdir(d):
                fp = os.path.join(d, f)
                try:
                    pid = int(f.rsplit("_", 1)[1])
                    if pid != os.getpid() and not os.path.exists("/proc/%d" % pid):
                        os.remove(fp)
                except (ValueError, IndexError, OSError):
                    pass
            return private, last, mode
    return None, last, None


def run_harness(exe, prop, lines, crate_dir, timeout=3000, env=None):
    d = os.path.join(CACHE, "io")
    os.makedirs(d, exist_ok=True)
    # keyed by pid: two checks of the same property (e.g. /repo and a scratch worktree) may run at once
    fin = os.path.join(d, "%s_%d.in" % (prop, os.getpid()))
    fout = os.path.join(d, "%s_%d.out" % (prop, os.getpid()))
    for f in os.listdir(d):
        try:
            pid = int(f.rsplit(".", 1)[0].rsplit("_", 1)[1])
            if pid != os.getpid() and not os.path.exists("/proc/%d" % pid):
                os.remove(os.path.join(d, f))
        except (ValueError, IndexError, OSError):
            pass
    with open(fin, "w") as f:
        for l in lines:
            f.write(l + "\n")
    if os.path.exists(fout):
        os.remove(fout)
    e = {"VERIF_IN": fin, "VERIF_OUT": fout, "RUST_BACKTRACE": "0"}
    if env:
        e.update(env)
    cmd = "%s verif_%s_driver --test-threads 1 --nocapture" % (exe, prop.lower())
    rc, out = sh(cmd, cwd=os.path.join(REPO, crate_dir), env=e, timeout=timeout)
    res = []
    if os.path.exists(fout):
        res = open(fout).read().splitlines()
    return rc, out, res


# --------------------------------------------------------------------------
# verdict, evidence, known findings
# --------------------------------------------------------------------------

def known_findings(prop):
    p = os.path.join(VERIF, "known_findings.json")
    if not os.path.exists(p):
        return []
    return [k for k in json.load(open(p)).get("findings", []) if k["property"] == prop]


class Check:
    """bookkeeping of one check run"""

    def __init__(self, prop, level_text=""):
        self.prop = prop
        self.t0 = time.time()
        self.tier = os.environ.get("VERIF_TIER", "quick")
        if "--tier" in sys.argv:
            self.tier = sys.argv[sys.argv.index("--tier") + 1]
        if self.tier not in ("quick", "thorough"):
            self.tier = "quick"
        self.seed = int(os.environ.get("VERIF_SEED", "20260921") or 0)
        self.rng = random.Random(self.seed * 1000003 + int(prop[1:]))
        self.not_shown = []          # reasons the property is not shown to hold
        self.failing = []            # (description, replay payload) concrete failing inputs
        self.known_lines = []
        self.cov = {"evaluations": 0, "distinct_nontrivial": 0, "rule": "", "samples": [],
                    "obligations": 0, "discharged": 0, "checker_cmd": "", "trusted_base": []}
        self.assumptions = []
        self.notes = []
        self.gate = None
        self._distinct = set()

    # --- proof gate
    def run_gate(self, extra_props=()):
        from tools import constants
        consts = constants.regenerate()
        g = proof_gate(self.prop, self.tier, extra_props)
        ch = {"changed": False}
        for f, r in consts.items():
            if f in g.cone:
                ch["changed"] = ch["changed"] or r["changed"]
                for e in r["errors"]:
                    self.not_shown.append("constants translator (%s): %s" % (f, e))
        self.gate = g
        self.cov["obligations"] = g.obligations
        self.cov["discharged"] = g.discharged
        self.cov["checker_cmd"] = " ; ".join(g.cmds)
        tb = ["Coq 8.16.1 kernel + vm_compute (no native_compute, no extraction)"]
        axs = sorted({a for v in g.assumptions.values() for a in v})
        if axs:
            tb.append("axioms (all from the Coq standard library): " + ", ".join(axs))
        else:
            tb.append("Print Assumptions: closed under the global context for every property theorem")
        for thm, a in sorted(g.assumptions.items()):
            tb.append("%s: %s" % (thm, ", ".join(a) if a else "closed under the global context"))
        self.cov["trusted_base"] = tb
        self.cov["cone"] = g.cone
        self.cov["constants_changed"] = ch.get("changed", False)
        if not g.ok:
            for p in g.problems:
                self.not_shown.append("proof gate: " + p)
        return g.ok

    # --- coverage
    def count_case(self, key, nontrivial=True):
        self.cov["evaluations"] += 1
        if nontrivial:
            self._distinct.add(hashlib.sha1(repr(key).encode()).digest()[:10])

    def sample(self, s, limit=6):
        if len(self.cov["samples"]) < limit:
            self.cov["samples"].append(s)

    # --- results
    def fail(self, what, payload):
        self.failing.append((what, payload))

    def not_shown_because(self, why):
        self.not_shown.append(why)

    def finish(self):
        prop = self.prop
        self.cov["distinct_nontrivial"] = len(self._distinct)
        os.makedirs(EVIDENCE, exist_ok=True)
        os.makedirs(REPLAYS, exist_ok=True)
        rc = 0
        lines = []
        # known findings: a failing input that matches a listed finding is reported as such
        kf = known_findings(prop)
        unlisted = []
        for what, payload in self.failing:
            hit = None
            for k in kf:
                if k.get("status", "open") == "open" and k["class"] == payload.get("class"):
                    hit = k
            if hit:
                line = "KNOWN-FINDING: property=%s %s" % (prop, hit["what"])
                if line not in self.known_lines:
                    self.known_lines.append(line)
            else:
                unlisted.append((what, payload))
        for l in self.known_lines:
            lines.append(l)
        if unlisted:
            rc = 1
            what, payload = unlisted[0]
            path = os.path.join(REPLAYS, "%s_%d.json" % (prop, self.seed))
            with open(path, "w") as f:
                json.dump({"property": prop, "what": what, "replay": payload,
                           "others": [w for w, _ in unlisted[1:20]],
                           "not_shown": self.not_shown}, f, indent=1)
            lines.append("VIOLATION property=%s replay=%s" % (prop, path))
        elif self.not_shown:
            rc = 1
            path = os.path.join(REPLAYS, "%s_%d_notshown.json" % (prop, self.seed))
            with open(path, "w") as f:
                json.dump({"property": prop,
                           "what": "property no longer shown to hold; no concrete failing input was found",
                           "broken": self.not_shown}, f, indent=1)
            lines.append("VIOLATION property=%s replay=%s no-failing-input-found" % (prop, path))
        ev = {
            "property_id": prop,
            "tier": self.tier,
            "seed": self.seed,
            "level": "proof",
            "coverage": self.cov,
            "assumptions": self.assumptions,
            "wall_s": round(time.time() - self.t0, 2),
            "violations": len(unlisted) + (1 if (self.not_shown and not unlisted) else 0),
            "known_findings_reported": self.known_lines,
            "notes": self.notes,
            "not_shown": self.not_shown,
        }
        with open(os.path.join(EVIDENCE, prop + ".json"), "w") as f:
            json.dump(ev, f, indent=1, default=str)
        for l in lines:
            print(l)
        if rc == 0:
            print("OK property=%s tier=%s obligations=%d evaluations=%d distinct=%d wall=%.1fs" % (
                prop, self.tier, self.cov["obligations"], self.cov["evaluations"],
                self.cov["distinct_nontrivial"], time.time() - self.t0))
        else:
            for w in self.not_shown[:10]:
                print("  not shown: " + w[:600])
            for w, _ in unlisted[:10]:
                print("  failing: " + w[:600])
        sys.stdout.flush()
        return rc


def replay_cases():
    """`./check Cxx --replay <file>`: the case stored in a replay file written by a
    previous run (None when not replaying).  Use as  cases = vplib.replay_cases() or generate()."""
    if "--replay" not in sys.argv:
        return None
    j = json.load(open(sys.argv[sys.argv.index("--replay") + 1]))
    rp = j.get("replay", {})
    if "case_for_replay" in rp:
        return [rp["case_for_replay"]]
    if "case" in rp:
        return [rp["case"]]
    return None


def coq_list(items):
    return "[" + "; ".join(items) + "]"


def zlit(n):
    return "(%d)%%Z" % n if n < 0 else "%d%%Z" % n


def blit(b):
    return "true" if b else "false"


# --------------------------------------------------------------------------
# the standard flow of a property check
# --------------------------------------------------------------------------

def correspondence(c, crate, cases, line_of, coq_case_of, preamble, checker, monitor,
                   nontrivial=lambda case, out: True, key_of=None, shard=400,
                   corr_name=None, sample_of=None, harness_env=None):
    """cases: list of python objects.  line_of(case) -> token string for the harness.
    coq_case_of(case, out_tokens) -> (Coq term of the input, Coq term of the implementation's output)
    (or None to skip the model for this case).  monitor(case, out_tokens) -> None or a
    description of how the property itself fails on this implementation run.
    Returns the list of implementation outputs (token lists) or None."""
    prop = c.prop
    corr_name = corr_name or ("correspondence %s model <-> %s harness" % (prop, crate))
    rc_cases = replay_cases()
    if rc_cases is not None:
        # ./check Cxx --replay <file>: re-run exactly the stored case (same harness line, same monitor)
        cases = rc_cases
        c.notes.append("replay of a stored case")
    exe, log, mode = build_harness(crate, prop)
    if exe is None:
        c.not_shown_because("%s: the harness no longer builds against the current tree: %s" % (corr_name, log[-1500:]))
        return None
    if mode != "verif_all":
        c.notes.append("harness built in isolation (%s): another property's harness module does not compile" % mode)
    lines = ["%d %s" % (i, line_of(case)) for i, case in enumerate(cases)]
    rc, out, res = run_harness(exe, prop, lines, CRATE_DIRS[crate], env=harness_env)
    outs = {}
    for l in res:
        t = l.split()
        if t:
            outs[int(t[0])] = t[1:]
    if rc != 0 or len(outs) != len(cases):
        c.not_shown_because("%s: harness run failed (rc=%s, %d of %d cases answered): %s" % (
            corr_name, rc, len(outs), len(cases), out[-1200:]))
    terms, idx = [], []
    for i, case in enumerate(cases):
        o = outs.get(i)
        if o is None:
            continue
        c.count_case(key_of(case) if key_of else line_of(case), nontrivial(case, o))
        if sample_of and len(c.cov["samples"]) < 6 and (i % max(1, len(cases) // 6) == 0):
            c.sample(sample_of(case, o))
        m = monitor(case, o)
        if m:
            what, payload = m if isinstance(m, tuple) else (m, {})
            payload = dict(payload)
            payload.update({"harness_input": lines[i], "implementation_output": " ".join(o), "crate": crate})
            try:
                json.dumps(case)
                payload["case_for_replay"] = case
                payload.setdefault("case", case)
            except (TypeError, ValueError):
                pass
            c.fail(what, payload)
        t = coq_case_of(case, o)
        if t is not None:
            terms.append("(%d%%N, %s, %s)" % (i, t[0], t[1]))
            idx.append(i)
    if c.gate is not None and not c.gate.ok and any("proof build failed" in p for p in c.gate.problems):
        # the model may not even compile: the correspondence cannot run
        c.not_shown_because("%s: not evaluated, the Coq development does not build" % corr_name)
        return outs
    mism, errors = run_coq_cases(prop, preamble, terms, checker, shard=shard)
    for e in errors:
        c.not_shown_because("%s: model evaluation failed: %s" % (corr_name, e))
    nm = 0
    for k, body in mism:
        for m in re.finditer(r"\((\d+)%N,\s*", body):
            i = int(m.group(1))
            nm += 1
            if nm <= 5:
                c.not_shown_because("%s: case %d differs: input `%s` implementation `%s` model says %s" % (
                    corr_name, i, lines[i][:300], " ".join(outs.get(i, []))[:300], body[m.start():m.start() + 300].split("); (")[0]))
    c.cov["model_mismatches"] = nm
    c.cov["model_cases"] = len(terms)
    return outs
