"""constants and site censuses of ntp-proto/src/algorithm/kalman/{source,matrix,mod}.rs -> coq/Gen/ConstKalman.v (C06)"""
NAME = "ConstKalman"
_SRC = "ntp-proto/src/algorithm/kalman/source.rs"
_MAT = "ntp-proto/src/algorithm/kalman/matrix.rs"
_MOD = "ntp-proto/src/algorithm/kalman/mod.rs"
TABLE = [
    ("KALMAN_MIN_DELAY_EXP", _SRC, r"const MIN_DELAY: NtpDuration = NtpDuration::from_exponent\((-?\d+)\);", "int"),
    ("KALMAN_AVG_BUF_LEN", _SRC, r"pub struct AveragingBuffer \{\s*data: \[f64; (\d+)\],", "int"),
    ("KALMAN_INIT_FREQ_UNC", _SRC, r"const INITIALIZATION_FREQ_UNCERTAINTY: f64 = (\d+)\.0;", "int"),
    ("KALMAN_STABLE_AFTER", _SRC, r"if filter\.samples == (\d+) \{", "int"),
    # chi_1's literals (the model carries their binary64 patterns; tie lemma in Proofs/Kalman.v)
    ("KALMAN_CHI_CONSTS", _SRC, r"fn chi_1\(chi: f64\) -> f64 \{(.*?)let x = ", "text"),
    # censuses of the partial operations: a new division / square root / inverse site changes a number,
    # the tie lemma in Proofs/Kalman.v stops compiling, and the model has to be re-read against the code
    ("KALMAN_SQRT_SITES_SOURCE", _SRC, r"\.sqrt\(\)", "count"),
    ("KALMAN_INVERSE_SITES_SOURCE", _SRC, r"\.inverse\(\)", "count"),
    ("KALMAN_DIV_SITES_SOURCE", _SRC, r" /=? ", "count"),
    ("KALMAN_DIV_SITES_MATRIX", _MAT, r" /=? ", "count"),
    ("KALMAN_SQRT_SITES_MOD", _MOD, r"\.sqrt\(\)", "count"),
]
