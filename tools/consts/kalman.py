"""constants and site censuses of ntp-proto/src/algorithm/kalman/{source,matrix,mod}.rs -> coq/Gen/ConstKalman.v (C06)"""
NAME = "ConstKalman"
_SRC = "ntp-proto/src/algorithm/kalman/source.rs"
_MAT = "ntp-proto/src/algorithm/kalman/matrix.rs"
_MOD = "ntp-proto/src/algorithm/kalman/mod.rs"
_TT = "ntp-proto/src/time_types.rs"
TABLE = [
    ("KALMAN_MIN_DELAY_EXP", _SRC, r"const MIN_DELAY: NtpDuration = NtpDuration::from_exponent\((-?\d+)\);", "int"),
    ("KALMAN_AVG_BUF_LEN", _SRC, r"pub struct AveragingBuffer \{\s*data: \[f64; (\d+)\],", "int"),
    ("KALMAN_INIT_FREQ_UNC", _SRC, r"const INITIALIZATION_FREQ_UNCERTAINTY: f64 = (\d+)\.0;", "int"),
    ("KALMAN_STABLE_AFTER", _SRC, r"if filter\.samples == (\d+) \{", "int"),
    # chi_1's literals (the model carries their binary64 patterns; tie lemma in Proofs/Kalman.v)
    ("KALMAN_CHI_CONSTS", _SRC, r"fn chi_1\(chi: f64\) -> f64 \{(.*?)let x = ", "text"),
    # censuses of the partial operations: a new division / square root / inverse site changes a number,
    # the tie lemma in Proofs/Kalman.v stops compiling, and the model has to be re-read against the code
    ("KALMAN_SQRT_SITES_SOURCE", _SRC, r"\.sqrt\(\)", "count"),
    ("KALMAN_INVERSE_SITES_SOURCE", _SRC, r"\.inverse\(\)", "count"),
    ("KALMAN_DIV_SITES_SOURCE", _SRC, r" /=? ", "count"),
    ("KALMAN_DIV_SITES_MATRIX", _MAT, r" /=? ", "count"),
    ("KALMAN_SQRT_SITES_MOD", _MOD, r"\.sqrt\(\)", "count"),
    # variants of the time-type helpers the filter calls (the C32 repair changes them); the model follows
    # whichever variant is present, the tie lemma demands exactly one of each pair
    ("TT_FROM_SECONDS_ROUNDS", _TT, r"\(f \* u32::MAX as f64\)\.round\(\) as i64", "count"),
    ("TT_FROM_SECONDS_TRUNCS", _TT, r"\(f \* u32::MAX as f64\) as i64", "count"),
    ("TT_ABS_SATURATES", _TT, r"duration: self\.duration\.saturating_abs\(\),", "count"),
    ("TT_ABS_WRAPS", _TT, r"duration: self\.duration\.abs\(\),", "count"),
    ("TT_POLL_INC_SATURATES", _TT, r"Self\(self\.0\.saturating_add\(1\)\)\.min\(limits\.max\)", "count"),
    ("TT_POLL_INC_WRAPS", _TT, r"Self\(self\.0 \+ 1\)\.min\(limits\.max\)", "count"),
    ("TT_POLL_DEC_SATURATES", _TT, r"Self\(self\.0\.saturating_sub\(1\)\)\.max\(limits\.min\)", "count"),
    ("TT_POLL_DEC_WRAPS", _TT, r"Self\(self\.0 - 1\)\.max\(limits\.min\)", "count"),
]
