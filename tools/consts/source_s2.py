"""constants of the source state machine model (builder S2: C07 C08 C09 C10 C12 C14) -> coq/Gen/ConstSourceS2.v
ntp-proto/src/source.rs, packet/mod.rs, packet/extension_fields.rs, packet/crypto.rs, packet/v5/mod.rs, time_types.rs"""
NAME = "ConstSourceS2"
SRC = "ntp-proto/src/source.rs"
EF = "ntp-proto/src/packet/extension_fields.rs"
# (coq name, file, regex with one group, kind)
TABLE = [
    ("DEFAULT_UPGRADE_TRIES", SRC, r"const DEFAULT_UPGRADE_TRIES: u8 = (\d+);", "int"),
    ("SEND_BUFFER_SIZE", SRC, r"\n    buffer: \[u8; (\d+)\],", "int"),
    ("SEND_BUFFER_SIZE_NEW", SRC, r"fn new\(.*?buffer: \[0; (\d+)\],", "int"),
    ("COOKIE_MARGIN", SRC, r"\(\(self\.buffer\.len\(\) - (\d+)\) / \(cookie\.len\(\)\.max\(1\)\)\)\.min\(u8::MAX as usize\) as u8", "int"),
    ("JITTER_LO_PERCENT", SRC, r"\.mul_f64\(thread_rng\(\)\.gen_range\(1\.(\d\d)\.\.=1\.\d\d\)\)", "int"),
    ("JITTER_HI_PERCENT", SRC, r"\.mul_f64\(thread_rng\(\)\.gen_range\(1\.\d\d\.\.=1\.(\d\d)\)\)", "int"),
    ("BLOOM_CHUNK_SIZE", SRC, r"fn new\(.*?bloom_filter: RemoteBloomFilter::new\((\d+)\)", "int"),
    # panic sites on the poll-building path (handle_timer): expect/unwrap/assert/indexing census
    ("TIMER_EXPECT_SITES", SRC, r"\.expect\(\"Internal error: could not serialize packet\"\)", "count"),
    ("AUTH_MIN_FIELD_SIZE", EF, r"We don't \(currently\) encode a MAC, so the minimum size per RFC 7822 is 16 octets\s*let minimum_size = (\d+);", "int"),
    ("V5_UNTRUSTED_MIN_FIELD_SIZE", EF, r"ExtensionHeaderVersion::V5 => (\d+),\s*\};\s*field\.serialize", "int"),
    ("EF_HEADER_LENGTH", EF, r"const HEADER_LENGTH: usize = (\d+);", "int"),
    ("NTS_NONCE_LENGTH", "ntp-proto/src/packet/crypto.rs", r"impl Cipher for AesSivCmac256 \{.*?let nonce: \[u8; (\d+)\] = rand::thread_rng\(\)\.r#gen\(\);", "int"),
    ("HEADER_V4_LENGTH", "ntp-proto/src/packet/mod.rs", r"impl NtpHeaderV3V4 \{\s*const WIRE_LENGTH: usize = (\d+);", "int"),
    ("HEADER_V5_LENGTH", "ntp-proto/src/packet/v5/mod.rs", r"const WIRE_LENGTH: usize = (\d+);", "int"),
    ("DRAFT_VERSION", "ntp-proto/src/packet/v5/mod.rs", r"pub\(crate\) const DRAFT_VERSION: &str = \"([^\"]*)\";", "text"),
    ("MAC_MAXIMUM_SIZE", "ntp-proto/src/packet/mac.rs", r"pub\(super\) const MAXIMUM_SIZE: usize = (\d+);", "int"),
    ("POLL_NEVER_IS_I8_MAX", "ntp-proto/src/time_types.rs", r"pub const NEVER: PollInterval = PollInterval\(i8::MAX\);", "count"),
    ("SYSTEM_DURATION_MAX_SHIFT", "ntp-proto/src/time_types.rs", r"pub const fn as_system_duration\(self\) -> Duration \{.*?\} else if self\.0 > (\d+) \{", "int"),
]
