"""constants and site censuses of ntpd/src/daemon/spawn/* and system.rs -> coq/Gen/ConstSpawn.v (C35, C36)"""
NAME = "ConstSpawn"
_POOL = "ntpd/src/daemon/spawn/pool.rs"
_MOD = "ntpd/src/daemon/spawn/mod.rs"
_STD = "ntpd/src/daemon/spawn/standard.rs"
_NTS = "ntpd/src/daemon/spawn/nts.rs"
_NTSPOOL = "ntpd/src/daemon/spawn/nts_pool.rs"
TABLE = [
    ("NETWORK_WAIT_PERIOD_SECS", "ntpd/src/daemon/system.rs",
     r"pub const NETWORK_WAIT_PERIOD: std::time::Duration = std::time::Duration::from_secs\((\d+)\);", "int"),
    ("NTS_TIMEOUT_SECS", _MOD, r"const NTS_TIMEOUT: std::time::Duration = std::time::Duration::from_secs\((\d+)\);", "int"),
    ("POOL_DEFAULT_COUNT", "ntpd/src/daemon/config/ntp_source.rs", r"fn max_sources_default\(\) -> usize \{\s*(\d+)\s*\}", "int"),
    # censuses: the places where the modelled state is written; a new site changes the number and
    # thereby the generated file, which the check reports (the model must be re-read against the code)
    ("POOL_SITES_CURRENT_SOURCES", _POOL, r"self\.current_sources\.(?:push|retain|pop|clear|remove|insert|truncate|drain|append|extend)", "count"),
    ("POOL_SITES_KNOWN_IPS", _POOL, r"self\.known_ips\.(?:push|retain|pop|clear|remove|insert|truncate|drain|append|extend|dedup|sort)", "count"),
    ("NTSPOOL_SITES_CURRENT_SOURCES", _NTSPOOL, r"self\.current_sources\s*\.(?:push|retain|pop|clear|remove|insert|truncate|drain|append|extend)", "count"),
    ("SPAWNER_TASK_SITES_HAS_TICKET", _MOD, r"has_ticket = (?:true|false)", "count"),
    ("SPAWNER_TASK_SITES_LAST_TICKET", _MOD, r"last_ticket_time = Instant::now\(\)", "count"),
    ("SPAWNER_TASK_SITES_WAIT_PERIOD", _MOD, r"NETWORK_WAIT_PERIOD", "count"),
    ("STANDARD_SITES_HAS_SPAWNED", _STD, r"self\.has_spawned = (?:true|false)", "count"),
    ("STANDARD_SITES_RESOLVED", _STD, r"self\.resolved = ", "count"),
    ("NTS_SITES_HAS_SPAWNED", _NTS, r"self\.has_spawned = (?:true|false)", "count"),
]
