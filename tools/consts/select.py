"""censuses of ntp-proto/src/algorithm/kalman/select.rs -> coq/Gen/ConstSelect.v
(the model coq/Model/Select.v mirrors this function; Proofs/Select.v pins the values)"""
NAME = "ConstSelect"
F = "ntp-proto/src/algorithm/kalman/select.rs"
# only the part of the file before the unit tests is counted
BEFORE_TESTS = r"(?=.*\n#\[cfg\(test\)\]\nmod tests)"
TABLE = [
    # panic sites of select(): exactly one assert_eq!, no unwrap/expect/panic!/indexing
    ("SELECT_ASSERT_SITES", F, r"\bassert(?:_eq|_ne)?!\(" + BEFORE_TESTS, "count"),
    ("SELECT_OTHER_PANIC_SITES", F, r"(?:\.unwrap\(\)|\.expect\(|\bpanic!\(|\bunreachable!\(|\w\[[^\]]+\])" + BEFORE_TESTS, "count"),
    # usize arithmetic of the sweep
    ("SELECT_CUR_INC", F, r"\bcur \+= 1;" + BEFORE_TESTS, "count"),
    ("SELECT_CUR_DEC", F, r"\bcur -= 1;" + BEFORE_TESTS, "count"),
    # the float expressions the harness re-evaluates to produce the keys
    ("SELECT_RADIUS_EXPR", F,
     r"let radius = snapshot\.offset_uncertainty\(\) \* algo_config\.range_statistical_weight\s*\+ snapshot\.delay \* algo_config\.range_delay_weight;" + BEFORE_TESTS,
     "count"),
    ("SELECT_LO_EXPR", F, r"snapshot\.offset\(\) - radius" + BEFORE_TESTS, "count"),
    ("SELECT_HI_EXPR", F, r"snapshot\.offset\(\) \+ radius" + BEFORE_TESTS, "count"),
    ("SELECT_SORT", F, r"bounds\.(sort_by\(\|a, b\| a\.0\.total_cmp\(&b\.0\)\));", "text"),
]
