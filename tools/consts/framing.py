"""constants of ntpd/src/daemon/sockets.rs -> coq/Gen/ConstFraming.v  (C38)"""
NAME = "ConstFraming"
F = "ntpd/src/daemon/sockets.rs"
TABLE = [
    ("MAX_JSON_MESSAGE_SIZE_LOG2", F, r"const MAX_JSON_MESSAGE_SIZE: u64 = 1 << (\d+);", "int"),
    # census: one length header written as u64 (8 bytes, big endian), one read; the guard sits between read_u64 and resize
    ("FRAMING_WRITE_U64", F, r"stream\.write_u64\(bytes\.len\(\) as u64\)\.await\?;\s*stream\.write_all\(&bytes\)\.await", "count"),
    ("FRAMING_READ_GUARD_ORDER", F, r"let msg_size = stream\.read_u64\(\)\.await\?;\s*if msg_size > MAX_JSON_MESSAGE_SIZE \{\s*return Err\(", "count"),
    ("FRAMING_RESIZE_READ", F, r"buffer\.resize\(msg_size, 0\);\s*stream\.read_exact\(buffer\)\.await\?;\s*serde_json::from_slice\(buffer\)", "count"),
    ("FRAMING_UNWRAP_SITES", F, r"serde_json::to_vec\(value\)\.unwrap\(\)", "count"),
]
