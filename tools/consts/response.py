"""constants of the NTP server response path (packet/mod.rs, packet/extension_fields.rs, packet/v5, keyset.rs,
ntpd daemon/server.rs) -> coq/Gen/ConstResponse.v   (builder P2b: C16-C19)"""
NAME = "ConstResponse"
EF = "ntp-proto/src/packet/extension_fields.rs"
PK = "ntp-proto/src/packet/mod.rs"
V5 = "ntp-proto/src/packet/v5/mod.rs"
KS = "ntp-proto/src/keyset.rs"
DS = "ntpd/src/daemon/server.rs"
SV = "ntp-proto/src/server.rs"
TABLE = [
    # extension field type ids (to_type_id)
    ("EF_UNIQUE_IDENTIFIER", EF, r"ExtensionFieldTypeId::UniqueIdentifier => (0x[0-9A-Fa-f]+),", "int"),
    ("EF_NTS_COOKIE", EF, r"ExtensionFieldTypeId::NtsCookie => (0x[0-9A-Fa-f]+),", "int"),
    ("EF_NTS_PLACEHOLDER", EF, r"ExtensionFieldTypeId::NtsCookiePlaceholder => (0x[0-9A-Fa-f]+),", "int"),
    ("EF_NTS_ENCRYPTED", EF, r"ExtensionFieldTypeId::NtsEncryptedField => (0x[0-9A-Fa-f]+),", "int"),
    ("EF_DRAFT_ID", EF, r"ExtensionFieldTypeId::DraftIdentification => (0x[0-9A-Fa-f]+),", "int"),
    ("EF_PADDING", EF, r"ExtensionFieldTypeId::Padding => (0x[0-9A-Fa-f]+),", "int"),
    ("EF_REFID_REQUEST", EF, r"ExtensionFieldTypeId::ReferenceIdRequest => (0x[0-9A-Fa-f]+),", "int"),
    ("EF_REFID_RESPONSE", EF, r"ExtensionFieldTypeId::ReferenceIdResponse => (0x[0-9A-Fa-f]+),", "int"),
    ("EF_HEADER_LENGTH", EF, r"const HEADER_LENGTH: usize = (\d+);", "int"),
    # minimum sizes used when (re-)encoding
    ("MIN_UNTRUSTED_V4_LAST", EF, r"ExtensionHeaderVersion::V4 if is_last => (\d+),", "int"),
    ("MIN_UNTRUSTED_V4", EF, r"ExtensionHeaderVersion::V4 => (\d+),\s*ExtensionHeaderVersion::V5 => \d+,\s*\};\s*field\.serialize", "int"),
    ("MIN_UNTRUSTED_V5", EF, r"ExtensionHeaderVersion::V4 => \d+,\s*ExtensionHeaderVersion::V5 => (\d+),\s*\};\s*field\.serialize", "int"),
    ("MIN_AUTHENTICATED", EF, r"let minimum_size = (\d+);\s*for field in &self\.authenticated", "int"),
    ("MIN_ENCRYPTED", EF, r"let minimum_size = (\d+);\s*field\.serialize\(&mut \*w, minimum_size, version\)\?;\s*\}\s*let plaintext_length", "int"),
    ("MIN_V5_PADDING", PK, r"ExtensionField::Padding\(desired_size - written\)\.serialize\(\s*w,\s*(\d+),\s*ExtensionHeaderVersion::V5,", "int"),
    # ExtensionFieldData::serialize writes the NTS authenticator exactly when there are authenticated or encrypted fields
    ("SER_AUTH_IF_FIELDS", EF, r"if !self\.authenticated\.is_empty\(\) \|\| !self\.encrypted\.is_empty\(\) \{\s*let Some\(cipher\) = cipher\.get\(&self\.authenticated\) else", "count"),
    # which shape nts_timestamp_response has in the tree: take(MAX_COOKIES) before the filter_map (fields looked at)
    # or after it (cookies handed out)
    ("TAKE_BEFORE_FILTER_SITES", PK, r"\.chain\(input\.efdata\.encrypted\.iter\(\)\)\s*\.take\(MAX_COOKIES\)\s*\.filter_map", "count"),
    ("TAKE_AFTER_FILTER_SITES", PK, r"_ => None,\s*\}\)\s*(?://[^\n]*\s*)*\.take\(MAX_COOKIES\)\s*\.collect\(\)", "count"),
    # cookies
    ("RESP_MAX_COOKIES", "ntp-proto/src/cookiestash.rs", r"pub const MAX_COOKIES: usize = (\d+);", "int"),
    ("TAKE_MAX_COOKIES_SITES", PK, r"\.take\(MAX_COOKIES\)", "count"),
    ("COOKIE_GUARD_SITES", PK, r"if new_cookie\.len\(\) > (?:\*cookie_length as usize|old_cookie\.len\(\)) \{\s*None\s*\} else \{\s*Some\(ExtensionField::NtsCookie\(Cow::Owned\(new_cookie\)\)\)", "count"),
    ("COOKIE_OVERHEAD", KS, r"output\.resize\(output\.len\(\) \+ ([0-9+ ]+), 0\);", "text"),
    ("COOKIE_KEYWIDTH_256", KS, r"AeadAlgorithm::AeadAesSivCmac256 => \{\s*const KEY_WIDTH: usize = (\d+);", "int"),
    ("COOKIE_KEYWIDTH_512", KS, r"AeadAlgorithm::AeadAesSivCmac512 => \{\s*const KEY_WIDTH: usize = (\d+);", "int"),
    ("AEAD_ID_256", "ntp-proto/src/nts/mod.rs", r"AeadAlgorithm::AeadAesSivCmac256 => (\d+),", "int"),
    ("AEAD_ID_512", "ntp-proto/src/nts/mod.rs", r"AeadAlgorithm::AeadAesSivCmac512 => (\d+),", "int"),
    ("NONCE_LEN_256", "ntp-proto/src/packet/crypto.rs", r"impl Cipher for AesSivCmac256 \{.*?let nonce: \[u8; (\d+)\] = rand::thread_rng\(\)", "int"),
    ("NONCE_LEN_512", "ntp-proto/src/packet/crypto.rs", r"impl Cipher for AesSivCmac512 \{.*?let nonce: \[u8; (\d+)\] = rand::thread_rng\(\)", "int"),
    # headers, kiss codes, v5 constants
    ("HEADER_V4_LENGTH", PK, r"impl NtpHeaderV3V4 \{\s*const WIRE_LENGTH: usize = (\d+);", "int"),
    ("HEADER_V5_LENGTH", V5, r"const WIRE_LENGTH: usize = (\d+);", "int"),
    ("DRAFT_VERSION", V5, r'pub\(crate\) const DRAFT_VERSION: &str = "([^"]+)";', "text"),
    ("UPGRADE_TIMESTAMP", V5, r'pub\(crate\) const UPGRADE_TIMESTAMP: NtpTimestamp = NtpTimestamp::from_bits\(\*b"([^"]+)"\);', "text"),
    ("KISS_DENY", "ntp-proto/src/identifiers.rs", r'pub const KISS_DENY: ReferenceId = ReferenceId\(u32::from_be_bytes\(\*b"([^"]+)"\)\);', "text"),
    ("KISS_RATE", "ntp-proto/src/identifiers.rs", r'pub const KISS_RATE: ReferenceId = ReferenceId\(u32::from_be_bytes\(\*b"([^"]+)"\)\);', "text"),
    ("KISS_NTSN", "ntp-proto/src/identifiers.rs", r'pub const KISS_NTSN: ReferenceId = ReferenceId\(u32::from_be_bytes\(\*b"([^"]+)"\)\);', "text"),
    ("POLL_NEVER", "ntp-proto/src/time_types.rs", r"pub const NEVER: PollInterval = PollInterval\((i8::MAX)\);", "text"),
    ("REF_TS_TRUNCATE_BITS", PK, r"reference_timestamp: recv_timestamp\.truncated_second_bits\((\d+)\),", "int"),
    ("BLOOM_BYTES", "ntp-proto/src/packet/v5/server_reference_id.rs", r"const BYTES: usize = (\d+);", "int"),
    ("MAC_MAXIMUM_SIZE", "ntp-proto/src/packet/mac.rs", r"pub\(super\) const MAXIMUM_SIZE: usize = (\d+);", "int"),
    # the daemon: how the server task calls handle (C16_daemon)
    ("DAEMON_MAX_PACKET_SIZE", DS, r"const MAX_PACKET_SIZE: usize = (\d+);", "int"),
    ("DAEMON_HANDLE_ARGS", DS, r"match self\.server\.handle\(\s*(source_addr\.ip\(\),\s*convert_net_timestamp\(timestamp\),\s*[^;{]*?)\)\s*\{", "text"),
    ("DAEMON_LENGTH_BINDING", DS, r"Ok\(RecvResult \{\s*(bytes_read: length),", "text"),
    ("DAEMON_RECV_CALL", DS, r"let mut buf = \[0_u8; MAX_PACKET_SIZE\];\s*tokio::select! \{\s*recv_res = (socket\.recv\(&mut buf\)) =>", "text"),
    ("DAEMON_SEND_BUF_DECL", DS, r"(let mut send_buf = \[0u8; MAX_PACKET_SIZE\];)\s*match self\.server\.handle\(", "text"),
    ("DAEMON_HANDLE_CALLS", DS, r"\.handle\(", "count"),
    ("DAEMON_SEND_CALLS", DS, r"send_from_to\(|\.send\(|send_to\(", "count"),
    ("DAEMON_SEND_ARG", DS, r"ntp_proto::ServerAction::Respond \{ message \} => \{\s*if let Err\(send_err\) =\s*socket\.(send_from_to\(message, local_addr, source_addr\))", "text"),
    # Server::handle: the cursor over the caller's buffer and the slice it returns
    ("HANDLE_CURSOR", SV, r"let mut cursor = (Cursor::new\(buffer\));\s*match packet\.serialize\(&mut cursor, &cipher\.as_deref\(\), desired_size\)", "text"),
    ("HANDLE_RESULT_SLICE", SV, r"let length = cursor\.position\(\);\s*ServerAction::Respond \{\s*message: (&cursor\.into_inner\(\)\[\.\.length as _\]),", "text"),
    ("HANDLE_DESIRED_SIZE_SITES", SV, r"Some\(message\.len\(\)\),", "count"),
]
