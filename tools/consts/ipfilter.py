"""constants of ntp-proto/src/ipfilter.rs and IpSubnet::from_str (server.rs) -> coq/Gen/ConstIpFilter.v"""
NAME = "ConstIpFilter"
TABLE = [
    ("TOP_SHIFT", "ntp-proto/src/ipfilter.rs", r"const fn top_nibble\(v: u128\) -> u8 \{\s*\(\(v >> (\d+)\) & 0xF\) as u8", "int"),
    ("NIBBLE_BITS", "ntp-proto/src/ipfilter.rs", r"Some\(\(_, len\)\) if len <= (\d+) =>", "int"),
    ("V4_SHIFT", "ntp-proto/src/ipfilter.rs", r"\.lookup\(\(u32::from_be_bytes\(addr\.octets\(\)\) as u128\) << (\d+)\)", "int"),
    ("V4_SHIFT_NEW", "ntp-proto/src/ipfilter.rs", r"ipv4list\.push\(\(\s*\(u32::from_be_bytes\(addr\.octets\(\)\) as u128\) << (\d+),", "int"),
    ("MAPPED_PREFIX", "ntp-proto/src/server.rs", r"let mask = mask\.checked_sub\((\d+)\)\.ok_or\(SubnetParseError::MaskV4Range\)\?;", "int"),
    ("MAX_MASK_V4", "ntp-proto/src/server.rs", r"let max_mask = match addr \{\s*IpAddr::V4\(_\) => (\d+),", "int"),
    ("MAX_MASK_V6", "ntp-proto/src/server.rs", r"let max_mask = match addr \{\s*IpAddr::V4\(_\) => \d+,\s*IpAddr::V6\(_\) => (\d+),", "int"),
    # census of the panic sites of the modelled functions
    ("IPFILTER_INDEX_SITES", "ntp-proto/src/ipfilter.rs", r"self\.nodes\[", "count"),
    ("IPFILTER_SPLIT_SITES", "ntp-proto/src/ipfilter.rs", r"split_at_mut\(", "count"),
]
