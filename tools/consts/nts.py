"""constants of ntp-proto/src/nts/{record,messages,mod}.rs -> coq/Gen/ConstNts.v
(record type numbers of the parser dispatch and of record_type(), the critical bit,
the message size cap, the number of cookies, protocol / algorithm / error ids, and a
census of the indexing panic sites of Request::parse)"""
NAME = "ConstNts"
R = "ntp-proto/src/nts/record.rs"
M = "ntp-proto/src/nts/messages.rs"
N = "ntp-proto/src/nts/mod.rs"
TABLE = [
    ("MAX_MESSAGE_SIZE", M, r"const MAX_MESSAGE_SIZE: u64 = (\d+);", "int"),
    ("TAKE_MAX_COUNT", M, r"(reader\.take\(MAX_MESSAGE_SIZE\))", "count"),
    ("DEFAULT_NUMBER_OF_COOKIES", N, r"const DEFAULT_NUMBER_OF_COOKIES: usize = (\d+);", "int"),
    # parser dispatch (record.rs parse)
    ("RT_END_OF_MESSAGE", R, r"(\d+) => Self::parse_end_of_message\(body\)", "int"),
    ("RT_NEXT_PROTOCOL", R, r"(\d+) => Self::parse_next_protocol\(body\)", "int"),
    ("RT_ERROR", R, r"(\d+) => Self::parse_error\(body\)", "int"),
    ("RT_WARNING", R, r"(\d+) => Self::parse_warning\(body\)", "int"),
    ("RT_AEAD_ALGORITHM", R, r"(\d+) => Self::parse_aead_algorithm\(body\)", "int"),
    ("RT_NEW_COOKIE", R, r"(\d+) => Self::parse_new_cookie\(body\)", "int"),
    ("RT_SERVER", R, r"(\d+) => Self::parse_server\(body\)", "int"),
    ("RT_PORT", R, r"(\d+) => Self::parse_port\(body\)", "int"),
    ("RT_KEEP_ALIVE", R, r"(\d+) => Self::parse_keep_alive\(body\)", "int"),
    ("RT_SUPPORTED_NEXT_PROTOCOL_LIST", R, r"(\d+) => Self::parse_supported_next_protocol_list\(body\)", "int"),
    ("RT_SUPPORTED_ALGORITHM_LIST", R, r"(\d+) => Self::parse_supported_algorithm_list\(body\)", "int"),
    ("RT_FIXED_KEY_REQUEST", R, r"(\d+) => Self::parse_fixed_key_request\(body\)", "int"),
    ("RT_NTP_SERVER_DENY", R, r"(\d+) => Self::parse_ntp_server_deny\(body\)", "int"),
    ("RT_AUTHENTICATION", R, r"(\d+) => Self::parse_authentication\(body\)", "int"),
    ("PARSE_DISPATCH_ARMS", R, r"(\d+ => Self::parse_\w+\(body\)\.await,)", "count"),
    ("CRITICAL_MASK", R, r"let critical = \(record_type & (0x[0-9A-Fa-f]+)\) != 0;", "int"),
    ("TYPE_MASK", R, r"let record_type = record_type & (0x[0-9A-Fa-f]+);", "int"),
    # serializer (record.rs record_type): the number and whether the critical bit is or-ed in
    ("CRITICAL_BIT", R, r"const CRITICAL_BIT: u16 = (0x[0-9A-Fa-f]+);", "int"),
    ("ST_END_OF_MESSAGE", R, r"NtsRecord::EndOfMessage => (\d+) \| CRITICAL_BIT,", "int"),
    ("ST_NEXT_PROTOCOL", R, r"NtsRecord::NextProtocol \{ \.\. \} => (\d+) \| CRITICAL_BIT,", "int"),
    ("ST_ERROR", R, r"NtsRecord::Error \{ \.\. \} => (\d+) \| CRITICAL_BIT,", "int"),
    ("ST_WARNING", R, r"NtsRecord::Warning \{ \.\. \} => (\d+) \| CRITICAL_BIT,", "int"),
    ("ST_AEAD_ALGORITHM", R, r"NtsRecord::AeadAlgorithm \{ \.\. \} => (\d+) \| CRITICAL_BIT,", "int"),
    ("ST_NEW_COOKIE", R, r"NtsRecord::NewCookie \{ \.\. \} => (\d+),", "int"),
    ("ST_SERVER", R, r"NtsRecord::Server \{ \.\. \} => (\d+) \| CRITICAL_BIT,", "int"),
    ("ST_PORT", R, r"NtsRecord::Port \{ \.\. \} => (\d+) \| CRITICAL_BIT,", "int"),
    ("ST_KEEP_ALIVE", R, r"NtsRecord::KeepAlive => (\d+),", "int"),
    ("ST_SUPPORTED_NEXT_PROTOCOL_LIST", R, r"NtsRecord::SupportedNextProtocolList \{ \.\. \} => (\d+) \| CRITICAL_BIT,", "int"),
    ("ST_SUPPORTED_ALGORITHM_LIST", R, r"NtsRecord::SupportedAlgorithmList \{ \.\. \} => (\d+) \| CRITICAL_BIT,", "int"),
    ("ST_FIXED_KEY_REQUEST", R, r"NtsRecord::FixedKeyRequest \{ \.\. \} => (\d+) \| CRITICAL_BIT,", "int"),
    ("ST_NTP_SERVER_DENY", R, r"NtsRecord::NtpServerDeny \{ \.\. \} => (\d+),", "int"),
    ("ST_AUTHENTICATION", R, r"NtsRecord::Authentication \{ \.\. \} => (\d+),", "int"),
    # ids (mod.rs)
    ("PROTO_NTPV4", N, r"(\d+) => Self::NTPv4,", "int"),
    ("PROTO_DRAFT_NTPV5", N, r"(0x[0-9A-Fa-f]+) => Self::DraftNTPv5,", "int"),
    ("AEAD_AES_SIV_CMAC_256", N, r"(\d+) => Self::AeadAesSivCmac256,", "int"),
    ("AEAD_AES_SIV_CMAC_512", N, r"(\d+) => Self::AeadAesSivCmac512,", "int"),
    ("ERR_UNRECOGNIZED_CRITICAL_RECORD", N, r"(\d+) => Self::UnrecognizedCriticalRecord,", "int"),
    ("ERR_BAD_REQUEST", N, r"(\d+) => Self::BadRequest,", "int"),
    ("ERR_INTERNAL_SERVER_ERROR", N, r"(\d+) => Self::InternalServerError,", "int"),
    ("NTP_DEFAULT_PORT", "ntp-proto/src/lib.rs", r"const NTP_DEFAULT_PORT: u16 = (\d+);", "int"),
    # server decisions (mod.rs): the two token tests of handle_connection, the find() of the negotiation
    ("TOKEN_TESTS", N, r"(\.pool_authentication_tokens\s*\.iter\(\)\s*\.any\(\|v\| v == authentication\.as_ref\(\)\))", "count"),
    ("PROTOCOL_FIND", N, r"(protocols\s*\.iter\(\)\s*\.find\(\|v\| self\.protocols\.contains\(v\)\))", "count"),
    ("ALGORITHM_FIND", N, r"(algorithms\s*\.iter\(\)\s*\.find\(\|v\| !matches!\(v, AeadAlgorithm::Unknown\(_\)\)\))", "count"),
    # panic-site census of Request::parse / KeyExchangeResponse::parse: the guarded `[0]` indexings
    ("MSG_INDEX0_SITES", M, r"((?:algorithms|protocols)\[0\])", "count"),
    ("MSG_LEN_GUARD", M, r"(if protocols\.len\(\) != 1 \|\| algorithms\.len\(\) != 1 \{\s*return Err\(NtsError::Invalid\);)", "count"),
]
