"""constants of ntp-proto/src/config.rs (step thresholds) -> coq/Gen/ConstConfigNum.v  (C39)"""
NAME = "ConstConfigNum"
F = "ntp-proto/src/config.rs"
_NOT_NEXT = r"(?:(?!fn visit_i64).)*?"
_TEST = r"(if v\.is_nan\(\) \|\| v\.is_infinite\(\) \|\| v < 0\.0) \{\s*return Err"
TABLE = [
    # the finite-and-non-negative test must open visit_f64 of BOTH visitors (a lost pattern = broken tie)
    ("CFG_PART_TEST", F, r"impl Visitor<'_> for ThresholdPartVisitor \{" + _NOT_NEXT + r"fn visit_f64<E>\(self, v: f64\)" + _NOT_NEXT + _TEST, "text"),
    ("CFG_SINGLE_TEST", F, r"impl<'de> Visitor<'de> for StepThresholdVisitor \{" + _NOT_NEXT + r"fn visit_f64<E>\(self, v: f64\)" + _NOT_NEXT + _TEST, "text"),
    ("CFG_FROM_SECONDS_CALLS", F, r"NtpDuration::from_seconds\(", "count"),
    ("CFG_VISIT_F64", F, r"fn visit_f64<E>", "count"),
    ("CFG_DEFAULT_SINGLE_STEP_SECS", F, r"fn default_single_step_panic_threshold\(\) -> StepThreshold \{\s*let raw = NtpDuration::from_seconds\((\d+)\.\);", "int"),
    ("CFG_DEFAULT_STARTUP_BACKWARD_SECS", F, r"backward: Some\(NtpDuration::from_seconds\((\d+)\.\)\),", "int"),
    # the duration deserializer's own test (time_types.rs)
    ("DURATION_NAN_INF_TEST", "ntp-proto/src/time_types.rs", r"let seconds: f64 = Deserialize::deserialize\(deserializer\)\?;\s*(if seconds\.is_nan\(\) \|\| seconds\.is_infinite\(\)) \{\s*return Err", "text"),
]
