"""constants of ntpd/src/daemon/sock_source.rs -> coq/Gen/ConstSock.v  (C40)"""
NAME = "ConstSock"
F = "ntpd/src/daemon/sock_source.rs"
TABLE = [
    ("SOCK_MAGIC", F, r"const SOCK_MAGIC: i32 = (0x[0-9a-fA-F_]+);", "int"),
    ("SOCK_SAMPLE_SIZE", F, r"const SOCK_SAMPLE_SIZE: usize = (\d+);", "int"),
    # the receive buffer is larger than a sample by this many bytes
    ("SOCK_RECV_EXTRA", F, r"const SOCK_RECV_BUFFER_SIZE: usize = SOCK_SAMPLE_SIZE \+ (\d+);", "int"),
    ("SOCK_OFFSET_LO", F, r"offset: f64::from_le_bytes\(buf\[(\d+)\.\.\d+\]", "int"),
    ("SOCK_OFFSET_HI", F, r"offset: f64::from_le_bytes\(buf\[\d+\.\.(\d+)\]", "int"),
    ("SOCK_PULSE_LO", F, r"pulse: i32::from_le_bytes\(buf\[(\d+)\.\.\d+\]", "int"),
    ("SOCK_PULSE_HI", F, r"pulse: i32::from_le_bytes\(buf\[\d+\.\.(\d+)\]", "int"),
    ("SOCK_LEAP_LO", F, r"leap: i32::from_le_bytes\(buf\[(\d+)\.\.\d+\]", "int"),
    ("SOCK_LEAP_HI", F, r"leap: i32::from_le_bytes\(buf\[\d+\.\.(\d+)\]", "int"),
    ("SOCK_MAGIC_LO", F, r"magic: i32::from_le_bytes\(buf\[(\d+)\.\.\d+\]", "int"),
    ("SOCK_MAGIC_HI", F, r"magic: i32::from_le_bytes\(buf\[\d+\.\.(\d+)\]", "int"),
    # census: rejecting exits of the sample path, and buffers handed to recv
    ("SOCK_ERR_RETURNS", F, r"return Err\(SampleError::", "count"),
    ("SOCK_RECV_CALLS", F, r"\.recv\(&mut buf\)", "count"),
    ("SOCK_RECV_BUF_DECL", F, r"let mut buf = \[0; SOCK_RECV_BUFFER_SIZE\];", "count"),
]
