"""constants of statime-csptp and of the statime-wire TLV table -> coq/Gen/ConstCsptp.v (properties C41, C44, C45)"""
NAME = "ConstCsptp"
TABLE = [
    ("MAX_MESSAGE_SIZE", "statime-csptp/src/messages.rs", r"pub\(crate\) const MAX_MESSAGE_SIZE: usize = (\d+);", "int"),
    ("RESPONSE_TLV_BUFFER", "statime-csptp/src/server.rs", r"let mut response_buf = \[0u8; (\d+)\];", "int"),
    ("REQUEST_TLV_BUFFER", "statime-csptp/src/source.rs", r"let mut request_buffer = \[0u8; (\d+)\];", "int"),
    ("CSPTP_SDO_ID", "statime-csptp/src/messages.rs", r"fn csptp_header.*?sdo_id: SdoId::try_from\((0x[0-9a-fA-F]+)\)", "int"),
    ("CSPTP_SDO_ID_CHECK", "statime-csptp/src/messages.rs", r"message\.header\.sdo_id != SdoId::try_from\((0x[0-9a-fA-F]+)\)", "int"),
    ("CSPTP_VERSION_MAJOR", "statime-csptp/src/messages.rs", r"version: PtpVersion::new\((\d+), \d+\)", "int"),
    ("CSPTP_VERSION_MINOR", "statime-csptp/src/messages.rs", r"version: PtpVersion::new\(\d+, (\d+)\)", "int"),
    ("CSPTP_VERSION_CHECK", "statime-csptp/src/messages.rs", r"message\.header\.version\.major\(\) != (\d+)", "int"),
    ("CSPTP_LOG_INTERVAL", "statime-csptp/src/messages.rs", r"log_message_interval: (0x[0-9a-fA-F]+),", "int"),
    ("TLV_CSPTP_STATUS", "statime-wire/src/common/tlv.rs", r"Self::CsptpStatus => (0x[0-9a-fA-F]+),", "int"),
    ("TLV_CSPTP_REQUEST", "statime-wire/src/common/tlv.rs", r"Self::CsptpRequest => (0x[0-9a-fA-F]+),", "int"),
    ("TLV_CSPTP_RESPONSE", "statime-wire/src/common/tlv.rs", r"Self::CsptpResponse => (0x[0-9a-fA-F]+),", "int"),
    ("HEADER_SIZE", "statime-wire/src/messages/header.rs", r"pub\(crate\) fn wire_size\(&self\) -> usize \{\s*(\d+)\s*\}", "int"),
    ("NANOS_LIMIT", "statime-wire/src/common/timestamp.rs", r"if nanos > ([\d_]+) \{", "int"),
    ("UTC_OFFSET", "statime-csptp/src/source.rs", r"const UTC_OFFSET: u32 = (\d+);", "int"),
    ("EPOCH_YEARS", "statime-csptp/src/source.rs", r"const EPOCH_OFFSET: u32 = \((\d+) \* 365 \+ \d+\) \* 86400;", "int"),
    ("EPOCH_LEAP_DAYS", "statime-csptp/src/source.rs", r"const EPOCH_OFFSET: u32 = \(\d+ \* 365 \+ (\d+)\) \* 86400;", "int"),
    # panic-site census of the modelled files (a new unwrap/expect/panic!/assert! changes a count)
    # (the expect that ends add_correction on the unrepaired tree is the C44 defect itself and is found by the
    #  correspondence; it is left out so that the generated file is the same for /repo and the repaired tree)
    ("PANIC_SITES_SOURCE", "statime-csptp/src/source.rs",
     r"\.unwrap\(\)|\.expect\(\s*\"(?!Calculated nanoseconds)|panic!|unreachable!|\bassert(?:_eq|_ne)?!", "count"),
    ("PANIC_SITES_SERVER", "statime-csptp/src/server.rs", r"\.unwrap\(\)|\.expect\(|panic!|unreachable!|\bassert(?:_eq|_ne)?!", "count"),
    ("PANIC_SITES_TLV", "statime-wire/src/common/tlv.rs", r"\.unwrap\(\)|\.expect\(|panic!|unreachable!", "count"),
    ("PANIC_SITES_MESSAGES_MOD", "statime-wire/src/messages/mod.rs", r"\.unwrap\(\)|\.expect\(|panic!|unreachable!|\bassert(?:_eq|_ne)?!", "count"),
]
