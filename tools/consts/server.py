"""panic-site / call-site census of the NTP server handler -> coq/Gen/ConstServer.v  (builder P2a: C15 C20 C21 C22)"""
NAME = "ConstServer"
# everything in ntp-proto/src/server.rs is counted up to the test module only
_BEFORE_TESTS = r"(?=.*\n#\[cfg\(test\)\]\n#\[expect\()"
TABLE = [
    ("SRV_UNREACHABLE", "ntp-proto/src/server.rs", r"unreachable!\(" + _BEFORE_TESTS, "count"),
    ("SRV_UNWRAP", "ntp-proto/src/server.rs", r"\.unwrap\(\)" + _BEFORE_TESTS, "count"),
    ("SRV_EXPECT", "ntp-proto/src/server.rs", r"\.expect\(" + _BEFORE_TESTS, "count"),
    ("SRV_PANIC_ASSERT", "ntp-proto/src/server.rs", r"\b(?:panic|assert|assert_eq|assert_ne|todo|unimplemented)!\(" + _BEFORE_TESTS, "count"),
    ("SRV_CACHE_INDEXING", "ntp-proto/src/server.rs", r"self\.elements\[" + _BEFORE_TESTS, "count"),
    ("SRV_SLICE_TO_LENGTH", "ntp-proto/src/server.rs", r"cursor\.into_inner\(\)\[\.\.length as _\]" + _BEFORE_TESTS, "count"),
    ("SRV_MODULO", "ntp-proto/src/server.rs", r"as usize % self\.elements\.len\(\)" + _BEFORE_TESTS, "count"),
    ("SRV_REGISTER_CALLS", "ntp-proto/src/server.rs", r"stats_handler\s*\.register\(" + _BEFORE_TESTS, "count"),
    # of which in `handle` itself (success and serialisation failure); the others are one per early exit of handle_inner
    ("SRV_HANDLE_REGISTER_CALLS", "ntp-proto/src/server.rs", r"stats_handler\s*\.register\((?=.*\n    fn handle_inner<)", "count"),
    ("SRV_INTENDED_ACTION_CALLS", "ntp-proto/src/server.rs", r"self\.intended_action\(" + _BEFORE_TESTS, "count"),
    ("SRV_IS_ALLOWED_CALLS", "ntp-proto/src/server.rs", r"\.is_allowed\(" + _BEFORE_TESTS, "count"),
    ("PKT_NTS_V3_UNREACHABLE", "ntp-proto/src/packet/mod.rs", r"unreachable!\(\"NTS shouldn't work with NTPv3\"\)", "count"),
    ("PKT_CLOCK_EXPECT", "ntp-proto/src/packet/mod.rs", r"clock\.now\(\)\.expect\(\"Failed to read time\"\)", "count"),
    ("PKT5_CLOCK_EXPECT", "ntp-proto/src/packet/v5/mod.rs", r"clock\.now\(\)\.expect\(\"Failed to read time\"\)", "count"),
    ("DUR_NONNEG_ASSERT", "ntp-proto/src/time_types.rs", r"assert!\(self\.duration >= 0\);", "count"),
    ("KEYSET_PRIMARY_INDEX", "ntp-proto/src/keyset.rs", r"self\.keys\[self\.primary as usize\]", "count"),
    ("DAEMON_MAX_PACKET_SIZE", "ntpd/src/daemon/server.rs", r"const MAX_PACKET_SIZE: usize = (\d+);", "int"),
    ("DAEMON_STATS_COUNTERS", "ntpd/src/daemon/server.rs", r"pub \w+: Counter,", "count"),
    ("DAEMON_HANDLE_CALLS", "ntpd/src/daemon/server.rs", r"self\.server\.handle\(", "count"),
]
