"""constants of ntp-proto/src/source.rs and cookiestash.rs -> coq/Gen/ConstSource.v"""
NAME = "ConstSource"
# (coq name, file, regex with one group, kind)   kind: int
TABLE = [
    ("MAX_COOKIES", "ntp-proto/src/cookiestash.rs", r"pub const MAX_COOKIES: usize = (\d+);", "int"),
    ("MAX_STRATUM", "ntp-proto/src/source.rs", r"const MAX_STRATUM: u8 = (\d+);", "int"),
    ("POLL_WINDOW_SECS", "ntp-proto/src/source.rs", r"const POLL_WINDOW: std::time::Duration = std::time::Duration::from_secs\((\d+)\);", "int"),
    ("STARTUP_TRIES_THRESHOLD", "ntp-proto/src/source.rs", r"const STARTUP_TRIES_THRESHOLD: usize = (\d+);", "int"),
    ("AFTER_UPGRADE_TRIES_THRESHOLD", "ntp-proto/src/source.rs", r"const AFTER_UPGRADE_TRIES_THRESHOLD: u32 = (\d+);", "int"),
]
