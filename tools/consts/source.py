"""constants of ntp-proto/src/source.rs and cookiestash.rs -> coq/Gen/ConstSource.v"""
NAME = "ConstSource"
# (coq name, file, regex with one group, kind)   kind: int
TABLE = [
    ("MAX_COOKIES", "ntp-proto/src/cookiestash.rs", r"pub const MAX_COOKIES: usize = (\d+);", "int"),
    ("MAX_STRATUM", "ntp-proto/src/source.rs", r"const MAX_STRATUM: u8 = (\d+);", "int"),
    ("POLL_WINDOW_SECS", "ntp-proto/src/source.rs", r"const POLL_WINDOW: std::time::Duration = std::time::Duration::from_secs\((\d+)\);", "int"),
    ("STARTUP_TRIES_THRESHOLD", "ntp-proto/src/source.rs", r"const STARTUP_TRIES_THRESHOLD: usize = (\d+);", "int"),
    ("AFTER_UPGRADE_TRIES_THRESHOLD", "ntp-proto/src/source.rs", r"const AFTER_UPGRADE_TRIES_THRESHOLD: u32 = (\d+);", "int"),
    # handle_timer: buffer size and the margin kept when asking for new cookies (C13/C14)
    ("POLL_BUFFER_LEN", "ntp-proto/src/source.rs", r"buffer: \[u8; (\d+)\],", "int"),
    ("POLL_COOKIE_MARGIN", "ntp-proto/src/source.rs", r"\(\(self\.buffer\.len\(\) - (\d+)\) / \(cookie\.len\(\)\.max\(1\)\)\)\.min\(u8::MAX as usize\) as u8", "int"),
    # census of the places that touch the reach register / tries counter / deny flag (C11)
    ("N_REACH_POLL_CALLS", "ntp-proto/src/source.rs", r"\.reach\.poll\(\)", "count"),
    ("N_REACH_RECEIVED_CALLS", "ntp-proto/src/source.rs", r"\.reach\.received_packet\(\)", "count"),
    ("N_DENY_FLAG_WRITES", "ntp-proto/src/source.rs", r"self\.have_deny_rstr_response = ", "count"),
    ("N_COOKIE_STORE_CALLS", "ntp-proto/src/source.rs", r"\.cookies\.store\(", "count"),
    ("N_COOKIE_GET_CALLS", "ntp-proto/src/source.rs", r"\.cookies\.get\(\)", "count"),
    # NTPv5 Bloom filter (C34, C33)
    ("BLOOM_BYTES", "ntp-proto/src/packet/v5/server_reference_id.rs", r"pub const BYTES: usize = (\d+);", "int"),
    ("U12_MAX", "ntp-proto/src/packet/v5/server_reference_id.rs", r"pub const MAX: Self = Self\((\d+)\);", "int"),
    ("SERVER_ID_LEN", "ntp-proto/src/packet/v5/server_reference_id.rs", r"pub struct ServerId\(\[U12; (\d+)\]\);", "int"),
    ("REQUEST_MAX_END", "ntp-proto/src/packet/v5/extension_fields.rs", r"if payload_len \+ offset > (\d+) \{", "int"),
    ("REMOTE_FILTER_CHUNK", "ntp-proto/src/source.rs", r"bloom_filter: RemoteBloomFilter::new\((\d+)\)\.expect", "int"),
    ("N_BLOOM_INDEXING", "ntp-proto/src/packet/v5/server_reference_id.rs", r"self\.0\[idx\]", "count"),
    # reference ids used when advertising (C33): the four bytes between the quotes
    ("REFID_NONE_TEXT", "ntp-proto/src/identifiers.rs", r'pub const NONE: ReferenceId = ReferenceId\(u32::from_be_bytes\(\*b"([^"]*)"\)\);', "text"),
    ("REFID_PPS_TEXT", "ntp-proto/src/identifiers.rs", r'pub const PPS: ReferenceId = ReferenceId\(u32::from_be_bytes\(\*b"([^"]*)"\)\);', "text"),
    ("REFID_SOCK_TEXT", "ntp-proto/src/identifiers.rs", r'pub const SOCK: ReferenceId = ReferenceId\(u32::from_be_bytes\(\*b"([^"]*)"\)\);', "text"),
    ("REFID_CSPTP_TEXT", "ntp-proto/src/identifiers.rs", r'pub const CSPTP: ReferenceId = ReferenceId\(u32::from_be_bytes\(\*b"([^"]*)"\)\);', "text"),
    ("DEFAULT_SNAPSHOT_STRATUM", "ntp-proto/src/system.rs", r"impl Default for NtpSnapshot \{\s*fn default\(\) -> Self \{\s*Self \{\s*stratum: (\d+),", "int"),
    ("N_ACCEPT_SYNC_CALLS", "ntp-proto/src/source.rs", r"\.accept_synchronization\(", "count"),
]
