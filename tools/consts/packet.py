"""constants of the NTP packet codec (ntp-proto/src/packet/**, keyset.rs) -> coq/Gen/ConstPacket.v
Used by Model/ExtField.v and Model/Packet.v (C23, C24, C25)."""
NAME = "ConstPacket"

EF = "ntp-proto/src/packet/extension_fields.rs"
MAC = "ntp-proto/src/packet/mac.rs"
MOD = "ntp-proto/src/packet/mod.rs"
V5 = "ntp-proto/src/packet/v5/mod.rs"
V5EF = "ntp-proto/src/packet/v5/extension_fields.rs"
KS = "ntp-proto/src/keyset.rs"

# only the production part of a file: occurrences that are followed (later) by the tests module
PROD = r"(?=.*\n#\[cfg\(test\)\]\nmod tests)"

TABLE = [
    # extension field type ids (from_type_id)
    ("T_UID", EF, r"(0x[0-9A-Fa-f]+) => Self::UniqueIdentifier,", "int"),
    ("T_COOKIE", EF, r"(0x[0-9A-Fa-f]+) => Self::NtsCookie,", "int"),
    ("T_PLACEHOLDER", EF, r"(0x[0-9A-Fa-f]+) => Self::NtsCookiePlaceholder,", "int"),
    ("T_ENCRYPTED", EF, r"(0x[0-9A-Fa-f]+) => Self::NtsEncryptedField,", "int"),
    ("T_DRAFT", EF, r"(0x[0-9A-Fa-f]+) => Self::DraftIdentification,", "int"),
    ("T_PADDING", EF, r"(0x[0-9A-Fa-f]+) => Self::Padding,", "int"),
    ("T_REFREQ", EF, r"(0x[0-9A-Fa-f]+) => Self::ReferenceIdRequest,", "int"),
    ("T_REFRESP", EF, r"(0x[0-9A-Fa-f]+) => Self::ReferenceIdResponse,", "int"),
    # and the inverse table (to_type_id) must be the same numbers
    ("T_UID_to", EF, r"ExtensionFieldTypeId::UniqueIdentifier => (0x[0-9A-Fa-f]+),", "int"),
    ("T_COOKIE_to", EF, r"ExtensionFieldTypeId::NtsCookie => (0x[0-9A-Fa-f]+),", "int"),
    ("T_PLACEHOLDER_to", EF, r"ExtensionFieldTypeId::NtsCookiePlaceholder => (0x[0-9A-Fa-f]+),", "int"),
    ("T_ENCRYPTED_to", EF, r"ExtensionFieldTypeId::NtsEncryptedField => (0x[0-9A-Fa-f]+),", "int"),
    ("T_DRAFT_to", EF, r"ExtensionFieldTypeId::DraftIdentification => (0x[0-9A-Fa-f]+),", "int"),
    ("T_PADDING_to", EF, r"ExtensionFieldTypeId::Padding => (0x[0-9A-Fa-f]+),", "int"),
    ("T_REFREQ_to", EF, r"ExtensionFieldTypeId::ReferenceIdRequest => (0x[0-9A-Fa-f]+),", "int"),
    ("T_REFRESP_to", EF, r"ExtensionFieldTypeId::ReferenceIdResponse => (0x[0-9A-Fa-f]+),", "int"),
    # sizes
    ("EF_HEADER_LENGTH", EF, r"const HEADER_LENGTH: usize = (\d+);", "int"),
    ("EF_BARE_MINIMUM_SIZE", EF, r"const BARE_MINIMUM_SIZE: usize = (\d+);", "int"),
    ("EF_V4_UNENCRYPTED_MINIMUM_SIZE", EF, r"const V4_UNENCRYPTED_MINIMUM_SIZE: usize = (\d+);", "int"),
    ("EF_MIN_AUTHENTICATED", EF, r"is 16 octets\s+let minimum_size = (\d+);", "int"),
    ("EF_MIN_ENCRYPTED", EF, r"MUST be a multiple of 4 octets in length\)\s+let minimum_size = (\d+);", "int"),
    ("EF_MIN_V4_LAST", EF, r"ExtensionHeaderVersion::V4 if is_last => (\d+),", "int"),
    ("EF_MIN_V4", EF, r"ExtensionHeaderVersion::V4 => (\d+),\s+ExtensionHeaderVersion::V5 => \d+,\s+\};\s+field\.serialize", "int"),
    ("EF_MIN_V5", EF, r"ExtensionHeaderVersion::V4 => \d+,\s+ExtensionHeaderVersion::V5 => (\d+),\s+\};\s+field\.serialize", "int"),
    ("EF_CUTOFF_V5", EF, r"ExtensionHeaderVersion::V4 => Mac::MAXIMUM_SIZE,\s+ExtensionHeaderVersion::V5 => (\d+),", "int"),
    ("MAC_MAXIMUM_SIZE", MAC, r"const MAXIMUM_SIZE: usize = (\d+);", "int"),
    ("MAC_MINIMUM_SIZE", MAC, r"if data\.len\(\) < (\d+) \|\| data\.len\(\) > Self::MAXIMUM_SIZE", "int"),
    ("HDR34_WIRE_LENGTH", MOD, r"impl NtpHeaderV3V4 \{\s+const WIRE_LENGTH: usize = (\d+);", "int"),
    ("HDR5_WIRE_LENGTH", V5, r"const WIRE_LENGTH: usize = (\d+);", "int"),
    ("HDR5_VERSION", V5, r"const VERSION: u8 = (\d+);", "int"),
    ("V5_PADDING_MIN", MOD, r"ExtensionField::Padding\(desired_size - written\)\.serialize\(\s+w,\s+(\d+),", "int"),
    ("DRAFT_VERSION", V5, r'const DRAFT_VERSION: &str = "([^"]*)";', "text"),
    # cookie layout (keyset.rs decode_cookie)
    ("COOKIE_MIN_LEN_ID", KS, r"if cookie\.len\(\) < (\d+) \+ \d+ \+ \d+ \{", "int"),
    ("COOKIE_MIN_LEN_CT", KS, r"if cookie\.len\(\) < \d+ \+ (\d+) \+ \d+ \{", "int"),
    ("COOKIE_MIN_LEN_NONCE", KS, r"if cookie\.len\(\) < \d+ \+ \d+ \+ (\d+) \{", "int"),
    ("COOKIE_KEY_WIDTH_256", KS, r"AeadAlgorithm::AeadAesSivCmac256 => \{\s+const KEY_WIDTH: usize = (\d+);", "int"),
    ("COOKIE_KEY_WIDTH_512", KS, r"AeadAlgorithm::AeadAesSivCmac512 => \{\s+const KEY_WIDTH: usize = (\d+);", "int"),
    ("AEAD_ID_256", "ntp-proto/src/nts/mod.rs", r"(\d+) => Self::AeadAesSivCmac256,", "int"),
    ("AEAD_ID_512", "ntp-proto/src/nts/mod.rs", r"(\d+) => Self::AeadAesSivCmac512,", "int"),
    # census of panic-capable constructs in the production part of the modelled files: a new
    # unwrap/expect/assert/unreachable/index-range changes a number here and invalidates the cone
    ("CENSUS_EF_PANICS", EF, r"(?:\.unwrap\(\)|\.expect\(|unreachable!|(?<!debug_)assert(?:_eq|_ne)?!|panic!)" + PROD, "count"),
    ("CENSUS_EF_RANGES", EF, r"\w\[[^\]\n;]*\.\.[^\]\n;]*\]" + PROD, "count"),
    ("CENSUS_MAC_PANICS", MAC, r"(?:\.unwrap\(\)|\.expect\(|unreachable!|(?<!debug_)assert(?:_eq|_ne)?!|panic!)" + PROD, "count"),
    ("CENSUS_MAC_RANGES", MAC, r"\w\[[^\]\n;]*\.\.[^\]\n;]*\]" + PROD, "count"),
    ("CENSUS_V5EF_PANICS", V5EF, r"(?:\.unwrap\(\)|\.expect\(|unreachable!|(?<!debug_)assert(?:_eq|_ne)?!|panic!)" + PROD, "count"),
    ("CENSUS_V5_DESER_UNWRAPS", V5, r"data\[\d+\.\.\d+\]\.try_into\(\)\.unwrap\(\)", "count"),
    ("CENSUS_MOD_DESER_UNWRAPS", MOD, r"data\[\d+\.\.\d+\]\.try_into\(\)\.unwrap\(\)", "count"),
    ("CENSUS_MOD_UNREACHABLE", MOD, r"unreachable!\(\)(?=.*\n#\[cfg\(test\)\]\n#\[expect\()", "count"),
    ("CENSUS_KS_DECODE_UNWRAPS", KS, r"try_from\((?:s2c|c2s)\)\.unwrap\(\)", "count"),
]
