"""site censuses of the clock controller (ntp-proto/src/algorithm/kalman/mod.rs) and the two
NtpDuration operations its threshold logic uses -> coq/Gen/ConstController.v (C01, C02)"""
NAME = "ConstController"
_MOD = "ntp-proto/src/algorithm/kalman/mod.rs"
_TT = "ntp-proto/src/time_types.rs"
TABLE = [
    # which NtpDuration::abs / Neg the tree has: the wrapping forms of the unrepaired code
    # (`self.duration.abs()`, `-self.duration`) or anything else (the repair: saturating forms).
    # Model/Controller.v selects dabs_wrap/dabs and dneg_wrap/dneg of Model/TimeTypes.v from these counts.
    ("ABS_WRAP_SITES", _TT, r"duration:\s*self\.duration\.abs\(\)", "count"),
    ("NEG_WRAP_SITES", _TT, r"duration:\s*-\s*self\.duration\b", "count"),
    # censuses: every place where the controller touches the clock or the modelled state
    ("STEP_CLOCK_SITES", _MOD, r"\.\s*step_clock\(", "count"),
    ("SET_FREQUENCY_SITES", _MOD, r"\.\s*set_frequency\(", "count"),
    ("CHECK_OFFSET_STEER_CALLS", _MOD, r"self\.check_offset_steer\(", "count"),
    ("THRESHOLD_EXIT_SITES", _MOD, r"std::process::exit\(crate::exitcode::SOFTWARE\)", "count"),
    ("THRESHOLD_PANIC_SITES", _MOD, r"panic!\(\"Threshold exceeded\"\)", "count"),
    ("IN_STARTUP_WRITES", _MOD, r"self\.in_startup = ", "count"),
    ("ACCUMULATED_STEPS_WRITES", _MOD, r"accumulated_steps\s*(?:\+=|-=|=[^=])", "count"),
    ("FREQ_OFFSET_WRITES", _MOD, r"self\.freq_offset = ", "count"),
    ("DESIRED_FREQ_WRITES", _MOD, r"self\.desired_freq = ", "count"),
    ("STEER_OFFSET_CALLS", _MOD, r"self\.steer_offset\(", "count"),
    ("STEER_FREQUENCY_CALLS", _MOD, r"self\.steer_frequency\(", "count"),
    ("CHANGE_DESIRED_FREQUENCY_CALLS", _MOD, r"self\.change_desired_frequency\(", "count"),
]
