"""constants of ntp-proto/src/keyset.rs, nts/mod.rs (AEAD ids), ntpd nts_key_provider.rs -> coq/Gen/ConstKeyset.v
(C26, C27).  `count` entries are the panic-site / call-site census of the modelled functions: a new
unwrap/expect/index in keyset.rs before its unit tests changes a number here, which changes the
generated file and is compared by Example census_* in coq/Proofs/KeySet.v (broken proof = broken tie)."""
NAME = "ConstKeyset"
_KS = "ntp-proto/src/keyset.rs"
_NTS = "ntp-proto/src/nts/mod.rs"
_KP = "ntpd/src/daemon/nts_key_provider.rs"
_BEFORE_TESTS = r"(?=.*\n#\[cfg\(test\)\]\nmod tests \{)"
TABLE = [
    ("ALG_SIV_CMAC_256", _NTS, r"(\d+) => Self::AeadAesSivCmac256,", "int"),
    ("ALG_SIV_CMAC_512", _NTS, r"(\d+) => Self::AeadAesSivCmac512,", "int"),
    ("KEY_WIDTH_256", _KS, r"AeadAlgorithm::AeadAesSivCmac256 => \{\s*const KEY_WIDTH: usize = (\d+);", "int"),
    ("KEY_WIDTH_512", _KS, r"AeadAlgorithm::AeadAesSivCmac512 => \{\s*const KEY_WIDTH: usize = (\d+);", "int"),
    # decode_cookie: `if cookie.len() < 4 + 2 + 16`
    ("COOKIE_ID_LEN", _KS, r"if cookie\.len\(\) < (\d+) \+ \d+ \+ \d+ \{", "int"),
    ("COOKIE_LEN_LEN", _KS, r"if cookie\.len\(\) < \d+ \+ (\d+) \+ \d+ \{", "int"),
    ("COOKIE_NONCE_LEN", _KS, r"if cookie\.len\(\) < \d+ \+ \d+ \+ (\d+) \{", "int"),
    # encode_cookie: `output.resize(output.len() + 2 + 4 + 16 + 16, 0)`  (len, id, tag, nonce)
    ("ENCODE_TAG_LEN", _KS, r"output\.resize\(output\.len\(\) \+ \d+ \+ \d+ \+ (\d+) \+ \d+, 0\);", "int"),
    ("ENCODE_NONCE_LEN", _KS, r"output\.resize\(output\.len\(\) \+ \d+ \+ \d+ \+ \d+ \+ (\d+), 0\);", "int"),
    # key file: 20-byte header, 64-byte keys
    ("FILE_HEADER_LEN", _KS, r"reader\.read_exact\(&mut buf\[0\.\.(\d+)\]\)\?;\s*(?://[^\n]*\s*)?let time", "int"),
    ("FILE_KEY_LEN", _KS, r"reader\.read_exact\(&mut buf\[0\.\.(\d+)\]\)\?;\s*keys\.push", "int"),
    ("FILE_MODE_OCTAL_DIGITS", _KP, r"\.mode\(0o(\d+)\)", "int"),
    ("PROVIDER_TRUNCATE", _KP, r"\.truncate\(true\)", "count"),
    # census of panic sites in keyset.rs outside its unit tests
    ("CENSUS_UNWRAP", _KS, r"\.unwrap\(\)" + _BEFORE_TESTS, "count"),
    ("CENSUS_EXPECT", _KS, r"\.expect\(" + _BEFORE_TESTS, "count"),
    ("CENSUS_KEYS_INDEX", _KS, r"keys\s*\[" + _BEFORE_TESTS, "count"),
    ("CENSUS_OUTPUT_INDEX", _KS, r"output\[" + _BEFORE_TESTS, "count"),
    ("CENSUS_COOKIE_INDEX", _KS, r"cookie\[" + _BEFORE_TESTS, "count"),
    ("CENSUS_BUF_INDEX", _KS, r"buf\[" + _BEFORE_TESTS, "count"),
    # informational: 1 on a tree without the fix-c27 time repair (panicking `UNIX_EPOCH + duration`), 0 with it
    ("CENSUS_PLUS_TIME", _KS, r"UNIX_EPOCH\s*\+" + _BEFORE_TESTS, "count"),
    # the shipped daemon aborts on panic (so a panic while loading the key file is a crash)
    ("RELEASE_PANIC_STRATEGY", "Cargo.toml", r"\[profile\.release\][^\[]*?panic = \"(\w+)\"", "text"),
]
