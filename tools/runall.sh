#!/bin/sh
# run the quick check of the listed properties one after the other, log verdict and wall time
cd /verif || exit 1
mkdir -p .cache/runall
for p in "$@"; do
  s=$(date +%s)
  timeout 7000 ./check $p > .cache/runall/$p${VERIF_SEED:+_seed$VERIF_SEED}.log 2>&1
  rc=$?
  e=$(date +%s)
  echo "$p rc=$rc wall=$((e-s))s $(grep -E '^(OK|VIOLATION|KNOWN-FINDING)' .cache/runall/$p${VERIF_SEED:+_seed$VERIF_SEED}.log | head -3 | tr '\n' '|')" >> .cache/runall/summary${VERIF_SEED:+_seed$VERIF_SEED}.txt
done
