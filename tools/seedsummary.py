"""print one line per seedcheck result in .cache/seedlogs"""
import glob, json, os
for f in sorted(glob.glob("/verif/.cache/seedlogs/*.json")):
    p = os.path.basename(f)[:-5]
    try:
        j = json.load(open(f))
    except Exception:
        print(p, "NOT-READY/ERROR", open(f).read()[-200:].replace("\n", " "))
        continue
    cs = j.get("checks", {})
    v = "; ".join("%s: exit=%s %s" % (k, c["exit"], (c["violation_line"] or "NO-VIOLATION-LINE").replace("/verif/.cache/alt/replays/", "")) for k, c in cs.items())
    print(p, "demo", j.get("demo_without_patch"), "/", j.get("demo_with_patch"), "| suite_unchanged", j.get("suite_unchanged"), j.get("suite_failing_not_flaky"), "|", v)
