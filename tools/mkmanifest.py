"""Regenerate MANIFEST.json from the per-property modules (tools/props/cXX.py, each
with a MANIFEST dict) -- a property is claimed only if its module exists and sets
MANIFEST['claimed'] = True.   python3 -m tools.mkmanifest"""
import importlib
import json
import os
import subprocess

from tools import vplib

PENDING = {}


def main():
    props = [json.loads(l) for l in open(os.path.join(vplib.VERIF, "properties.jsonl"))]
    checks, na = [], []
    # a property is claimed only after the lead has seen its quick check exit 0 on the unchanged tree
    vf = os.path.join(vplib.VERIF, "tools", "validated.txt")
    validated = set(open(vf).read().split()) if os.path.exists(vf) else set()
    for p in props:
        pid = p["id"]
        try:
            mod = importlib.import_module("tools.props." + pid.lower())
            man = getattr(mod, "MANIFEST", None)
        except ModuleNotFoundError:
            man = None
        if man and man.get("claimed") and pid not in validated:
            man = dict(man, claimed=False, reason="check built; not yet validated by a full run on the unchanged tree in this session")
        if not man or not man.get("claimed"):
            reason = (man or {}).get("reason") or PENDING.get(pid) or \
                "no check built yet for this property (time); the technique applies, see DESIGN.md section 3 for the plan"
            na.append({"property_id": pid, "reason": reason})
            continue
        checks.append({
            "property_id": pid,
            "quick_cmd": "./check %s --tier quick" % pid,
            "thorough_cmd": "./check %s --tier thorough" % pid,
            "evidence_file": "/verif/evidence/%s.json" % pid,
            "replay_cmd_template": "./check %s --replay {path}" % pid,
            "engine": "coq-model+correspondence",
            "level_claimed": {"category": "proof", "text": man["text"], "design_ref": man.get("design_ref", "DESIGN.md 3 " + pid)},
            "level_note": man["note"],
            "technique": man.get("technique", "Coq theorems about a hand-written Gallina model; model tied to the code by a differential correspondence check evaluated with vm_compute"),
        })
    commits = subprocess.run("git -C /repo log --format=%H --grep='^verif hooks'", shell=True, capture_output=True, text=True).stdout.split()
    m = {
        "version": 1,
        "setup_cmd": "./setup.sh",
        "hooks": {
            "guard": "pendulum_project_ntpd_rs_verif",
            "enable": "RUSTC_WORKSPACE_WRAPPER=/verif/tools/wrap/verif_all (adds --cfg pendulum_project_ntpd_rs_verif --cfg verif_all to workspace members) cargo test --no-run --lib -p ntp-proto -p ntpd -p statime-wire -p statime-base -p statime-algo -p statime-csptp --offline; CARGO_TARGET_DIR=/verif/.cache/target; CARGO_PROFILE_{TEST,DEV}_{OVERFLOW_CHECKS,DEBUG_ASSERTIONS}=false give the test build the release semantics the models follow; falls back to the wrapper verif_<id> (only that property harness module) when the all-properties build fails",
            "baseline_off_cmd": "cd /repo && cargo test --workspace --no-fail-fast --offline",
            "source_commits": commits,
            "add_only": True,
        },
        "engines": [{
            "name": "coq-model+correspondence",
            "path": "/verif/check",
            "serves_properties": [c["property_id"] for c in checks],
            "kind_free_text": "Coq 8.16.1 development (coq/): hand-written executable Gallina models, property theorems in coq/Props, "
                              "Print Assumptions allow-list; Rust harness compiled inside the crates through cfg-guarded hooks; "
                              "python drivers generate cases, run them on the implementation and let coqc evaluate the model on the same cases (vm_compute)",
        }],
        "checks": checks,
        "not_applicable": na,
        "notes": "See DESIGN.md. known_findings.json lists genuine defects (open and fixed). Evidence files are rewritten by every run.",
    }
    with open(os.path.join(vplib.VERIF, "MANIFEST.json"), "w") as f:
        json.dump(m, f, indent=1)
    print("claimed:", len(checks), "not claimed:", len(na))


if __name__ == "__main__":
    main()
