"""C37: only registered, usable sources influence the clock.
Model: coq/Model/MsgLoop.v; theorems: coq/Props/C37.v; tie: the real TimeSyncControllerWrapper::run +
source wrappers + KalmanClockController (recording clock, scripted per-source filter) through
harness/ntp-proto/c37.rs."""
import json
import os
import struct

from tools import vplib

T0 = 1000 << 32
U64 = 1 << 64


def hexf(x):
    return "%016x" % struct.unpack(">Q", struct.pack(">d", x))[0]


# ------------------------------------------------------------------ cases
# a case: {"minag", "maxunc", "steer", "ops": [op]}   op = ("A",id) ("O",id) ("M"|"m",id,serial,time,upd,leap,off,var,delay)
#                                                         ("U"|"u",id,b) ("D"|"d",id) ("R",) ("T",)
# steer: 0 no steering, 1 default steering configuration, 2 default thresholds but never step (slews: the timer path)

def line_of(case):
    t = [str(case["minag"]), hexf(case["maxunc"]), str(case["steer"])]
    for op in case["ops"]:
        k = op[0]
        if k in "Mm":
            t += [k, str(op[1]), str(op[2]), str(op[3]), str(op[4]), str(op[5]), hexf(op[6]), hexf(op[7]), hexf(op[8])]
        else:
            t += [str(x) for x in op]
    return " ".join(t)


def parse_out(case, out):
    """-> (maxkey, [keys per M/m op], [drain observations]) or None.
    observation = {"calls": [...], "used": [...], "map": [(id, usable, serial, time)], "broadcasts": n,
                   "slew": 0|1, "arms": n, "steps": [(kind, consensus, next, [calls])]}"""
    try:
        if not out or out[0] == "PANIC" or "STUCK" in out:
            return None
        mk = int(out[0])
        i = 1
        keys, obs = [], []
        while i < len(out):
            if out[i] == "K":
                keys.append((int(out[i + 1]), int(out[i + 2]), int(out[i + 3])))
                i += 4
            elif out[i] == "R":
                n = int(out[i + 1])
                calls = [int(x) for x in out[i + 2:i + 2 + n]]
                i += 2 + n
                k = int(out[i])
                used = [int(x) for x in out[i + 1:i + 1 + k]]
                i += 1 + k
                j = int(out[i])
                m = []
                for q in range(j):
                    b = i + 1 + 4 * q
                    m.append((int(out[b]), int(out[b + 1]), int(out[b + 2]), int(out[b + 3])))
                i += 1 + 4 * j
                o = {"calls": calls, "used": used, "map": m, "broadcasts": int(out[i]),
                     "slew": int(out[i + 1]), "arms": int(out[i + 2]), "steps": []}
                ns = int(out[i + 3])
                i += 4
                for _q in range(ns):
                    nc = int(out[i + 3])
                    o["steps"].append((int(out[i]), int(out[i + 1]), int(out[i + 2]), [int(x) for x in out[i + 4:i + 4 + nc]]))
                    i += 4 + nc
                obs.append(o)
            else:
                return None
        return mk, keys, obs
    except (IndexError, ValueError):
        return None


def before(t, s):
    d = (t - s) % U64
    if d >= 1 << 63:
        d -= U64
    return d < 0


def monitor(case, out, map_check=True):
    """the property on one run, tracked here independently of the Coq model: the controller map after every drain is
    what each source's own operations say (registered = added and not dropped; usable = last report; snapshot = last
    measurement sent while registered, so per-source order is kept and data for removed/unknown ids is ignored), clock
    calls happen only when a measurement of a registered source was handled on a consensus (used_sources reported), or
    -- exactly one set_frequency -- when the wrapper's timer expires after such a consensus update armed it
    (next_update = Some) and it has not fired since; the sources reported as used were registered, last reported
    usable and had a snapshot when that measurement was handled."""
    p = parse_out(case, out)
    if p is None:
        return ("harness failed: %s" % " ".join(out[:6]), {"case": case})
    _mk, _keys, obs = p
    reg = {}          # id -> [serial or -1, usable]
    k = 0
    eligible_sets = []
    touched = False
    armed = False     # a consensus update returned next_update = Some and no timer expiry has been seen since
    for op in case["ops"]:
        c = op[0]
        if c in "AO":
            reg[op[1]] = [-1, 0]
        elif c in "Uu":
            if op[1] in reg:
                reg[op[1]][1] = op[2]
        elif c in "Dd":
            reg.pop(op[1], None)
        elif c in "Mm":
            if op[1] in reg:
                reg[op[1]][0] = op[2]
                touched = True
                eligible_sets.append({i for i, (s, u) in reg.items() if s >= 0 and u})
        elif c == "R":
            if k >= len(obs):
                return ("missing observation %d" % k, {"case": case})
            o = obs[k]
            k += 1
            got = {(i, u, s) for (i, u, s, _t) in o["map"]}
            want = {(i, u, s) for i, (s, u) in reg.items()}
            if map_check and got != want:
                return ("after drain %d the controller holds %s (id, usable, serial) but the sources' own operations give %s"
                        % (k, sorted(got), sorted(want)), {"case": case, "drain": k})
            if [x for st in o["steps"] for x in st[3]] != o["calls"]:
                return ("harness failed: the clock log of drain %d is not the concatenation of the per-call records" % k,
                        {"case": case, "drain": k})
            mcalls = []
            for (kind, consensus, nxt, calls) in o["steps"]:
                if kind == 0:
                    mcalls += calls
                    if calls and not consensus:
                        return ("drain %d: clock calls %s while handling a source message without a consensus "
                                "(no used_sources reported)" % (k, calls), {"case": case, "drain": k})
                    if consensus and nxt:
                        armed = True
                else:
                    if calls and not armed:
                        return ("drain %d: the timer path (time_update) made clock calls %s although no consensus update "
                                "had started a slew since the last timer expiry" % (k, calls), {"case": case, "drain": k})
                    if calls and calls != [5]:
                        return ("drain %d: the timer path (time_update) made clock calls %s, more than the one "
                                "set_frequency that ends a slew" % (k, calls), {"case": case, "drain": k})
                    armed = False
            if mcalls and not touched:
                return ("clock calls %s in drain %d without any measurement of a registered source" % (mcalls, k),
                        {"case": case, "drain": k})
            if 2 in o["calls"]:
                if not any(set(o["used"]) <= e for e in eligible_sets):
                    return ("drain %d: used sources %s are not all registered+usable+with snapshot at any measurement of the batch "
                            "(eligible sets %s)" % (k, o["used"], [sorted(e) for e in eligible_sets]), {"case": case, "drain": k})
                if not o["used"]:
                    return ("drain %d: clock updated with an empty set of used sources" % k, {"case": case, "drain": k})
            if (4 in mcalls or 5 in mcalls) and 2 not in mcalls:
                return ("drain %d: clock steered (%s) without a consensus update" % (k, mcalls), {"case": case, "drain": k})
            eligible_sets = []
            touched = False
    return None


def gen_case(rng, tier, steer=0, illformed=False, era=False, timer=False):
    nsrc = rng.randint(1, 5)
    ids = rng.sample(range(1, 40), nsrc)
    oneway = {i: rng.random() < 0.15 for i in ids}
    base = 0 if era else T0
    ncl = rng.randint(1, 2)
    centers = [rng.randint(-8, 8) / 16.0 for _ in range(ncl)]
    home = {i: rng.choice(centers) for i in ids}
    serial = [0]

    def measure(i, raw=False):
        serial[0] += 1
        s = serial[0]
        r = rng.random()
        tm = base if r < 0.86 else ((base - 1) % U64 if r < 0.93 else (base + 1) % U64)
        upd = tm if rng.random() < 0.9 else base
        leap = rng.choice([0, 0, 0, 0, 1, 2, 3, 4])
        off = home[i] + rng.randint(-3, 3) / 16.0 + s / 4096.0
        if oneway.get(i):
            # periodic source (period 1.0): progress_time wraps the offset into [-0.5, 0.5]; stay inside
            off = home[i] / 2 + rng.randint(-3, 3) / 16.0 + s / 4096.0
        sigma = rng.randint(1, 4) / 16.0
        delay = rng.randint(0, 4) / 16.0 + s / 8192.0
        return ("m" if raw else "M", i, s, tm, upd, leap, off, sigma * sigma, delay)

    scripts = {}
    for i in ids:
        sc = []
        n = rng.randint(0, 7)
        for _ in range(n):
            r = rng.random()
            if r < 0.6:
                sc.append(("M", i))
            else:
                sc.append(("U", i, 1 if rng.random() < 0.7 else 0))
        if rng.random() < 0.85 and not any(o[0] == "U" and o[2] == 1 for o in sc):
            sc.insert(rng.randint(0, len(sc)), ("U", i, 1))
        if rng.random() < 0.4:
            sc.append(("D", i))
        scripts[i] = [("O" if oneway[i] else "A", i)] + sc
    # random merge preserving each script's order
    pos = {i: 0 for i in ids}
    ops = []
    live = [i for i in ids if scripts[i]]
    dropped = []
    while live:
        i = rng.choice(live)
        o = scripts[i][pos[i]]
        pos[i] += 1
        if o[0] == "M":
            home.setdefault(i, 0.0)
            o = measure(i)
        ops.append(o)
        if o[0] == "D":
            dropped.append(i)
        if pos[i] == len(scripts[i]):
            live.remove(i)
        if illformed and rng.random() < 0.25:
            # messages written straight into the channel for ids that were dropped or never existed
            j = rng.choice(dropped) if dropped and rng.random() < 0.7 else rng.choice([77, 78])
            home.setdefault(j, rng.choice(centers))
            k = rng.random()
            if k < 0.6:
                ops.append(measure(j, raw=True))
            elif k < 0.85:
                ops.append(("u", j, 1))
            else:
                ops.append(("d", j))
    if timer:
        # timer expiries (virtual time passes) at random points, sometimes twice in a row
        full = []
        for o in ops:
            full.append(o)
            r = rng.random()
            if r < 0.25:
                full.append(("T",))
                if rng.random() < 0.2:
                    full.append(("T",))
        if rng.random() < 0.5:
            full.append(("T",))
        ops = full
    # observation points
    if rng.random() < 0.7:
        full = []
        for o in ops:
            full += [o, ("R",)]
        ops = full
    else:
        full = []
        for o in ops:
            full.append(o)
            if rng.random() < 0.25:
                full.append(("R",))
        ops = full + [("R",)]
    return {"minag": rng.choice([1, 1, 1, 2, 2, 3]), "maxunc": rng.choice([1.0, 1.0, 0.5, 3.0]), "steer": steer, "ops": ops}


def fixed_cases():
    """design targets of DESIGN.md Appendix B: drop-then-late-message, usable->unusable flips"""
    def M(i, s, off=0.0, leap=0, tm=T0, raw=False):
        return ("m" if raw else "M", i, s, tm, tm, leap, off + s / 4096.0, 1.0 / 64, 0.125 + s / 8192.0)
    R = ("R",)
    cs = []
    # two agreeing usable sources; one is dropped; its late message must be ignored
    cs.append([("A", 1), ("A", 2), ("U", 1, 1), ("U", 2, 1), M(1, 1), R, M(2, 2), R, ("D", 1), R, M(1, 3, raw=True), R, M(2, 4), R])
    # usable -> unusable flip: the snapshot stays but must not be a candidate any more
    cs.append([("A", 1), ("A", 2), ("U", 1, 1), ("U", 2, 1), M(1, 1), R, M(2, 2), R, ("U", 1, 0), R, M(2, 3), R, ("U", 1, 1), R, M(2, 4), R])
    # never reported usable
    cs.append([("A", 1), M(1, 1), R, M(1, 2), R, ("U", 1, 1), R, M(1, 3), R])
    # usability / measurement / drop of an id that never existed
    cs.append([("A", 1), ("U", 1, 1), ("u", 9, 1), M(9, 1, raw=True), R, M(1, 2), R, ("d", 9), R])
    # the agreeing partner disagrees: 1 vs 1 is no majority
    cs.append([("A", 1), ("A", 2), ("U", 1, 1), ("U", 2, 1), M(1, 1), R, M(2, 2, off=5.0), R, ("U", 2, 0), R, M(1, 3), R])
    # a snapshot dated after the update time blocks the update (early return), also when its source is unusable
    cs.append([("A", 1), ("A", 2), ("U", 1, 1), M(2, 1, tm=T0 + 1), R, M(1, 2), R, ("D", 2), R, M(1, 3), R])
    # unsynchronised source inside the consensus
    cs.append([("A", 1), ("A", 2), ("U", 1, 1), ("U", 2, 1), M(1, 1, leap=4), R, M(2, 2), R, M(1, 3), R])
    # batch: everything queued, one drain
    cs.append([("A", 1), ("A", 2), ("U", 1, 1), ("U", 2, 1), M(1, 1), M(2, 2), ("D", 1), M(2, 3), ("U", 2, 0), M(2, 4), R])
    out = []
    for ops in cs:
        for minag in (1, 2):
            out.append({"minag": minag, "maxunc": 1.0, "steer": 0, "ops": ops})
        out.append({"minag": 1, "maxunc": 1.0, "steer": 1, "ops": ops})
    return out + timer_fixed_cases()


def timer_fixed_cases():
    """the wrapper's timer path: a consensus starts a slew (steer 2: never step) and arms the sleeper; time passes"""
    def M(i, s, off=0.0, leap=0, tm=T0):
        return ("M", i, s, tm, tm, leap, off + s / 4096.0, 1.0 / 64, 0.125 + s / 8192.0)
    R, T = ("R",), ("T",)
    cs = []
    # time passes with nothing armed; a slew starts; it ends; a second expiry does nothing; the next consensus slews again
    cs.append([("A", 1), ("U", 1, 1), T, R, M(1, 1, off=0.5), R, T, R, T, R, M(1, 2, off=0.5), R, T, R])
    # measurements during the slew (frequency corrections, no new timer), then the expiry
    cs.append([("A", 1), ("A", 2), ("U", 1, 1), ("U", 2, 1), M(1, 1, off=0.5), R, M(2, 2, off=0.5), R, M(1, 3, off=0.5), R, T, R,
               M(2, 4, off=0.5), R])
    # the source that started the slew is dropped / made unusable before the timer fires: the slew still ends
    cs.append([("A", 1), ("U", 1, 1), M(1, 1, off=0.5), R, ("D", 1), R, T, R, T, R])
    cs.append([("A", 1), ("U", 1, 1), M(1, 1, off=0.5), R, ("U", 1, 0), R, M(1, 2, off=0.5), R, T, R])
    # no consensus at all (unusable / disagreeing sources): time passing must not touch the clock
    cs.append([("A", 1), M(1, 1, off=0.5), T, R, ("A", 2), ("U", 1, 1), ("U", 2, 1), M(1, 2, off=0.5), T, R, M(2, 3, off=-5.0), T, R])
    # everything queued, then time passes: the loop handles the messages first, then the expiry
    cs.append([("A", 1), ("U", 1, 1), M(1, 1, off=0.5), T, M(1, 2, off=0.5), T, R])
    # small offset: no steering wish, nothing armed
    cs.append([("A", 1), ("U", 1, 1), M(1, 1, off=0.0), R, T, R])
    out = []
    for ops in cs:
        for steer in (2, 0, 1):
            out.append({"minag": 1, "maxunc": 1.0, "steer": steer, "ops": ops})
    return out


def wish_tape(obs):
    """the outcome of the steering decision of every consensus step, read off the implementation's run:
    0 none, 1 frequency correction, 2 slew started, 3 step"""
    tape = []
    for o in obs:
        for (kind, consensus, nxt, calls) in o["steps"]:
            if kind == 0 and consensus:
                tape.append(3 if 4 in calls else (2 if nxt else (1 if 5 in calls else 0)))
    return tape


def make_coq_case(stats):
    def coq_case(case, out):
        p = parse_out(case, out)
        if p is None:
            return None
        mk, keys, obs = p
        for op in case["ops"]:
            stats["ops"][op[0]] = stats["ops"].get(op[0], 0) + 1
        stats["drains"] += len(obs)
        stats["clock_updates"] += sum(1 for o in obs if 2 in o["calls"])
        stats["steering_calls"] += sum(o["calls"].count(4) + o["calls"].count(5) for o in obs)
        stats["broadcasts"] += sum(o["broadcasts"] for o in obs)
        steps = [st for o in obs for st in o["steps"]]
        stats["timer_expiries_armed"] += sum(1 for st in steps if st[0] == 1)
        stats["slews_started"] += sum(1 for st in steps if st[0] == 0 and st[2])
        tape = wish_tape(obs)
        for w in tape:
            stats["steering_decisions"][w] = stats["steering_decisions"].get(w, 0) + 1
        if case["steer"] == 1 or 3 in tape:
            # a step rewrites offsets and filter times of the stored snapshots (not modelled): monitor only
            stats["steer_config"] += 1
            return None
        flat = [k for ks in keys for k in ks[1:]]
        if len(set(flat)) != len(flat):
            stats["skipped_interval_ties"] += 1
            return None
        stats["model_compared"] += 1
        if case["steer"] == 2:
            stats["model_compared_slew_config"] += 1
        items = []
        ki = 0
        oneway = {}
        for op in case["ops"]:
            k = op[0]
            if k in "AO":
                oneway[op[1]] = (k == "O")
                items.append("IEv (%s, None)" % vplib.zlit(op[1]))
            elif k in "Mm":
                r, lo, hi = keys[ki]
                ki += 1
                cand = "mkCand %s %s %s %s %s %s" % (vplib.zlit(op[1]), vplib.blit(oneway.get(op[1], False)),
                                                     vplib.blit(op[5] != 4), vplib.zlit(r), vplib.zlit(lo), vplib.zlit(hi))
                items.append("IEv (%s, Some (Measure (mkSnap %s %s %s %s (%s))))" % (
                    vplib.zlit(op[1]), vplib.zlit(op[2]), vplib.zlit(op[3]), vplib.zlit(op[4]), vplib.zlit(op[5]), cand))
            elif k in "Uu":
                items.append("IEv (%s, Some (SetUsable %s))" % (vplib.zlit(op[1]), vplib.blit(op[2] == 1)))
            elif k in "Dd":
                items.append("IEv (%s, Some DropSrc)" % vplib.zlit(op[1]))
            elif k == "T":
                items.append("ITime")
            else:
                items.append("IDrain")
        tape_t = vplib.coq_list([vplib.zlit(x) for x in tape]) if tape else "(@nil Z)"
        inp = "(%s, %s, %s, %s)" % (vplib.zlit(case["minag"]), vplib.zlit(mk), tape_t, vplib.coq_list(items))
        exp = []
        for o in obs:
            exp += [-1, len(o["calls"])] + o["calls"] + [len(o["used"])] + o["used"] + [len(o["map"])]
            for e in o["map"]:
                exp += list(e)
            exp += [o["slew"], o["arms"]]
        return inp, vplib.coq_list([vplib.zlit(x) for x in exp])
    return coq_case


def new_stats():
    return {"steer_config": 0, "model_compared": 0, "model_compared_slew_config": 0,
            "skipped_interval_ties": 0, "clock_updates": 0, "drains": 0,
            "ops": {}, "steering_calls": 0, "broadcasts": 0, "timer_expiries_armed": 0, "slews_started": 0,
            "steering_decisions": {}}


def main():
    c = vplib.Check("C37")
    c.run_gate()
    rng = c.rng
    cases = []
    cdir = os.path.join(vplib.VERIF, "corpus", "C37")
    ncorpus = 0
    if os.path.isdir(cdir):
        for fn in sorted(os.listdir(cdir)):
            if fn.endswith(".json"):
                for k in json.load(open(os.path.join(cdir, fn))).get("cases", []):
                    k["ops"] = [tuple(o) for o in k["ops"]]
                    cases.append(k)
                    ncorpus += 1
    fx = fixed_cases()
    cases += fx
    n = 1500 if c.tier == "quick" else 6000
    for _ in range(n):
        cases.append(gen_case(rng, c.tier))
    for _ in range(n // 3):
        cases.append(gen_case(rng, c.tier, illformed=True))
    for _ in range(n // 10):
        cases.append(gen_case(rng, c.tier, era=True, illformed=rng.random() < 0.3))
    for _ in range(n // 5):
        cases.append(gen_case(rng, c.tier, steer=1, illformed=rng.random() < 0.3, timer=rng.random() < 0.5))
    for _ in range(n // 3):
        cases.append(gen_case(rng, c.tier, steer=2, illformed=rng.random() < 0.2, timer=True))
    for _ in range(n // 10):
        cases.append(gen_case(rng, c.tier, steer=0, timer=True))

    c.cov["rule"] = ("whole schedules through the real message loop: random interleavings (order-preserving merges) of 1-5 source "
                     "tasks (measure / set usable / drop, two-way and one-way sources, add_source at a random earlier point), "
                     "observed after every operation or in batches; ill-formed schedules with messages written into the channel "
                     "for dropped or unknown ids; timestamps around the update time (stale and future-dated snapshots, era wrap); "
                     "hand-made drop-then-late-message and usable-flip schedules. Compared per drain: clock calls, used_sources, "
                     "the controller map (id, usable, snapshot serial, filter time), desired_freq != 0, number of updates that "
                     "returned next_update. Timer path: schedules with T = virtual time passes beyond any armed deadline of the "
                     "wrapper's sleeper (the real `run` then calls the real time_update iff its sleeper is enabled), under a "
                     "never-step steering configuration so that offset corrections are slews; the outcome of each steering "
                     "decision (float comparisons) is read off the run and given to the model as its oracle tape. Schedules "
                     "with the default steering config (steps rewrite the stored snapshots) are judged by the monitor only. "
                     "Non-trivial: at least two clock updates or a drop with later traffic.")
    stats = new_stats()
    stats.update({"corpus": ncorpus, "fixed": len(fx), "total": len(cases)})

    def nontrivial(case, out):
        p = parse_out(case, out)
        if p is None:
            return False
        upd = sum(1 for o in p[2] if 2 in o["calls"])
        return upd >= 2 or any(op[0] in "Dd" for op in case["ops"][:-2])

    coq_case = make_coq_case(stats)

    vplib.correspondence(
        c, "ntp-proto", cases,
        line_of=line_of,
        coq_case_of=coq_case,
        preamble="From V Require Import Model.Select Model.MsgLoop.\n",
        checker="mismatches list_eqb msgloop_code",
        monitor=monitor,
        nontrivial=nontrivial,
        shard=600 if c.tier == "thorough" else 300,
        sample_of=lambda case, out: {"harness_line": line_of(case)[:400], "implementation": " ".join(out)[:400]},
    )
    c.cov["distribution"] = stats
    c.assumptions += [
        "hand-written model coq/Model/MsgLoop.v of TimeSyncControllerWrapper::run + source wrappers + KalmanClockController "
        "(add/remove/source_update/source_message/update_clock); snapshot float state abstracted to identity + filter time + interval keys",
        "tokio's unbounded mpsc channel is FIFO and each message is handled under the controller mutex (one at a time): "
        "a schedule is the order of sends; thread interleavings inside one handler are not modelled",
        "ClockIds are never reused (global atomic counter in ClockId::new)",
        "the per-source Kalman filter is replaced in the harness by a scripted source controller; everything else is the real code",
    ]
    return c.finish()


MANIFEST = {
    "claimed": True,
    "text": "Theorems (Coq, every schedule = every interleaving of the source tasks' operations with add_source, handled in "
            "channel order; every selection/steering/vote function): what the controller holds for a source is a function of "
            "that source's own operations in their order (C37_state_is_per_source); whenever the selection is computed its "
            "candidates are exactly the latest snapshots of sources that are registered, last reported usable and have a snapshot "
            "(C37_candidates), and the reported used_sources are among them (C37_used_sources_are_candidates); a message for an "
            "unregistered id, in particular anything after the source's removal, changes nothing and emits nothing "
            "(C37_ignored_when_unregistered, C37_after_removal); in every interleaving the snapshots stored for a source are its "
            "script's measurements in production order (C37_per_source_order); timer expiries of the wrapper's loop "
            "(time_update) never change the source map, so all of this holds with timer expiries anywhere in the schedule "
            "(C37_timer_leaves_sources_alone, C37_state_is_per_source_with_timer, C37_candidates_with_timer). Tie: the real "
            "TimeSyncControllerWrapper::run (incl. its sleeper, virtual time passing), "
            "real source wrappers (incl. Drop) and real KalmanClockController with a recording clock on a current-thread tokio "
            "runtime, random interleavings incl. ill-formed ones, compared per drain: clock calls, used_sources, controller map.",
    "note": "Trusted: Coq kernel+vm_compute; hand-written model MsgLoop.v (snapshot float state abstracted to identity, filter "
            "time and interval keys; selection via Model/Select.v, vote via Model/Combine.v in the correspondence instance); tokio "
            "mpsc FIFO + controller mutex (a schedule is the order of sends); ClockIds never reused; the per-source Kalman filter "
            "is scripted in the harness; thread interleavings inside one handler are not modelled; the timer path "
            "(time_update) is modelled as an event of the loop (its only effects in the model: one set_frequency, desired_freq "
            "= 0, sleeper disabled); the float comparisons of the steering decision are oracles (read off the run in the "
            "correspondence); the rewriting of the stored snapshots' float state / filter time by steering is not modelled, so "
            "schedules with the default steering thresholds (clock steps) are judged by the monitor only. Print Assumptions: "
            "closed under the global context.",
    "design_ref": "DESIGN.md 3 C37",
}
