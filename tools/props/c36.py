"""C36: source (re)spawning is paced and follows removal reasons.
Model: coq/Model/Spawner.v; theorems: coq/Props/C36.v; tie: the real spawner_task (spawn/mod.rs)
under tokio's paused clock around (M) a scripted mock spawner and (S) the real StandardSpawner with
the repository's test resolver, through harness/ntpd/c36.rs."""
import os

from tools import vplib

WAIT_MS = 1000          # "one second" of the property statement (the model takes it from the sources)
EV_NAMES = {0: "SourceRegistered", 1: "Removed(Demobilized)", 2: "Removed(NetworkIssue)", 3: "Removed(Unreachable)", 4: "Idle"}


def line_of(case):
    t = [case["kind"], str(len(case["script"]))]
    for x in case["script"]:
        t += [str(x[0]), str(x[1])] if case["kind"] == "M" else [str(x)]
    t.append(str(len(case["evs"])))
    for a, c in case["evs"]:
        t += [str(a), str(c)]
    t.append(str(case["tc"]))
    return " ".join(t)


def parse_line(line):
    t = line.split()
    kind = t[0]
    n = int(t[1])
    p = 2
    script = []
    for _ in range(n):
        if kind == "M":
            script.append((int(t[p]), int(t[p + 1]))); p += 2
        else:
            script.append(int(t[p])); p += 1
    m = int(t[p]); p += 1
    evs = [(int(t[p + 2 * j]), int(t[p + 2 * j + 1])) for j in range(m)]; p += 2 * m
    return {"kind": kind, "script": script, "evs": evs, "tc": int(t[p])}


def parse_log(out):
    """-> list of ("T", t, f, info or None) / ("H", t, code) / ("C", t), or None"""
    try:
        v = [int(x) for x in out]
    except ValueError:
        return None
    p, log = 0, []
    try:
        while p < len(v):
            if v[p] == 1:
                k = v[p + 3]
                if k < 0:
                    log.append(("T", v[p + 1], v[p + 2], None)); p += 4
                else:
                    log.append(("T", v[p + 1], v[p + 2], v[p + 4:p + 4 + k]))
                    if len(v) < p + 4 + k:
                        return None
                    p += 4 + k
            elif v[p] == 2:
                log.append(("H", v[p + 1], v[p + 2])); p += 3
            elif v[p] == 4:
                log.append(("C", v[p + 1])); p += 2
            else:
                return None
    except IndexError:
        return None
    return log


def rot(l, k):
    return l[(len(l) - 1 - (k % len(l))) % len(l)] if l else None


def monitor(case, out):
    """the property itself on one run of the implementation (no model): pace, keeps trying while
    incomplete, and for the standard spawner: no respawn after Demobilized, re-resolution after Unreachable"""
    if out and out[0] == "PANIC":
        return ("spawner task panicked: %s" % " ".join(out[1:]), {"case": line_of(case)})
    log = parse_log([x for x in out if x != "HANG"])
    if log is None:
        return None
    std = case["kind"] == "S"
    payload = {"kind": "mock spawner" if not std else "StandardSpawner", "script": case["script"],
               "events_ms": [(a, EV_NAMES[c]) for a, c in case["evs"]], "channel_closed_ms": case["tc"],
               "log": " ".join(out)}
    tries = [e for e in log if e[0] == "T"]
    for a, b in zip(tries, tries[1:]):
        if b[1] - a[1] < WAIT_MS:
            return ("two spawn attempts %d ms apart (at %d and %d ms): %s" % (b[1] - a[1], a[1], b[1], line_of(case)), payload)
    # completeness as the spawner reports it, followed from the log
    complete = False
    due = 0                      # an attempt is due at this time while incomplete
    last_f = None
    nlook, cached = 0, None      # standard spawner: lookups made so far, address it holds
    for e in log:
        if e[0] == "T":
            if complete and std:
                return ("the standard spawner made an attempt at %d ms although its source was only demobilised or "
                        "still present: %s" % (e[1], line_of(case)), payload)
            if due is not None and e[1] > due:
                return ("incomplete spawner: an attempt was due at %d ms, made at %d ms: %s" % (due, e[1], line_of(case)), payload)
            if e[3] is None:
                return None      # try_spawn failed: the task ends
            last_f = e[2]
            if std:
                if len(e[3]) > 1:
                    return ("one attempt created %d sources: %s" % (len(e[3]), line_of(case)), payload)
                if e[3]:
                    want = cached if cached is not None else rot(case["script"], nlook)
                    if cached is None:
                        nlook += 1
                    if want is not None and e[3][0] != want:
                        return ("source spawned on address %d, expected %d (%s): %s" % (
                            e[3][0], want, "cached address" if cached is not None else "newly resolved", line_of(case)), payload)
                    cached = e[3][0]
                    complete = True
                else:
                    nlook += 1
                    complete = False
            else:
                complete = bool(e[3] and e[3][0] == 1)
            due = None if complete else last_f + WAIT_MS
        else:
            t = e[1]
            if due is not None and t > due:
                return ("incomplete spawner: an attempt was due at %d ms but the loop did something else at %d ms without "
                        "attempting: %s" % (due, t, line_of(case)), payload)
            if e[0] == "H" and e[2] in (2, 3):
                if e[2] == 3 and std:
                    cached = None
                if complete:
                    complete = False
                    due = max(t, last_f + WAIT_MS) if last_f is not None else t
    return None


# ---------------------------------------------------------------- generators
def gen_case(rng, stats, kind=None):
    kind = kind or rng.choice(["M", "M", "S"])
    grid = rng.random() < 0.6                 # times on a 250 ms grid: many events exactly at a deadline

    def tm(lo, hi):
        if grid:
            return 250 * rng.randint((lo + 249) // 250, max((lo + 249) // 250, hi // 250))
        return rng.randint(lo, hi)

    if kind == "M":
        script = []
        for _ in range(rng.randint(0, 6)):
            d = rng.choice([0, 0, 0, 250, 500, 1000, 1250, 2500]) if grid else rng.choice([0, 0, 1, 7, 200, 999, 1000, 1001, 3400])
            o = rng.choices([0, 1, 2], weights=[6, 3, 0.5])[0]
            script.append((d, o))
    else:
        script = rng.sample([1, 2, 3, 4, 5, 6], rng.choice([0, 1, 2, 3, 3, 4]))
    evs = []
    t = 0
    for _ in range(rng.randint(0, 9)):
        style = rng.random()
        if style < 0.35:
            t = t + rng.choice([0, 0, 1]) if not grid else t          # burst
        elif style < 0.85:
            t = tm(t, t + 1500)
        else:
            t = tm(t + 1000, t + 5000)                                # silence
        code = rng.choices([0, 1, 2, 3, 4], weights=[2, 3, 4, 3, 1])[0]
        evs.append((t, code))
        stats["event_" + EV_NAMES[code]] = stats.get("event_" + EV_NAMES[code], 0) + 1
    tc = tm(t, t + rng.choice([0, 500, 1000, 2500, 4000]))
    stats["kind_" + kind] = stats.get("kind_" + kind, 0) + 1
    stats["grid" if grid else "random_ms"] = stats.get("grid" if grid else "random_ms", 0) + 1
    return {"kind": kind, "script": script, "evs": evs, "tc": tc}


def fixed_cases():
    M, S = "M", "S"
    return [
        {"kind": M, "script": [], "evs": [], "tc": 5000},
        {"kind": M, "script": [(0, 0)] * 6, "evs": [], "tc": 4500},                                   # keeps trying, silence
        {"kind": M, "script": [(0, 0)] * 6, "evs": [(100 * i, 0) for i in range(1, 10)], "tc": 3000},  # burst must not add attempts
        {"kind": M, "script": [(0, 0)] * 6, "evs": [(10, 2), (20, 2), (30, 3), (40, 4), (50, 0)], "tc": 2500},
        {"kind": M, "script": [(0, 1)], "evs": [(100, 2), (200, 2), (300, 2), (1000, 2), (1000, 2)], "tc": 3000},
        {"kind": M, "script": [(0, 0), (0, 0), (0, 1)], "evs": [(1000, 0), (2000, 4), (2500, 2)], "tc": 3500},  # events at the deadline
        {"kind": M, "script": [(2500, 0), (0, 0), (1000, 1)], "evs": [(100, 2), (2500, 0), (3500, 0), (3499, 0)][:3], "tc": 8000},
        {"kind": M, "script": [(100, 0), (0, 2)], "evs": [], "tc": 9000},                              # try_spawn fails
        {"kind": M, "script": [(0, 1)], "evs": [(5000, 1), (6000, 2)], "tc": 6000},                   # close at the instant of the event
        {"kind": M, "script": [(0, 0)], "evs": [], "tc": 1000},                                       # close at the deadline
        {"kind": M, "script": [(0, 0)], "evs": [], "tc": 0},
        {"kind": S, "script": [1, 2, 3], "evs": [(500, 2), (2500, 3), (2600, 1), (5000, 2)], "tc": 9000},
        {"kind": S, "script": [1, 2, 3], "evs": [(500, 1), (600, 1), (3000, 1)], "tc": 5000},        # demobilised: never again
        {"kind": S, "script": [1, 2], "evs": [(0, 3), (0, 3), (1000, 3), (1500, 2), (2000, 3)], "tc": 6000},
        {"kind": S, "script": [], "evs": [(100, 2), (300, 0)], "tc": 3500},                           # name does not resolve: keeps trying
        {"kind": S, "script": [7], "evs": [(100, 3), (200, 1), (1100, 3)], "tc": 4000},
        {"kind": S, "script": [1, 2, 3], "evs": [(10, 1), (20, 2), (30, 1)], "tc": 2500},             # demobilised then network issue
    ]


def corpus_cases():
    d = os.path.join(vplib.VERIF, "corpus", "C36")
    res = []
    if os.path.isdir(d):
        for f in sorted(os.listdir(d)):
            for line in open(os.path.join(d, f)):
                line = line.split("#")[0].strip()
                if line:
                    res.append(parse_line(line))
    return res


def main():
    c = vplib.Check("C36")
    c.run_gate()
    rng = c.rng
    stats = {}
    cases = corpus_cases()
    ncorpus = len(cases)
    cases += fixed_cases()
    for _ in range(500 if c.tier == "quick" else 4000):
        cases.append(gen_case(rng, stats))
    ties_seen = {}

    def coq_case(case, out):
        if not out or out[0] == "PANIC" or "HANG" in out:
            impl = "[[(-999)%Z]]"
            fin = []
        else:
            try:
                v = [int(x) for x in out]
            except ValueError:
                v = [-998]
            impl = "[" + vplib.coq_list([vplib.zlit(x) for x in v]) + "]"
            log = parse_log(out) or []
            fin = [e[2] for e in log if e[0] == "T"]
        # a message can only race with the timeout at an instant f + W for the return time f of some attempt
        deadlines = {f + WAIT_MS for f in fin}
        k = sum(1 for a, _ in case["evs"] if a in deadlines) + (1 if case["tc"] in deadlines else 0)
        k = min(k, 11)
        ties_seen[k] = ties_seen.get(k, 0) + 1
        total = case["tc"] + (sum(d for d, _ in case["script"]) if case["kind"] == "M" else 0)
        fuel = 3 * len(case["evs"]) + 3 * (total // WAIT_MS) + 14
        if case["kind"] == "M":
            script = vplib.coq_list(["(%s, %s)" % (vplib.zlit(d), vplib.zlit(o)) for d, o in case["script"]])
        else:
            script = vplib.coq_list(["(%s, 0%%Z)" % vplib.zlit(a) for a in case["script"]])
        evs = vplib.coq_list(["(%s, %s)" % (vplib.zlit(a), vplib.zlit(cd)) for a, cd in case["evs"]])
        inp = "(%s, %s, %s, %s, %d%%nat, %d%%nat)" % ("KMock" if case["kind"] == "M" else "KStd", script, evs,
                                                      vplib.zlit(case["tc"]), k, fuel)
        return inp, impl

    def nontrivial(case, out):
        log = parse_log(out)
        return bool(log) and sum(1 for e in log if e[0] == "T") >= 2 and any(e[0] == "H" for e in log)

    outs = vplib.correspondence(
        c, "ntpd", cases,
        line_of=line_of,
        coq_case_of=coq_case,
        preamble="From V Require Import Model.Spawner.\n",
        checker="mismatches accepts run",
        monitor=monitor,
        nontrivial=nontrivial,
        sample_of=lambda case, out: {"input": line_of(case), "implementation_log": " ".join(out)},
        shard=40,
    )
    if outs:
        attempts = handled = errs = 0
        per_case = {}
        for i, case in enumerate(cases):
            log = parse_log(outs.get(i, [])) or []
            n = sum(1 for e in log if e[0] == "T")
            attempts += n
            handled += sum(1 for e in log if e[0] == "H")
            errs += sum(1 for e in log if e[0] == "T" and e[3] is None)
            per_case[min(n, 8)] = per_case.get(min(n, 8), 0) + 1
        stats.update({"cases": len(cases), "corpus": ncorpus, "attempts": attempts, "events_handled": handled,
                      "attempts_returning_err": errs, "attempts_per_case_histogram(8=8+)": dict(sorted(per_case.items())),
                      "possible_message/timeout_ties_per_case": dict(sorted(ties_seen.items()))})
    c.cov["rule"] = ("the real spawner_task under tokio's paused clock (fresh current-thread runtime per case), a recording "
                     "wrapper around a scripted mock spawner (attempt durations 0..3400 ms, incomplete/complete/Err outcomes) "
                     "or the real StandardSpawner with the repository's rotating test resolver; schedules of SourceRegistered / "
                     "SourceRemoved(3 reasons) / Idle events with bursts, silence and events exactly at the timeout deadline "
                     "(60% of the cases on a 250 ms grid), channel closed at a scripted instant; compared: the instants of every "
                     "try_spawn call and return, what it did, the instants of every handler call and of the task's return. "
                     "Where a message and the timeout fall on the same instant the model allows both orders and the "
                     "implementation's log must be one of them. Non-trivial: at least two attempts and one handled event")
    c.cov["distribution"] = stats
    c.assumptions += [
        "model of spawner_task, StandardSpawner and NtsSpawner written by hand (coq/Model/Spawner.v); spawner_task and "
        "StandardSpawner tied to the code by the comparison above; NtsSpawner (needs TCP+TLS) is model only",
        "tokio's timer semantics under the paused clock (millisecond granularity, a timeout fires at its deadline), and that the "
        "real clock behaves like it; handlers take no time (none of the repository's handlers awaits anything pending)",
        "a message arriving at the very instant the timeout expires may be seen before or after it (both happen under the "
        "paused clock); the theorems hold for every resolution, the correspondence accepts either",
        "the DNS oracle of the standard spawner is the cfg(test) hard-coded resolver (rotate by one per lookup)",
        "the tokio `test-util` feature (paused clock) is enabled for the harness build through ntp-proto's dev-dependency "
        "(feature unification of the one cargo invocation that builds all harness crates)",
    ]
    return c.finish()


MANIFEST = {
    "claimed": True,
    "text": "Theorems (Coq, any Spawner implementation as a state machine with arbitrary attempt durations, any schedule of "
            "events with arbitrary arrival times and channel close time, any resolution of message/timeout races, any number "
            "of loop iterations): any two try_spawn calls of a run of spawner_task start >= 1 s apart, the later one >= 1 s "
            "after the earlier one returned (C36_pace); keeps trying, for EVERY spawner including ones that alternate between "
            "complete and incomplete (C36_keeps_trying): the whole log satisfies `keeps`, i.e. at every point of the run (start, "
            "after each attempt, handled event or timeout), following the spawner's state along the log: incomplete and due "
            "(no attempt yet or >= 1 s since the previous attempt returned) => the next thing is the attempt, at that very "
            "instant; not due => the next thing (event handled / channel closed / timeout) happens no later than previous "
            "return + 1 s, a timeout exactly then, never an attempt; attempts only while incomplete and due; the log ends only "
            "by channel close, try_spawn error or the model's cut-off. Read off at an arbitrary point: C36_keeps_trying_next; "
            "as an instant: if the spawner is incomplete at every loop top from some point up to the next attempt, that attempt "
            "starts exactly at max(that point, previous return + 1 s) and nothing in between is later "
            "(C36_next_attempt_instant); never-complete spawners are tried exactly periodically "
            "(C36_keeps_trying_never_complete); per-iteration facts for every spawner (C36_attempt_when_due, "
            "C36_no_attempt_otherwise, C36_wait_bounded); the standard "
            "spawner inside the loop, for every DNS oracle: no attempt unless no source was spawned yet or a removal with a "
            "reason other than Demobilized was handled since (C36_no_respawn_demobilized), after an Unreachable removal the "
            "next source uses a newly resolved address, otherwise the cached one (C36_reresolve_unreachable).",
    "note": "Trusted: Coq kernel+vm_compute; hand-written model coq/Model/Spawner.v; harness harness/ntpd/c36.rs + this driver; "
            "tokio timer semantics (paused clock, ms granularity) and zero-time handlers (assumed, not modelled: a handler that "
            "awaits something pending would delay the deadline by its handling time); the keeps-trying theorems are safety "
            "statements over finite logs of the fuel-bounded model for every fuel (bounded response: next attempt at the deadline, "
            "log never ends while incomplete), there is no separate infinite-trace fairness theorem. NtsSpawner is model-only and (observation, outside the property's 'plain' spawner) respawns after "
            "Demobilized. Print Assumptions: closed under the global context for all theorems.",
    "design_ref": "DESIGN.md 3 C36",
}
