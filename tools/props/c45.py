"""C45: CSPTP servers answer only requests, with correct echoes.
Model: coq/Model/Csptp.v (+ CsptpMsg.v, PtpWire.v); theorems: coq/Props/C45.v;
tie: the real server::handle_packet with a recording mock socket (harness/statime-csptp/c45.rs)."""
from tools import vplib
from tools.props import wgen as W


# case = {"state": 19 ints, "recv": [s, n], "send": None | [s, n], "pkt": bytes}
def flat(case):
    s = case["send"]
    return list(case["state"]) + list(case["recv"]) + ([1, s[0], s[1]] if s else [0, 0, 0]) + list(case["pkt"])


def r_state(rng, canonical=True):
    return ([rng.randrange(256), rng.randrange(256)] + W.r_acc(rng, canonical) + [rng.randrange(65536), rng.randrange(256),
            rng.choice([0, 1, 65535, rng.randrange(65536)])] + [rng.randrange(256) for _ in range(8)]
            + [rng.randrange(2) for _ in range(3)] + [rng.choice([0, 0, 1, 2, 3, 4])])


def gen_packet(rng):
    domain, seq = rng.randrange(256), rng.choice([0, 1, 65535, rng.randrange(65536)])
    k = rng.random()
    if k < 0.40:     # plain requests, all flag values, any correction field and header flags
        h = W.csptp_header(domain, seq, two_step=rng.random() < 0.2, corr=W.r_corr(rng), flags7=rng.randrange(128),
                           vmin=rng.randrange(16))
        val = [rng.choice([0, 1, 2, 3, rng.randrange(256)])] + [rng.randrange(256) for _ in range(rng.choice([1, 3, 3, 5, 17]))]
        extra = []
        for _ in range(rng.choice([0, 0, 0, 1, 2])):
            t = W.r_tlv(rng)
            if t[0] not in (W.TLV_REQUEST, W.TLV_RESPONSE):
                extra += W.tlv_bytes(*t)
        sfx = W.tlv_bytes(W.TLV_REQUEST, val)
        sfx = extra + sfx if rng.random() < 0.3 else sfx + extra
        return W.ser_msg(h, [0] + W.r_ts(rng), sfx)
    if k < 0.50:     # request TLV count / validity corners
        which = rng.randrange(6)
        sfx = {0: [], 1: W.tlv_bytes(W.TLV_REQUEST, []), 2: W.tlv_bytes(W.TLV_REQUEST, [1, 0]) * 2,
               3: W.tlv_bytes(W.TLV_REQUEST, [1, 0]) + W.tlv_bytes(W.TLV_RESPONSE, W.ser_ts([5, 5]) + [0] * 8),
               4: W.tlv_bytes(W.TLV_REQUEST, [1, 0]) + W.tlv_bytes(W.TLV_RESPONSE, [0] * 16),
               5: W.tlv_bytes(W.TLV_REQUEST, [1, 0]) + W.tlv_bytes(0x8008, [])}[which]
        return W.ser_msg(W.csptp_header(domain, seq), [0, 0, 0], sfx)
    if k < 0.58:     # responses and follow-ups (must not be answered)
        if rng.random() < 0.5:
            return W.csptp_response(domain, seq, W.r_ts(rng), W.r_corr(rng), rng.random() < 0.5, status=W.status_value(rng))
        return W.csptp_follow_up(domain, seq, W.r_ts(rng))
    if k < 0.68:     # wrong sdoId / version / body type, otherwise a fine request
        b = W.csptp_request(domain, seq, flags=rng.randrange(4), corr=W.r_corr(rng))
        c = rng.randrange(4)
        if c == 0:
            return W.csptp_request(domain, seq, sdo=rng.choice([0, 0x301, 0x200, 0xF00, 0x3FF]))
        if c == 1:
            return W.csptp_request(domain, seq, vmaj=rng.choice([0, 1, 3, 15]))
        if c == 2:
            ty = rng.choice([1, 2, 3, 9, 10, 11, 12, 13, 4, 5, 6, 7, 14, 15])
            b[0] = (b[0] & 0xF0) | ty
            return b
        b[34 + 6:34 + 10] = W.be(4, rng.choice([10 ** 9, 10 ** 9 + 1, 2 ** 32 - 1]))
        return b
    if k < 0.85:     # mutated requests
        b = W.csptp_request(domain, seq, flags=rng.randrange(4), corr=W.r_corr(rng))
        for _ in range(rng.choice([1, 1, 2])):
            b = W.mutate(rng, b)
        return b
    if k < 0.93:     # padding after the message, length lies
        b = W.csptp_request(domain, seq, flags=rng.randrange(4))
        return b + [rng.randrange(256) for _ in range(rng.choice([1, 2, 4, 30]))]
    return [rng.randrange(256) for _ in range(rng.choice([0, 1, 33, 34, 43, 44, 48, 52, 100, 512]))]


def monitor(case, out):
    """the property on one run: no crash; datagrams are sent only for a well-formed CSPTP request; the first one
    (event channel) has the request's domain and sequence id, the two-step flag and a response TLV holding the
    reception time and the request's correction field; a second one (general channel) is a follow-up with the same
    ids and the send time reported by send_event, present exactly when send_event succeeded"""
    payload = {"case": case}
    if out and out[0] == "PANIC":
        msg = " ".join(out[1:])
        if "harness:" in msg or "generator:" in msg:
            return None
        return ("handle_packet panics: %s" % msg, payload)
    v = [int(x) for x in out]
    n, i, sent = v[0], 1, []
    for _ in range(n):
        ch, ln = v[i], v[i + 1]
        sent.append((ch, v[i + 2:i + 2 + ln]))
        i += 2 + ln
    if not sent:
        return None
    req = W.parse_csptp(case["pkt"])
    if req is None or req["kind"] != "request":
        return ("the server sent %d datagram(s) for a datagram that is not a well-formed CSPTP request" % n, payload)
    ch, d1 = sent[0]
    a = W.parse_csptp(d1)
    if ch != 0 or a is None or a["kind"] != "response":
        return ("the first datagram sent is not a CSPTP response on the event socket", payload)
    if a["domain"] != req["domain"] or a["seq"] != req["seq"]:
        return ("the answer carries domain %d / sequence id %d, the request %d / %d" % (a["domain"], a["seq"], req["domain"], req["seq"]), payload)
    rt = [t for t in a["tlvs"] if t[0] == W.TLV_RESPONSE][0][1]
    if rt[0:10] != W.ser_ts(case["recv"]) or W.signed(64, W.unbe(rt[10:18])) != req["correction"]:
        return ("the response TLV does not echo the reception time and the request's correction field", payload)
    if not a["two_step"]:
        return ("the answer does not have the two-step flag although no send time is included", payload)
    if case["send"] is None:
        if len(sent) != 1:
            return ("send_event failed but %d datagrams were sent" % len(sent), payload)
        return None
    if len(sent) != 2:
        return ("two-step answer without exactly one follow-up (%d datagrams sent)" % len(sent), payload)
    ch2, d2 = sent[1]
    f = W.parse_csptp(d2)
    if ch2 != 1 or f is None or f["kind"] != "followup":
        return ("the second datagram is not a CSPTP follow-up on the general socket", payload)
    if f["domain"] != req["domain"] or f["seq"] != req["seq"] or list(f["ts"]) != list(case["send"]):
        return ("the follow-up does not carry the request's ids and the actual send time of the answer", payload)
    return None


def main():
    c = vplib.Check("C45")
    c.run_gate()
    rng = c.rng
    cases = []
    n = 900 if c.tier == "quick" else 9000
    for i in range(n):
        canonical = rng.random() < 0.85
        cases.append({"state": r_state(rng, canonical), "recv": W.r_ts(rng),
                      "send": W.r_ts(rng) if rng.random() < 0.8 else None, "pkt": gen_packet(rng)[:512]})
    # the request the crate's own client sends (status wanted), every leap value, both send outcomes
    for leap in range(5):
        for send in (None, [1700000000, 999999999]):
            st = r_state(rng)
            st[18] = leap
            cases.append({"state": st, "recv": [1700000000, 1], "send": send, "pkt": W.csptp_request(128, 7, flags=1)})
    stats = {"cases": len(cases), "answered": 0, "answered_two": 0, "silent": 0, "panic": 0, "status_wanted_unencodable_accuracy": 0}

    def coq_case(case, out):
        if out and out[0] == "PANIC":
            return W.zlist(flat(case)), "[(-1)]"
        return W.zlist(flat(case)), W.zlist([int(x) for x in out])

    def nontrivial(case, out):
        if out and out[0] == "PANIC":
            stats["panic"] += 1
            return True
        k = int(out[0])
        stats["answered" if k == 1 else "answered_two" if k == 2 else "silent"] += 1
        m = W.parse(case["pkt"])
        if k == 0 and m and W.parse_csptp(case["pkt"]) and case["state"][2] == 2 and case["state"][3] > 0x7D:
            stats["status_wanted_unencodable_accuracy"] += 1
        return m is not None      # the datagram got past the PTP message parser

    vplib.correspondence(
        c, "statime-csptp", cases,
        line_of=lambda case: W.ints(flat(case)),
        coq_case_of=coq_case,
        preamble="From V Require Import Model.Csptp.\nOpen Scope Z_scope.\n",
        checker="mismatches zlist_eqb (fun i => canon_panic (run_server i))",
        monitor=monitor,
        nontrivial=nontrivial,
        shard=150,
        sample_of=lambda case, out: {"packet": bytes(case["pkt"]).hex(), "recv": case["recv"], "send": case["send"],
                                     "datagrams_sent": out[0] if out else None},
    )
    c.cov["rule"] = ("real handle_packet with a recording mock socket on: valid requests (all flag octets, extra TLVs before/after, "
                     "any correction field, header flags, minor versions), request-TLV corner cases (none, empty-valued, two, "
                     "request+response, invalid response, trailing empty TLV), responses and follow-ups, wrong sdoId / major "
                     "version / body type / nanoseconds, mutated and padded requests, garbage; random server state (incl. "
                     "accuracies without a wire code), every leap indicator, send_event succeeding or failing. Non-trivial = "
                     "the datagram parses as a PTP message; distinct = distinct (state, times, datagram).")
    c.cov["distribution"] = stats
    c.assumptions += [
        "hand-written models coq/Model/{PtpWire,CsptpMsg,Csptp}.v of the repaired wire code (branch fix-c41)",
        "the ServerSocket is a mock; serve()'s receive loop (buffer of MAX_MESSAGE_SIZE, shutdown) is not modelled, "
        "handle_packet is driven directly",
        "theorems C45_echo / C45_follow_up describe the sent datagrams as serialisations of messages with the stated "
        "fields; that such bytes parse back to those messages is C41_ser_de",
    ]
    return c.finish()


MANIFEST = {
    "claimed": True,
    "text": "Theorems (Coq, handle_packet over byte strings, every server state, reception time and send_event outcome): C45_total - no panic site is reached; C45_only_requests - datagrams are sent only if the input parses as a PTP message with sdoId 0x300, major version 2, a Sync body, exactly one CSPTP request TLV (with a flags octet) and no CSPTP response TLV; C45_echo - the first datagram goes to send_event and is the serialisation of a two-step Sync with sdoId 0x300, the request's domain and sequence id, whose first TLV reads back as (reception time, request correction field); C45_follow_up - nothing more is sent when send_event fails, and when it reports a send time exactly one more datagram goes to send_general: the serialisation of a follow-up with the request's ids carrying that send time. Tied on every run to the real handle_packet with a recording mock socket.",
    "note": "Trusted: Coq kernel+vm_compute; hand-written models coq/Model/{PtpWire,CsptpMsg,Csptp}.v; serve()'s receive loop is not modelled (handle_packet is driven directly); C45_echo/C45_follow_up describe the sent bytes as msg_serialize of messages with the stated fields - that these bytes parse back to those messages is C41_ser_de_valid_set (the run-time monitor parses the real bytes with an independent reader); with the fix-c41 serialiser a server state whose clock accuracy has no wire code (ProfileSpecific(v>0x7d)) makes status-requesting requests go unanswered (modelled; before the fix a wrapped code was sent, debug builds overflowed). Print Assumptions: closed under the global context.",
    "design_ref": 'DESIGN.md 3 C45',
}
