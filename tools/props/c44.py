"""C44: CSPTP clients survive any server traffic and only use matching answers.
Model: coq/Model/CsptpSource.v (+ CsptpMsg.v, PtpWire.v); theorems: coq/Props/C44.v;
tie: the real CsptpSource::run driven poll by poll through harness/statime-csptp/c44.rs."""
from tools import vplib
from tools.props import wgen as W


# ---------------------------------------------------------------- cases
# case = {"domain": d, "active": 0/1, "polls": [{"send": None | [secs, nanos], "events": [(kind, [secs, nanos], bytes)]}]}
def flat(case):
    l = [case["domain"], case["active"], len(case["polls"])]
    for p in case["polls"]:
        s = p["send"]
        l += [1, s[0], s[1]] if s else [0, 0, 0]
        l.append(len(p["events"]))
        for kind, ts, b in p["events"]:
            l += [kind, ts[0], ts[1], len(b)] + list(b)
    return l


def good_ts(rng):
    return [rng.randrange(1, 1 << 32), rng.randrange(10 ** 9)]


def gen_poll(rng, domain, seq, style):
    """traffic for one request"""
    evs = []

    def dg(b, kind=2, ts=None):
        evs.append((kind, ts or W.r_ts(rng, 0.1), b[:512]))

    two = rng.random() < 0.5
    status = W.status_value(rng) if rng.random() < 0.6 else None
    resp = lambda d=domain, s=seq, t=two, **kw: W.csptp_response(
        d, s, W.r_ts(rng), W.r_corr(rng), t, origin=W.r_ts(rng), corr=W.r_corr(rng), status=status,
        flags7=rng.randrange(128), status_first=rng.random() < 0.3, **kw)
    fu = lambda d=domain, s=seq, **kw: W.csptp_follow_up(d, s, W.r_ts(rng), corr=W.r_corr(rng), **kw)
    n = rng.choice([0, 1, 2, 3, 4, 6])
    for _ in range(n):
        k = rng.random()
        if k < 0.08:
            evs.append((0, [0, 0], []))
        elif k < 0.16:
            dg(resp(s=(seq + rng.choice([1, -1, 256, 7])) % 65536))
        elif k < 0.22:
            dg(resp(d=(domain + rng.choice([1, 128, 255])) % 256))
        elif k < 0.27:
            dg(W.csptp_request(domain, seq, flags=rng.randrange(4)))
        elif k < 0.32:
            dg(resp(), kind=1)
        elif k < 0.37:
            dg(W.mutate(rng, resp()))
        elif k < 0.40:
            dg([rng.randrange(256) for _ in range(rng.choice([0, 10, 33, 34, 44, 60, 512]))])
        elif k < 0.44:
            dg(resp(sdo=rng.choice([0, 0x301, 0xFFF])) if rng.random() < 0.5 else resp(vmaj=rng.choice([1, 3])))
        elif k < 0.47:
            dg(W.ser_msg(W.csptp_header(domain, seq), W.r_body(rng, rng.choice([1, 2, 3, 9, 10, 11, 12, 13])), []))
        elif k < 0.50:   # sync with both a request and a response TLV, or an invalid response TLV
            b = W.ser_msg(W.csptp_header(domain, seq), [0, 0, 0],
                          W.tlv_bytes(W.TLV_RESPONSE, W.ser_ts(W.r_ts(rng)) + [0] * rng.choice([8, 6, 10]))
                          + (W.tlv_bytes(W.TLV_REQUEST, [1, 0, 0, 0]) if rng.random() < 0.5 else []))
            dg(b)
        elif k < 0.53:   # trailing empty-valued TLV after the response TLV
            dg(W.csptp_response(domain, seq, W.r_ts(rng), 0, False, origin=W.r_ts(rng)) [:])
            b = list(evs[-1][2]) + W.tlv_bytes(rng.choice([0x8008, W.TLV_STATUS, 3]), [])
            b[2:4] = W.be(2, len(b))
            evs[-1] = (2, evs[-1][1], b)
        elif k < 0.78:
            dg(resp())
        else:
            dg(fu())
    if style == "complete":
        if two:
            pair = [resp(t=True), fu()]
            if rng.random() < 0.4:
                pair.reverse()
            for b in pair:
                dg(b)
                if rng.random() < 0.2:
                    dg(b)
        else:
            dg(resp(t=False))
        if rng.random() < 0.3:
            dg(resp())
    return {"send": W.r_ts(rng, 0.1) if rng.random() < 0.93 else None, "events": evs}


def boundary_cases(rng):
    out = []
    big = (1 << 48) - 1
    two_s = (2 * 10 ** 9) << 16

    def one(events, send=(1000, 0), domain=128, active=1):
        return {"domain": domain, "active": active, "polls": [{"send": list(send), "events": events}]}

    rts = [1700000000, 5]
    # the confirmed defect inputs: follow-up seconds 2^48-1 with a +2 s correction, 0 with -2 s
    for secs, corr in [(big, two_s), (0, -two_s), (big, 1 << 16), (big, (10 ** 9 << 16)), (big - 1, two_s), (1, -two_s),
                       (0, -1), (0, -65536), (0, -65537), (big, 0), (0, 0), (big, (1 << 63) - 1), (0, -(1 << 63)),
                       (140737, -(1 << 63)), (140738, -(1 << 63)), (big - 140737, (1 << 63) - 1), (big - 140738, (1 << 63) - 1)]:
        for order in (0, 1):
            r = W.csptp_response(128, 0, [50, 7], 0, True, corr=0)
            f = W.csptp_follow_up(128, 0, [secs, 999999999], corr=corr)
            evs = [(2, rts, r), (2, rts, f)]
            if order:
                evs.reverse()
            out.append(one(evs))
        # one-step: origin timestamp + header correction
        out.append(one([(2, rts, W.csptp_response(128, 0, [50, 7], 0, False, origin=[secs, 1000000000], corr=corr))]))
        # request side: local send time + correction echoed in the response TLV
        out.append(one([(2, rts, W.csptp_response(128, 0, [50, 7], corr, False, origin=[77, 1]))], send=(secs, 999999999)))
    # saturating sum of the two corrections
    for a, b in [((1 << 63) - 1, 1), ((1 << 63) - 1, (1 << 63) - 1), (-(1 << 63), -1), (-(1 << 63), -(1 << 63)), ((1 << 63) - 1, -(1 << 63))]:
        for order in (0, 1):
            evs = [(2, rts, W.csptp_response(128, 0, [50, 7], 5, True, corr=a)), (2, rts, W.csptp_follow_up(128, 0, [1 << 40, 3], corr=b))]
            if order:
                evs.reverse()
            out.append(one(evs))
    # steps_removed boundaries in the status TLV, active and inactive source
    for steps in (0, 1, 65534, 65535):
        for active in (0, 1):
            st = [1, 6, 0x21, 0x12, 0x34, 2] + W.be(2, steps) + [0, 37] + [9, 8, 7, 6, 5, 4, 3, 2]
            out.append(one([(2, rts, W.csptp_response(128, 0, [50, 7], 5, False, origin=[60, 1], status=st, flags7=0x3B))], active=active))
    # nanoseconds = 10^9 (accepted by Timestamp::deserialize) everywhere, u32 second wrap in convert_to_ntp
    for secs in (0, (1 << 32) - 1, 1 << 32, 2085978496 + 36, 2085978496 + 37, 2085978496 + 38, (1 << 32) - 2208988800 + 37 - 1):
        out.append(one([(2, [secs, 1000000000], W.csptp_response(128, 0, [secs, 1000000000], 0, False, origin=[secs, 1000000000]))],
                       send=(secs, 1000000000)))
    # duplicates and state machine corners
    r2 = W.csptp_response(128, 0, [50, 7], 1 << 16, True, corr=3 << 16)
    r1 = W.csptp_response(128, 0, [51, 8], 2 << 16, False, origin=[61, 2], corr=4 << 16)
    f = W.csptp_follow_up(128, 0, [60, 1], corr=5 << 16)
    f2 = W.csptp_follow_up(128, 0, [70, 2], corr=6 << 16)
    for evs in ([r2, r2, f], [f, f2, r2], [r2, r1], [f, r1], [r2, f2, f], [f], [r2], [r1, r1], [], [f, f], [r2, r2]):
        out.append(one([(2, rts, b) for b in evs]))
    # several polls: an answer to the previous request arrives late
    polls = []
    for k in range(4):
        late = W.csptp_response(128, (k - 1) % 65536, [50, 7], 0, False, origin=[60, 1])
        cur = W.csptp_response(128, k, [50 + k, 7], 0, False, origin=[60 + k, 1])
        polls.append({"send": [1000 + k, 0], "events": [(2, rts, late)] + ([(2, rts, cur)] if k % 2 == 0 else [])})
    out.append({"domain": 128, "active": 1, "polls": polls})
    return out


# ---------------------------------------------------------------- reading the harness output
def split_out(case, out):
    """per poll: (request bytes, meas 8 ints, state 17 ints)"""
    v = [int(x) for x in out]
    res, i = [], 0
    for _ in case["polls"]:
        n = v[i]
        req = v[i + 1:i + 1 + n]
        i += 1 + n
        res.append((req, v[i:i + 8], v[i + 8:i + 25]))
        i += 25
    return res if i == len(v) else None


def monitor(case, out):
    """the property on one run of the real code: no crash; a measurement for request k only if that
    request's socket delivered a timestamped CSPTP response with the request's domain and sequence id
    (and a matching follow-up when every such response is two-step); at most one measurement per request"""
    payload = {"case": case}
    if out and out[0] == "PANIC":
        msg = " ".join(out[1:])
        if "harness:" in msg or "generator:" in msg:
            return None
        return ("CsptpSource::run panics on scripted server traffic: %s" % msg, payload)
    polls = split_out(case, out)
    if polls is None:
        return None
    for k, (p, (req, meas, _state)) in enumerate(zip(case["polls"], polls)):
        if meas[7] != 1:
            return ("request %d: the controller did not receive exactly one measurement (two handle_measurement calls and one "
                    "set_usable(true)) or none" % k, payload)
        if not meas[0]:
            continue
        if p["send"] is None:
            return ("request %d was never sent but produced a measurement" % k, payload)
        ok = False
        msgs = [(kind, W.parse_csptp(b)) for kind, _ts, b in p["events"] if kind != 0]
        match = [(kind, m) for kind, m in msgs if m and m["domain"] == case["domain"] and m["seq"] == k % 65536]
        fus = [m for _k, m in match if m["kind"] == "followup"]
        for kind, m in match:
            if kind == 2 and m["kind"] == "response" and (not m["two_step"] or fus):
                ok = True
        if not ok:
            return ("request %d (domain %d, sequence id %d) produced a measurement although its socket delivered no timestamped "
                    "response (with follow-up for two-step) carrying that domain and sequence id" % (k, case["domain"], k), payload)
    return None


def main():
    c = vplib.Check("C44")
    c.run_gate()
    rng = c.rng
    cases = boundary_cases(rng)
    n_struct = 250 if c.tier == "quick" else 2500
    for i in range(n_struct):
        domain = rng.choice([128, 0, 255, rng.randrange(256)])
        npolls = rng.choice([1, 1, 2, 3, 5])
        style = "complete" if rng.random() < 0.6 else "open"
        cases.append({"domain": domain, "active": rng.randrange(2),
                      "polls": [gen_poll(rng, domain, k, style) for k in range(npolls)]})
    stats = {"cases": len(cases), "polls": 0, "events": 0, "measured_polls": 0, "dropped_unrepresentable": 0, "panic": 0}

    def coq_case(case, out):
        if out and out[0] == "PANIC":
            return W.zlist(flat(case)), "[(-1)]"
        return W.zlist(flat(case)), W.zlist([int(x) for x in out])

    def nontrivial(case, out):
        if out and out[0] == "PANIC":
            stats["panic"] += 1
            return True
        polls = split_out(case, out) or []
        stats["polls"] += len(case["polls"])
        stats["events"] += sum(len(p["events"]) for p in case["polls"])
        m = sum(1 for _r, meas, _s in polls if meas[0])
        stats["measured_polls"] += m
        return any(len(p["events"]) >= 1 for p in case["polls"])

    vplib.correspondence(
        c, "statime-csptp", cases,
        line_of=lambda case: W.ints(flat(case)),
        coq_case_of=coq_case,
        preamble="From V Require Import Model.CsptpSource.\nOpen Scope Z_scope.\n",
        checker="mismatches zlist_eqb (fun i => canon_panic (run_source i))",
        monitor=monitor,
        nontrivial=nontrivial,
        shard=60,
        sample_of=lambda case, out: {"domain": case["domain"], "polls": len(case["polls"]),
                                     "events_first_poll": [(k, ts, bytes(b).hex()) for k, ts, b in case["polls"][0]["events"][:3]],
                                     "output_head": " ".join(out[:12])},
    )
    c.cov["rule"] = ("scripted runs of the real CsptpSource::run (1-5 requests, each with its own mock socket): boundary stream "
                     "(48-bit second limits x corrections of +-2 s, +-1 tick, i64 extremes on follow-up, one-step origin and request "
                     "side; saturating correction sums; steps_removed 0/1/65534/65535; nanoseconds = 10^9; u32 wrap of the NTP "
                     "conversion; duplicate / reordered / late answers) and a structured stream (one- and two-step answers, "
                     "follow-ups before and after, wrong sequence id or domain, requests, answers without timestamp, receive "
                     "errors, other sdoId/version/body types, invalid TLV combinations, trailing empty TLVs, bit flips, "
                     "truncations, garbage). Non-trivial = at least one socket event; distinct = distinct scripts.")
    c.cov["distribution"] = stats
    c.assumptions += [
        "hand-written models coq/Model/{PtpWire,CsptpMsg,CsptpSource}.v of the repaired code (branches fix-c41, fix-c44)",
        "the response timeout is modelled as the end of the socket's event list; socket implementations honour "
        "bytes_read <= buffer length; SourceController, sleep, rng and socket creation are mocks in the harness",
        "release arithmetic (no overflow checks, debug_assert inactive): from_seconds_nanos_since_ntp_era with nanos = 10^9 "
        "only trips a debug assertion",
    ]
    return c.finish()


MANIFEST = {
    "claimed": True,
    "text": "Theorems (Coq, model of the repaired source.rs over byte-level parser models): C44_total - for every domain, CSPTP state, starting sequence id and every script of polls (per poll: send_event result and any list of receive results: errors, arbitrary byte strings with or without timestamp) the poll loop completes every poll without reaching a panic site; C44_matching_only - a raw measurement is made only from a timestamped datagram of the request's own socket that parses as a CSPTP Sync with the request's domain and sequence id and a valid response TLV, plus, for two-step answers, a follow-up of the same socket with the same ids (fields of the measurement are stated: ingress time, corrections with saturation, send time); C44_once_per_request - the k-th poll yields at most one measurement, computed from the k-th socket's traffic and the k-th sequence id (wrapping at 2^16); C44_correction_in_range - the repaired add_correction only ever returns PTP timestamps. The model is tied on every run to the real CsptpSource::run (mock sockets/sleep/rng/controller) on boundary and structured traffic.",
    "note": "Trusted: Coq kernel+vm_compute; hand-written models coq/Model/{PtpWire,CsptpMsg,CsptpSource}.v (model the code after fix-c41 and fix-c44); the response timeout is modelled as the end of the socket's event list and async scheduling as sequential delivery; ClientSocket implementations honour bytes_read <= buffer size; 'at most once' is structural (collect_response returns one value per socket; the harness checks exactly one set_usable(true) and two handle_measurement calls per measured poll); release arithmetic (nanos = 10^9 in from_seconds_nanos_since_ntp_era only trips a debug assertion; steps_removed now saturates); panic-site census of source.rs pinned (3 sites, all proved dead). Print Assumptions: closed under the global context.",
    "design_ref": 'DESIGN.md 3 C44',
}
