"""C26: server cookies round-trip, expire after `history` rotations, are tamper-evident, and are issued
under the newest key.  Model: coq/Model/KeySet.v; theorems: coq/Props/C26.v; tie: the real
KeySetProvider::{new, load, rotate} and KeySet::{encode_cookie, decode_cookie} through
harness/ntp-proto/c26.rs.

AES-SIV is not modelled.  The harness decrypts the ciphertext part of every cookie the implementation
issues with a fresh cipher built from the bytes of keys[primary]; these verified (key, nonce, plaintext,
ciphertext) facts are the model's enc/dec table (anything else does not decrypt), fresh keys and nonces
are read back from the implementation (oracles).  The model then has to produce the cookie bytes and
every decode result exactly."""
from tools import vplib

M32 = 1 << 32


def hx(b):
    return b.hex() if b else "-"


def unhx(s):
    return b"" if s == "-" else bytes.fromhex(s)


def B(b):
    """Coq term for a byte string: B <len> <big-endian number>"""
    return "(B %d 0x%s)" % (len(b), b.hex() if b else "0")


def Zb(b):
    return "0x%s%%Z" % b.hex() if b else "0%Z"


# ---------------------------------------------------------------- generators

def rkey(rng, n):
    return bytes(rng.getrandbits(8) for _ in range(n))


def gen_file(rng, nkeys, off, prim, t=1_700_000_000):
    keys = [rkey(rng, 64) for _ in range(nkeys)]
    b = t.to_bytes(8, "big") + off.to_bytes(4, "big") + prim.to_bytes(4, "big") + nkeys.to_bytes(4, "big") + b"".join(keys)
    return {"file": b, "keys": keys, "off": off, "prim": prim}


def issue(rng, kind="wf"):
    if kind == "wf":
        alg, w = rng.choice([(15, 32), (17, 64)])
        return ("I", alg, rkey(rng, w), rkey(rng, w))
    alg = rng.choice([15, 17, 16, 0, 1, 65535, 14, 18])
    return ("I", alg, rkey(rng, rng.choice([32, 64])), rkey(rng, rng.choice([32, 64])))


def wf(op):
    return (op[1] == 15 and len(op[2]) == 32 and len(op[3]) == 32) or (op[1] == 17 and len(op[2]) == 64 and len(op[3]) == 64)


def cookie_len(op):
    return 22 + 2 + len(op[2]) + len(op[3]) + 16


def gen_init(rng, h, kind):
    if kind == "new":
        return None
    n = rng.randint(1, h + 3)
    off = rng.choice([0, 1, rng.randrange(M32), M32 - 1, M32 - 2, M32 - rng.randint(1, 8)])
    prim = n - 1 if rng.random() < 0.7 else rng.randrange(n)
    return gen_file(rng, n, off, prim)


def case_window(rng, h, init, maxrot):
    """issue at every step, decode everything at every later step"""
    ops, nslots = [], 0
    for step in range(maxrot + 1):
        ops.append(issue(rng))
        nslots += 1
        for s in range(nslots):
            if nslots <= 8 or rng.random() < 0.5 or s >= nslots - h - 3:
                ops.append(("D", s))
        if step < maxrot:
            ops.append(("R",))
    return {"h": h, "init": init, "ops": ops}


def case_tamper(rng, h, init, exhaustive_positions, nvals):
    ops = [("R",)] * rng.randint(0, h + 1)
    ops = list(ops)
    cop = issue(rng)
    ops.append(cop)
    n = cookie_len(cop)
    ops.append(("D", 0))
    positions = range(n) if exhaustive_positions else sorted(set([0, 1, 2, 3, 4, 5, 6, 21, 22, n - 17, n - 16, n - 1] + [rng.randrange(n) for _ in range(12)]))
    for p in positions:
        for _ in range(nvals):
            ops.append(("F", 0, p, rng.randrange(256)))
        if rng.random() < 0.3:
            ops.append(("F", 0, p, "flip1"))   # resolved once the cookie is known: not possible before the run, so use +1 below
    for cut in ([0, 1, 21, 22, 23, n - 17, n - 16, n - 1, n, n + 5] if not exhaustive_positions else range(0, n + 2)):
        ops.append(("T", 0, max(0, cut)))
    ops.append(("P", 0, rkey(rng, rng.randint(1, 12))))
    ops.append(("P", 0, b"\0\0"))
    ops = [o for o in ops if not (o[0] == "F" and o[3] == "flip1")]
    return {"h": h, "init": init, "ops": ops}


def case_random(rng, h, init, nops):
    ops, nslots = [], 0
    for _ in range(nops):
        r = rng.random()
        if r < 0.25:
            ops.append(("R",))
        elif r < 0.45 or nslots == 0:
            ops.append(issue(rng, "wf" if rng.random() < 0.75 else "any"))
            nslots += 1
        elif r < 0.75:
            ops.append(("D", rng.randrange(nslots)))
        elif r < 0.85:
            ops.append(("F", rng.randrange(nslots), rng.choice([0, 1, 2, 3, 4, 5, rng.randrange(170)]), rng.randrange(256)))
        elif r < 0.9:
            ops.append(("T", rng.randrange(nslots), rng.randrange(180)))
        elif r < 0.95:
            ops.append(("P", rng.randrange(nslots), rkey(rng, rng.randint(1, 40))))
        else:
            n = rng.choice([0, 1, 21, 22, 23, 38, 104, 168, rng.randrange(200)])
            raw = bytearray(rkey(rng, n))
            if n >= 6 and rng.random() < 0.7:   # plausible header: small id, fitting length
                raw[0:4] = rng.randrange(4).to_bytes(4, "big")
                raw[4:6] = rng.choice([0, 16, max(0, n - 22), n, 65535]).to_bytes(2, "big")
            ops.append(("W", bytes(raw)))
    return {"h": h, "init": init, "ops": ops}


def op_token(o):
    if o[0] == "R":
        return "R"
    if o[0] == "I":
        return "I:%d:%s:%s" % (o[1], hx(o[2]), hx(o[3]))
    if o[0] == "D":
        return "D:%d" % o[1]
    if o[0] == "F":
        return "F:%d:%d:%d" % (o[1], o[2], o[3])
    if o[0] == "T":
        return "T:%d:%d" % (o[1], o[2])
    if o[0] == "P":
        return "P:%d:%s" % (o[1], hx(o[2]))
    if o[0] == "W":
        return "W:%s" % hx(o[1])
    raise ValueError(o)


def line_of(case):
    init = "new" if case["init"] is None else hx(case["init"]["file"])
    return " ".join(["%d" % case["h"], init] + [op_token(o) for o in case["ops"]])


# ---------------------------------------------------------------- output parsing

def parse_state(tok):
    f = tok.split(":")
    keys = [] if f[3] == "-" else [bytes.fromhex(k) for k in f[3].split(",")]
    return int(f[1]), int(f[2]), keys


def parse_dec(tok):
    if tok == "err":
        return None
    f = tok.split(":")
    return int(f[1]), unhx(f[2]), unhx(f[3])


# ---------------------------------------------------------------- the property itself, on one run

def monitor(case, out):
    """independent of the Coq model: evaluates C26's statement on the implementation's answers"""
    if not out or out[0] in ("PANIC", "LOADFAIL"):
        if out and out[0] == "PANIC":
            return ("panic while using the key set: %s" % " ".join(out[:3]), {"case": line_of(case)[:2000]})
        return None
    h = case["h"]
    ops = case["ops"]
    if len(out) != len(ops) + 1:
        return None
    off, prim, keys = parse_state(out[0])
    nrot = 0
    newest_known = case["init"] is None or case["init"]["prim"] == len(case["init"]["keys"]) - 1
    slots = []   # (op, issue rotation count, under newest key?, cookie bytes)
    for i, (o, tok) in enumerate(zip(ops, out[1:])):
        where = {"op_index": i, "op": op_token(o)[:200], "history": h, "case": line_of(case)[:4000]}
        if o[0] == "R":
            off, prim, keys = parse_state(tok)
            nrot += 1
            newest_known = True
            if len(keys) > h + 1:
                return ("after a rotation %d keys are kept, more than history+1 = %d" % (len(keys), h + 1), where)
            if prim != len(keys) - 1:
                return ("after a rotation the primary key is not the newest key (primary=%d of %d)" % (prim, len(keys)), where)
        elif o[0] == "I":
            f = tok.split(":")
            if f[1] == "PANIC":
                return ("encode_cookie panics", where)
            cookie, key, pt = unhx(f[1]), unhx(f[2]), f[5]
            want = o[1].to_bytes(2, "big") + o[2] + o[3]
            if newest_known and keys:
                if pt == "FAIL" or unhx(pt) != want or key != keys[-1]:
                    return ("a new cookie is not the encryption of its content under the newest key", where)
            slots.append((o, nrot, newest_known, cookie))
        else:
            res = parse_dec(tok)
            if o[0] == "W":
                if res is not None:
                    return ("bytes that were never issued decode as a cookie", where)
                continue
            cop, r0, newest, cookie = slots[o[1]]
            content = (cop[1], cop[2], cop[3])
            genuine = o[0] in ("D", "P") or (o[0] == "T" and o[2] >= len(cookie)) or \
                (o[0] == "F" and (o[2] >= len(cookie) or cookie[o[2]] == o[3]))
            if not genuine:
                if res is not None:
                    return ("a modified cookie (%s) decodes" % op_token(o)[:40], where)
                continue
            if res is not None and res != content:
                return ("cookie decodes to other session keys/algorithm than it was made from", where)
            if wf(cop) and newest:
                inside = nrot - r0 <= h
                if inside and res is None:
                    return ("cookie issued %d rotations ago (history %d) no longer decodes" % (nrot - r0, h), where)
                if not inside and res is not None:
                    return ("cookie issued %d rotations ago still decodes with history %d" % (nrot - r0, h), where)
            if not wf(cop) and res is not None:
                return ("a cookie with mismatched algorithm/key sizes decodes", where)
    return None


# ---------------------------------------------------------------- Coq terms

def coq_case(case, out):
    if not out or out[0] in ("PANIC", "LOADFAIL") or len(out) != len(case["ops"]) + 1:
        # the model predicts a loadable init and no panic: express the disagreement as an impossible expectation
        exp = "[[(-99)%Z]]"
        out = None
    h = case["h"]
    if case["init"] is None:
        if out is None:
            return None
        _, _, k0 = parse_state(out[0])
        ks = "(new_keyset %s)" % B(k0[0] if k0 else b"")
    else:
        ini = case["init"]
        ks = "{| keys := %s; id_offset := %d; primary := %d |}" % (vplib.coq_list([B(k) for k in ini["keys"]]), ini["off"], ini["prim"])
    ops_t, table, exp_t = [], [], []
    if out is not None:
        o0 = parse_state(out[0])
        exp_t.append([1, o0[0], o0[1], len(o0[2])] + [Zb(k) for k in o0[2]])
        for o, tok in zip(case["ops"], out[1:]):
            if o[0] == "R":
                st = parse_state(tok)
                ops_t.append("OpRotate %s" % B(st[2][-1] if st[2] else b""))
                exp_t.append([1, st[0], st[1], len(st[2])] + [Zb(k) for k in st[2]])
            elif o[0] == "I":
                f = tok.split(":")
                if f[1] == "PANIC":
                    ops_t.append("OpIssue %d %s %s []" % (o[1], B(o[2]), B(o[3])))
                    exp_t.append([-2])
                else:
                    cookie, key, nonce, ct, pt = unhx(f[1]), unhx(f[2]), unhx(f[3]), unhx(f[4]), f[5]
                    if pt != "FAIL":
                        table.append("(%s, %s, %s, %s)" % (B(key), B(nonce), B(unhx(pt)), B(ct)))
                    ops_t.append("OpIssue %d %s %s %s" % (o[1], B(o[2]), B(o[3]), B(nonce)))
                    exp_t.append([2, len(cookie), Zb(cookie)])
            else:
                if o[0] == "D":
                    ops_t.append("OpDecode %d" % o[1])
                elif o[0] == "F":
                    ops_t.append("OpFlip %d %d %d" % (o[1], o[2], o[3]))
                elif o[0] == "T":
                    ops_t.append("OpTrunc %d %d" % (o[1], o[2]))
                elif o[0] == "P":
                    ops_t.append("OpPad %d %s" % (o[1], B(o[2])))
                else:
                    ops_t.append("OpRaw %s" % B(o[1]))
                r = parse_dec(tok)
                exp_t.append([4] if r is None else [3, r[0], len(r[1]), Zb(r[1]), len(r[2]), Zb(r[2])])
        exp = vplib.coq_list([vplib.coq_list([x if isinstance(x, str) else vplib.zlit(x) for x in l]) for l in exp_t])
    inp = "(%d%%nat, %s, %s, %s)" % (h, ks, vplib.coq_list(table) if table else "([] : aead_table)",
                                    vplib.coq_list(ops_t) if ops_t else "([] : list op)")
    return inp, exp


def main():
    c = vplib.Check("C26")
    c.run_gate()
    rng = c.rng
    quick = c.tier == "quick"
    cases = []
    # boundary: every history 0..5, new and restored key sets, windows of h+3 rotations
    for h in range(0, 6):
        for kind in ("new", "load"):
            cases.append(case_window(rng, h, gen_init(rng, h, kind), h + 3))
    # id_offset wrap-around: restored sets just below 2^32, rotated across the wrap
    for h in (0, 1, 3):
        for d in (1, 2, 3):
            ini = gen_file(rng, rng.randint(1, h + 2), M32 - d, 0)
            ini = gen_file(rng, len(ini["keys"]), M32 - d, len(ini["keys"]) - 1)
            cases.append(case_window(rng, h, ini, h + 4))
    # long rotation sequences
    for _ in range(2 if quick else 12):
        h = rng.randint(0, 5)
        cases.append(case_window(rng, h, gen_init(rng, h, rng.choice(["new", "load"])), rng.randint(20, 40)))
    # tampering: every byte position of a cookie of each algorithm (exhaustive positions), truncation at every length
    for k in range(2 if quick else 10):
        h = rng.randint(0, 3)
        cases.append(case_tamper(rng, h, gen_init(rng, h, rng.choice(["new", "load"])), True, 1 if quick else 3))
    for _ in range(20 if quick else 200):
        h = rng.randint(0, 5)
        cases.append(case_tamper(rng, h, gen_init(rng, h, rng.choice(["new", "load"])), False, 1))
    # random op mixes incl. malformed cookies and raw bytes
    for _ in range(120 if quick else 1500):
        h = rng.randint(0, 5)
        cases.append(case_random(rng, h, gen_init(rng, h, rng.choice(["new", "load"])), rng.randint(1, 40)))

    dist = {"cases": len(cases), "ops": {}, "history": {}, "init": {"new": 0, "load": 0}}
    for cs in cases:
        dist["history"][cs["h"]] = dist["history"].get(cs["h"], 0) + 1
        dist["init"]["new" if cs["init"] is None else "load"] += 1
        for o in cs["ops"]:
            dist["ops"][o[0]] = dist["ops"].get(o[0], 0) + 1
    outcome = {"decode_ok": 0, "decode_err": 0, "issued": 0, "rotations": 0}

    def nontrivial(case, out):
        ok = sum(1 for t in out if t.startswith("ok:"))
        er = sum(1 for t in out if t == "err")
        outcome["decode_ok"] += ok
        outcome["decode_err"] += er
        outcome["issued"] += sum(1 for t in out if t.startswith("C:"))
        outcome["rotations"] += sum(1 for t in out[1:] if t.startswith("S:"))
        return ok >= 1 and er >= 1

    c.cov["rule"] = ("op sequences on the real KeySetProvider (history 0-5; fresh or restored key sets incl. id_offset just below 2^32 and "
                     "non-last primary): cookies of both algorithms issued at every step and decoded at every later step across "
                     "windows of h+3..40 rotations; every byte position of a cookie overwritten, every truncation length, padding; "
                     "mismatched algorithm/key sizes; raw byte strings.  Non-trivial = at least one successful and one failing decode "
                     "in the case.  Every cookie byte string, key set state and decode result is compared with the model.")
    c.cov["exhaustive"] = False
    c.cov["distribution"] = dist

    vplib.correspondence(
        c, "ntp-proto", cases,
        line_of=line_of,
        coq_case_of=coq_case,
        preamble="From V Require Import Model.KeySet.\n",
        checker="mismatches llz_eqb run_c26",
        monitor=monitor,
        nontrivial=nontrivial,
        shard=25,
        key_of=lambda case: (case["h"], case["init"] is None, [op_token(o)[:60] for o in case["ops"]]),
        sample_of=lambda case, out: {"history": case["h"], "init": "new" if case["init"] is None else "restored(%d keys, id_offset %d, primary %d)" % (
            len(case["init"]["keys"]), case["init"]["off"], case["init"]["prim"]),
            "ops": [op_token(o)[:40] for o in case["ops"][:12]], "results": [t[:40] for t in out[:13]]},
    )
    c.cov["distribution"]["outcomes"] = outcome
    c.assumptions += [
        "AES-SIV is not modelled: theorems are closed over enc/dec with the premises aead_correct, aead_sound, aead_tag16, aead_bytes "
        "(facts of AES-SIV) and aead_key_separation / the `unforged` premise of C26_tamper (idealisation: forgery probability zero); "
        "satisfiable together (C26_hypotheses_satisfiable)",
        "confidentiality of the cookie content is the AEAD's and is not proved",
        "correspondence: the model's enc/dec is the table of encryptions verified by the harness with a fresh AesSivCmac512 instance; "
        "fresh keys and nonces are read back from the implementation (oracles)",
        "hand-written model coq/Model/KeySet.v (rotate, encode_cookie, decode_cookie); panic-site census in coq/Gen/ConstKeyset.v",
        "NoDup keys (C26_tamper): fresh random 512-bit keys are distinct",
    ]
    return c.finish()


MANIFEST = {
    "claimed": True,
    "text": "Theorems (Coq, for every enc/dec satisfying the stated AEAD premises, every key set, cookie, nonce, history incl. 0, "
            "every list of fresh keys with fewer than 2^32 keys in total): C26_roundtrip (decode(encode c) = c for every key set with a "
            "valid primary); C26_window / C26_window_any_primary (a cookie issued after |fs1| rotations decodes to its content after "
            "|fs2| more rotations iff |fs2| <= history, and gives DecryptError otherwise - an equation, both directions; also for restored "
            "sets whose primary is not the newest key); C26_decodes_only_genuine (whatever decodes is, within its declared length, byte for "
            "byte the encoding under a current key of what it decodes to); C26_tamper (any byte string differing from an issued cookie "
            "within its length - modified, truncated - is rejected, provided it carries no forged ciphertext: the INT-CTXT premise "
            "`unforged`; so changes of the unauthenticated id and length fields and of the nonce are always caught); C26_foreign (cookies "
            "under a key not in the set are rejected, needs the key-separation idealisation); C26_newest_key / C26_new_is_newest (after "
            "every rotation primary = last = the key just generated and encode_cookie encrypts under it); C26_decode_total, "
            "C26_encode_panic_iff (decode never panics; encode panics iff primary does not index a key). The model is tied on every run to "
            "KeySetProvider::{new,load,rotate} and KeySet::{encode_cookie,decode_cookie}: every state, every cookie byte string and every "
            "decode result of generated op sequences (windows, all byte positions overwritten, all truncations, id_offset wrap) must match.",
    "note": "Trusted: Coq kernel + vm_compute; hand-written model coq/Model/KeySet.v; harness + python driver. AES-SIV is NOT modelled: "
            "aead_correct, aead_sound, aead_tag16, aead_bytes are facts of a deterministic tag-recomputing AEAD, aead_key_separation and the "
            "`unforged` premise of C26_tamper are the idealisation 'forgery probability zero' (premises in the statements, jointly satisfiable: "
            "C26_hypotheses_satisfiable; no Axiom). Confidentiality of the cookie content is the AEAD's and is not proved. C26_tamper needs "
            "distinct keys (NoDup). In the correspondence the model's enc/dec is the table of encryptions that the harness verified with a "
            "fresh AesSivCmac512 instance; fresh keys and nonces are oracles read back from the implementation. Print Assumptions: closed "
            "under the global context for every theorem.",
    "design_ref": "DESIGN.md 3 C26",
}
