"""C20: rate limiting.  Model: coq/Model/RateCache.v (+ the position of the cache in coq/Model/Server.v);
theorems: coq/Props/C20.v; tie: TimestampedCache::{new,index,is_allowed} with explicit instants and
Server::handle sequences (simulated elapsed time) through harness/ntp-proto/c20.rs."""
from tools import vplib
from tools.props import p2a_common as P

MIN = P.MIN


def gen_cache_case(rng, tier):
    n = rng.choice([0, 1, 1, 2, 2, 3, 3, 8])
    cutoff = rng.choice([0, 1, 1000, 10 ** 6, 10 ** 9, 3600 * 10 ** 9])
    ips = rng.sample(P.POOL, rng.randint(1, min(6, 2 + n)))
    calls, t = [], rng.choice([0, 0, 5, 10 ** 9])
    for _ in range(rng.randint(1, 14 if tier == "quick" else 40)):
        ip = rng.choice(ips)
        k = rng.random()
        if k < 0.45 and cutoff > 0:
            dt = cutoff + rng.choice([-1, 0, 1])              # boundary: cutoff - 1 ns, cutoff, cutoff + 1 ns
        elif k < 0.6:
            dt = 0
        elif k < 0.7:
            dt = -rng.randint(1, max(1, cutoff))               # the instant goes backwards: duration_since saturates
        else:
            dt = rng.randint(0, 2 * cutoff + 2)
        t = max(0, t + dt)
        calls.append((ip, t))
    return {"kind": "cache", "n": n, "cutoff": cutoff, "calls": calls}


def cache_line(c):
    return "cache %d %d %d " % (c["n"], c["cutoff"], len(c["calls"])) + " ".join("%s %d" % x for x in c["calls"])


def parse_cache(case, out):
    k = len(case["calls"])
    slots = [int(out[2 * i]) for i in range(k)]
    oks = [int(out[2 * i + 1]) for i in range(k)]
    assert out[2 * k] == "F"
    final = out[2 * k + 1:]
    return slots, oks, final


def gen_server_seq(rng, tier):
    cfg = P.gen_cfg(rng, cache=rng.choice([0, 1, 1, 2, 3, 8]), cutoff=rng.choice([0, 60 * MIN, 60 * MIN, 2 * MIN]))
    cfg["require_nts"] = rng.choice("nnni")
    # most clients pass the lists; a few are denied or not allowed (they must never reach the cache)
    if rng.random() < 0.5:
        cfg["deny"], cfg["allow"] = rng.sample(["1.2.4.4/32", "2001:db8:1::/48", "10.0.0.0/8"], rng.randint(0, 2)), ["0.0.0.0/0", "::/0"]
    ips = rng.sample(P.POOL, rng.randint(1, 5))
    ops = []
    for _ in range(rng.randint(2, 10 if tier == "quick" else 25)):
        cut = cfg["cutoff"]
        age = rng.choice([0, 0, MIN, cut - MIN if cut > MIN else 0, cut, cut + MIN, 2 * cut])
        o = P.gen_op(rng, ip=rng.choice(ips), base=P.gen_base(rng, rng.choice(["plain", "plain", "nts", "raw", "badnts"])),
                     clean=rng.random() < 0.6, age=age)
        ops.append(o)
    return {"kind": "srv", "cfg": cfg, "ops": ops}


def monitor(case, out):
    if out and out[0] == "PANIC":
        return ("panic: " + " ".join(out[1:])[:200], {"case": str(case)[:2000]})
    if case["kind"] == "srv":
        return P.monitor_c20_server(case, out)
    slots, oks, _ = parse_cache(case, out)
    calls = [(P.addr_id(ip), s, t) for (ip, t), s in zip(case["calls"], slots)]
    want = P.expected_rate_verdicts(calls, case["n"], case["cutoff"])
    for k, (w, ok) in enumerate(zip(want, oks)):
        if w != (ok == 0):
            ip, t = case["calls"][k]
            return ("call %d (%s at %d ns) is %s, but the most recent earlier call on its slot says %s (size %d, cutoff %d ns)" % (
                k, ip, t, "allowed" if ok else "refused", "refuse" if w else "allow", case["n"], case["cutoff"]),
                {"calls": case["calls"], "size": case["n"], "cutoff_ns": case["cutoff"], "slots": slots})
    return None


def main():
    c = vplib.Check("C20")
    c.run_gate()
    rng = c.rng
    quick = c.tier == "quick"
    cases = []
    # corpus: the boundary walk of the non-vacuity example and a refused-then-wait sequence
    cases.append({"kind": "cache", "n": 1, "cutoff": 10, "calls": [("1.2.3.4", 0), ("1.2.3.4", 9), ("1.2.3.4", 18), ("1.2.3.4", 28), ("::1", 29), ("1.2.3.4", 30)]})
    cases.append({"kind": "cache", "n": 0, "cutoff": 10 ** 9, "calls": [("1.2.3.4", 0), ("1.2.3.4", 0)]})
    for _ in range(1200 if quick else 8000):
        cases.append(gen_cache_case(rng, c.tier))
    for _ in range(500 if quick else 2500):
        cases.append(gen_server_seq(rng, c.tier))

    rp = P.replay_tokens()
    if rp is not None:
        cases = []
        if rp and rp[0] == "srv":
            cases = [P.scenario_of_line(rp)]
        elif rp and rp[0] == "cache":
            k = int(rp[3])
            cases = [{"kind": "cache", "n": int(rp[1]), "cutoff": int(rp[2]),
                      "calls": [(rp[4 + 2 * i], int(rp[5 + 2 * i])) for i in range(k)]}]

    def line(case):
        return cache_line(case) if case["kind"] == "cache" else P.line_of(case)

    stats = {"cache_cases": 0, "server_sequences": 0, "calls": 0, "refused": 0, "slot_collisions_other_address": 0,
             "server_ops": 0, "server_rate_limited": 0, "server_not_passing_lists": 0}

    def coq_case(case, out):
        z = vplib.zlit
        if out and out[0] == "PANIC":
            return None
        if case["kind"] == "cache":
            slots, oks, final = parse_cache(case, out)
            stats["cache_cases"] += 1
            stats["calls"] += len(oks)
            stats["refused"] += oks.count(0)
            seen = {}
            for (ip, _), s in zip(case["calls"], slots):
                if s in seen and seen[s] != ip:
                    stats["slot_collisions_other_address"] += 1
                seen[s] = ip
            tbl = sorted({(P.addr_id(ip), s) for (ip, _), s in zip(case["calls"], slots) if s >= 0})
            inp = "(%s, %s, %s, %s)" % (
                z(case["n"]), z(case["cutoff"]),
                vplib.coq_list(["(%s, %s)" % (z(a), z(s)) for a, s in tbl]),
                vplib.coq_list(["(%s, %s)" % (z(P.addr_id(ip)), z(t)) for ip, t in case["calls"]]))
            fin = []
            for f in final:
                if f == "-":
                    fin.append("((-1)%Z, (-1)%Z)")
                else:
                    ip, t = f.rsplit("@", 1)
                    fin.append("(%s, %s)" % (z(P.addr_id(ip)), z(int(t))))
            outp = "(%s, %s)" % (vplib.coq_list([z(x) for x in oks]), vplib.coq_list(fin))
            return "(ic %s)" % inp, "(oc %s)" % outp
        ops = P.parse_ops(out)
        stats["server_sequences"] += 1
        stats["server_ops"] += len(ops)
        stats["server_rate_limited"] += sum(1 for d in ops if any(g[2] == 0 for g in d["regs"]))
        stats["server_not_passing_lists"] += sum(1 for d in ops if d["in_deny"] or not d["in_allow"])
        inp, outp = P.model_terms(case, ops)
        return "(is_ %s)" % inp, "(os %s)" % outp

    preamble = ("From V Require Import Model.RateCache Model.Server.\n"
                "Definition in_c : Type := (Z * Z * list (Z * Z) * list (Z * Z))%type.\n"
                "Definition in_s : Type := (list Z * list Z * list (Z * Z) * list (list Z))%type.\n"
                "Definition out_c : Type := (list Z * list (Z * Z))%type.\n"
                "Definition out_s : Type := list (list Z).\n"
                "Definition ic (x : in_c) : in_c + in_s := inl x.\n"
                "Definition is_ (x : in_s) : in_c + in_s := inr x.\n"
                "Definition oc (x : out_c) : out_c + out_s := inl x.\n"
                "Definition os (x : out_s) : out_c + out_s := inr x.\n"
                "Definition sc_in (c a : list Z) (t : list (Z * Z)) (o : list (list Z)) : in_s := (c, a, t, o).\n"
                "Definition sc_out (x : list (list Z)) : out_s := x.\n"
                "Definition run_either (i : in_c + in_s) : out_c + out_s :=\n"
                "  match i with inl x => inl (cache_run x) | inr y => inr (scenario_run y) end.\n"
                "Definition either_eqb (a b : out_c + out_s) : bool :=\n"
                "  match a, b with inl x, inl y => cache_out_eqb x y | inr x, inr y => zll_eqb x y | _, _ => false end.\n")
    vplib.correspondence(
        c, "ntp-proto", cases, line_of=line, coq_case_of=coq_case, preamble=preamble,
        checker="mismatches either_eqb run_either", monitor=monitor,
        nontrivial=lambda case, out: (len(case["calls"]) >= 2 and case["n"] > 0) if case["kind"] == "cache"
        else (len(case["ops"]) >= 2 and case["cfg"]["cache"] > 0),
        sample_of=lambda case, out: {"input": line(case)[:400], "implementation": " ".join(out)[:300]},
        shard=250,
    )
    c.cov["rule"] = ("(a) TimestampedCache::is_allowed histories with explicit instants: sizes {0,1,2,3,8}, cutoffs {0,1ns,1us,1ms,1s,1h}, "
                     "1-6 addresses (so slots collide), inter-arrival times at cutoff-1ns/cutoff/cutoff+1ns, zero, backwards and random; "
                     "compared: every verdict and the final cache contents, with the slot of every address read back through `index`; "
                     "(b) Server::handle sequences (2-10 datagrams, plain/NTS/malformed, allowed/denied clients) with time simulated by "
                     "back-dating the cache entries in whole minutes; compared: answer kind and the statistics registration of every "
                     "datagram.  Non-trivial: cache enabled and at least two calls; distinct = distinct input lines")
    c.cov["distribution"] = stats
    c.assumptions += [
        "model of TimestampedCache written by hand (coq/Model/RateCache.v); addresses numbered injectively, Instant/Duration as integer nanoseconds",
        "the hash (RandomState) is an argument of the model; per case it is the table of slots the implementation reported through `index`",
        "server sequences: elapsed time is simulated by back-dating cache entries (only differences of instants are observable); "
        "real elapsed time between two calls is assumed below one minute",
    ]
    return c.finish()


MANIFEST = {
    "claimed": True,
    "text": "Theorems (Coq, closed): over EVERY history of (address, instant) calls, every hash function of the cache (RandomState is a universally quantified function argument), every size and cutoff: a call is refused iff the cache is enabled and the most recent earlier call on the same slot (hash mod size) was made by the same address less than the cutoff before, with the saturating duration_since (C20_refused_iff; every call overwrites its slot); corollaries: refused only if the client's own most recent earlier request was within the cutoff (C20_own_rate_only), refused whenever it was and no other address used the slot in between (C20_must_limit), never refused with size 0 (C20_size_zero), no panic (C20_total). Position in the server policy, on the decision model of Server::handle: clients on the deny list or off the allow list never touch the cache and are never rate-limited (C20_position_lists_first); a list-passing datagram makes exactly one is_allowed call whatever it contains, and a refusal sends nothing and registers RateLimit/Ignore (C20_position); over any history of datagrams through one server the cache sees exactly the list-passing sub-history (C20_position_history) and a datagram is rate-limited iff the characterisation above holds on that sub-history (C20_server_refused_iff). Tie: TimestampedCache::is_allowed with explicit instants (slots read back through the private `index`), verdicts and final cache contents compared; Server::handle sequences with simulated time.",
    "note": "Trusted: Coq kernel+vm_compute; hand-written models coq/Model/RateCache.v and coq/Model/Server.v (addresses numbered injectively, Instant/Duration as integer nanoseconds); harness + python driver; in Server::handle sequences elapsed time is simulated by back-dating the cache entries (only differences of instants are observable; real elapsed time between calls assumed < 1 min, boundaries at +-1 ns are exercised on is_allowed directly). The cache keys on the address as given (an IPv4-mapped and the plain IPv4 address are different keys) while the lists canonicalise: modelled as is. Print Assumptions: closed under the global context for all nine theorems.",
    "design_ref": "DESIGN.md 3 C20",
}
