"""Packet grammar for the NTP codec checks (C23, C24, C25): NTPv3/v4/v5 headers, extension
fields of every kind and size class, MACs, NTS authenticator fields with a driver-chosen decrypt
table, and the malformed streams (truncations, bit flips, length-field lies).  Everything is
derived from the rng handed in (seeded by VERIF_SEED)."""

T_UID, T_COOKIE, T_PLACEHOLDER, T_ENC = 0x104, 0x204, 0x304, 0x404
T_DRAFT, T_PADDING, T_REFREQ, T_REFRESP = 0xF5FF, 0xF501, 0xF503, 0xF504
KNOWN = [T_UID, T_COOKIE, T_PLACEHOLDER, T_DRAFT, T_PADDING, T_REFREQ, T_REFRESP]
DRAFT = list(b"draft-ietf-ntp-ntpv5-09")
SIZES = [0, 0, 1, 2, 3, 4, 5, 8, 12, 16, 20, 24, 28, 32, 36, 100]


def be(n, v):
    return list(int(v).to_bytes(n, "big"))


def rbytes(rng, n, zero_bias=0.0):
    if zero_bias and rng.random() < zero_bias:
        return [0] * n
    return [rng.randrange(256) for _ in range(n)]


def u32(rng):
    return rng.choice([0, 1, 0xFFFFFFFF, 0x80000000, rng.getrandbits(32), rng.getrandbits(16)])


def header34(rng, version, mode=None):
    leap = rng.randrange(4)
    mode = rng.randrange(8) if mode is None else mode
    h = [(leap << 6) | (version << 3) | mode, rng.randrange(256), rng.randrange(256), rng.randrange(256)]
    h += be(4, u32(rng)) + be(4, u32(rng)) + rbytes(rng, 4)
    for _ in range(4):
        h += rbytes(rng, 8, 0.2)
    return h


def header5(rng, valid=True):
    leap = rng.randrange(4)
    mode = rng.choice([3, 4]) if valid or rng.random() < 0.5 else rng.randrange(8)
    h = [(leap << 6) | (5 << 3) | mode, rng.randrange(256), rng.randrange(256), rng.randrange(256)]
    h += be(4, u32(rng)) + be(4, u32(rng))
    ts = rng.randrange(4) if valid or rng.random() < 0.5 else rng.randrange(256)
    f0 = 0 if valid or rng.random() < 0.5 else rng.randrange(256)
    f1 = rng.randrange(8) if valid or rng.random() < 0.5 else rng.randrange(256)
    h += [ts, rng.randrange(256), f0, f1]
    for _ in range(4):
        h += rbytes(rng, 8, 0.2)
    return h


def wire_field(tid, body, v5, length=None):
    """one extension field on the wire; v4: length field = padded length, v5: unpadded"""
    pad = (-len(body)) % 4
    if length is None:
        length = 4 + len(body) + (0 if v5 else pad)
    return be(2, tid) + be(2, length & 0xFFFF) + list(body) + [0] * pad


def body_of_kind(rng, kind, v5, size=None):
    size = rng.choice(SIZES) if size is None else size
    if kind == "uid":
        return T_UID, rbytes(rng, size)
    if kind == "cookie":
        return T_COOKIE, rbytes(rng, size)
    if kind == "placeholder":
        b = [0] * size
        if size and rng.random() < 0.15:
            b[rng.randrange(size)] = rng.randrange(1, 256)
        return T_PLACEHOLDER, b
    if kind == "draft":
        r = rng.random()
        if r < 0.75:
            return T_DRAFT, list(DRAFT)
        if r < 0.85:
            return T_DRAFT, list(DRAFT) + [0] * rng.randrange(1, 4)
        if r < 0.95:
            return T_DRAFT, [rng.randrange(128) for _ in range(size)]
        return T_DRAFT, rbytes(rng, max(size, 1))
    if kind == "padding":
        return T_PADDING, [0] * size
    if kind == "refreq":
        n = rng.choice([0, 1, 2, 3, 4, 5, 6, 7, 8, 12, 16, 64, 512, size])
        return T_REFREQ, (be(2, rng.choice([0, 4, 500, 512, 65535])) + rbytes(rng, 600, 0.5))[:n]
    if kind == "refresp":
        return T_REFRESP, rbytes(rng, size)
    if kind == "unknown":
        tid = rng.choice([0, 1, 0x103, 0x105, 0x8104, 0xFFFF, rng.getrandbits(16)])
        if tid in KNOWN or tid == T_ENC:
            tid = 0x2A
        return tid, rbytes(rng, size)
    raise ValueError(kind)


KINDS = ["uid", "cookie", "placeholder", "draft", "padding", "refreq", "refresp", "unknown"]


def plain_fields(rng, v5, n=None, kinds=None):
    """list of (tid, body) of non-authenticator fields"""
    n = rng.choice([0, 1, 1, 2, 2, 3, 4, 6]) if n is None else n
    fs = []
    for _ in range(n):
        k = rng.choice(kinds or KINDS)
        fs.append(body_of_kind(rng, k, v5))
    return fs


def authenticator(rng, aad, v5, table, inner=None, nonce_len=None, lie=True):
    """an NTS authenticator field whose (nonce, aad, ct) is in the decrypt table (or not)"""
    nl = rng.choice([0, 1, 8, 15, 16, 16, 16, 17, 32]) if nonce_len is None else nonce_len
    nonce = rbytes(rng, nl)
    if inner is None:
        r = rng.random()
        if r < 0.6:
            inner = sum([wire_field(t, b, v5) for t, b in plain_fields(rng, v5)], [])
        elif r < 0.7:
            inner = wire_field(T_ENC, rbytes(rng, 8), v5)              # nested authenticator: malformed
        elif r < 0.8:
            inner = sum([wire_field(t, b, v5) for t, b in plain_fields(rng, v5)], [])
            inner = inner[:rng.randrange(len(inner) + 1)]               # truncated plaintext
        elif r < 0.9:
            inner = rbytes(rng, rng.choice([1, 3, 4, 7, 8, 16]))
        else:
            inner = []
    ct = rbytes(rng, len(inner) + 16)
    cl = len(ct)
    nl_field, cl_field = nl, cl
    if lie and rng.random() < 0.12:
        nl_field = rng.choice([nl + 1, max(nl - 1, 0), 65535, 65533, nl + 4])
    if lie and rng.random() < 0.12:
        cl_field = rng.choice([cl + 1, max(cl - 1, 0), 65535, cl + 4, 0])
    body = be(2, nl_field) + be(2, cl_field) + nonce + [0] * ((-nl) % 4) + ct + [0] * ((-cl) % 4)
    if rng.random() < 0.1:
        body += [0] * 4 * rng.randrange(1, 3)                           # extra padding inside the field
    if rng.random() < 0.85:
        table.append((list(nonce), list(aad), list(ct), list(inner)))
    return T_ENC, body


def mac(rng):
    r = rng.random()
    if r < 0.45:
        return []
    if r < 0.85:
        return rbytes(rng, rng.choice([4, 8, 20, 24, rng.randrange(4, 25)]))
    return rbytes(rng, rng.choice([1, 2, 3, 25, 26, 27, 28, 30, 40]))


def packet(rng, version=None, nts=False, valid_header=True):
    """returns (bytes, table, field offsets [(offset, wire length)])"""
    version = rng.choice([3, 4, 4, 4, 5, 5, 5]) if version is None else version
    table = []
    offs = []
    if version == 3:
        b = header34(rng, 3)
        b += mac(rng)
        return b, table, offs
    v5 = version == 5
    b = header5(rng, valid_header or rng.random() < 0.3) if v5 else header34(rng, 4)
    fs = plain_fields(rng, v5)
    if v5 and rng.random() < 0.85:
        fs.insert(rng.randrange(len(fs) + 1), (T_DRAFT, list(DRAFT)))
    pos_auth = None
    if nts:
        pos_auth = rng.randrange(len(fs) + 1)
    i = 0
    for k in range(len(fs) + 1):
        if pos_auth == k:
            t, body = authenticator(rng, b, v5, table)
            w = wire_field(t, body, v5)
            offs.append((len(b), len(w)))
            b += w
            if rng.random() < 0.15:                                     # a second authenticator
                t, body = authenticator(rng, b, v5, table)
                w = wire_field(t, body, v5)
                offs.append((len(b), len(w)))
                b += w
        if k < len(fs):
            t, body = fs[k]
            w = wire_field(t, body, v5)
            offs.append((len(b), len(w)))
            b += w
    if not v5:
        b += mac(rng)
    elif rng.random() < 0.1:
        b += rbytes(rng, rng.choice([1, 2, 3, 4, 20]))
    return b, table, offs


def mutate(rng, b, offs):
    """one malformed variant of b: truncation, bit flip, length-field lie, or trailing junk"""
    b = list(b)
    r = rng.random()
    if r < 0.3 and b:
        return b[:rng.randrange(len(b))], "truncate"
    if r < 0.6 and b:
        i = rng.randrange(len(b))
        b[i] ^= 1 << rng.randrange(8)
        return b, "bitflip"
    if r < 0.9 and offs:
        o, w = rng.choice(offs)
        cur = (b[o + 2] << 8) | b[o + 3]
        new = rng.choice([cur + 1, cur - 1, cur + 4, cur - 4, 0, 3, 4, 5, 65535, 65532, len(b) - o, len(b) - o + 1,
                          len(b) - o - 24, len(b) - o - 25]) & 0xFFFF
        b[o + 2], b[o + 3] = new >> 8, new & 255
        return b, "lenlie"
    return b + rbytes(rng, rng.choice([1, 3, 4, 23, 24, 25, 28])), "append"


def hexs(b):
    return bytes(b).hex() if b else "-"


REP_DEF = "Definition rep (x n : Z) : list Z := repeat x (Z.to_nat n).\n"


def coq_nums(b, minrun=200):
    """a Coq list term for a list of numbers; long constant runs become `rep v n` (the preamble must
    contain REP_DEF): Coq cannot parse list literals of several 10^4 elements"""
    b = [int(x) for x in b]
    parts, cur, i, n = [], [], 0, len(b)
    while i < n:
        j = i
        while j < n and b[j] == b[i]:
            j += 1
        if j - i >= minrun:
            if cur:
                parts.append("[" + ";".join(map(str, cur)) + "]")
                cur = []
            parts.append("rep %d %d" % (b[i], j - i))
        else:
            cur.extend(b[i:j])
        i = j
    if cur or not parts:
        parts.append("[" + ";".join(map(str, cur)) + "]")
    return parts[0] if len(parts) == 1 else "(" + " ++ ".join(parts) + ")"


def coq_bytes(b):
    return coq_nums(b)


def _walk_has_odd_refreq(b, start):
    o = start
    while o + 4 <= len(b):
        tid = (b[o] << 8) | b[o + 1]
        l = (b[o + 2] << 8) | b[o + 3]
        if l < 4 or o + (l + 3) // 4 * 4 > len(b):
            return False
        if tid == T_REFREQ and l - 4 >= 2 and (l - 4) % 4 != 0:
            return True
        o += (l + 3) // 4 * 4
    return False


def in_c24_class(data, plaintexts=()):
    """the confirmed C24 defect class (DESIGN.md section 4 row 4): an NTPv5 datagram in which the decoder
    meets a reference-id request whose payload length is >= 2 and not a multiple of 4 (also inside a
    decrypted plaintext).  The repaired decoder (branch fix-c24) rejects it, the unrepaired one accepts it;
    C23 and C25 do not compare the model on this class so that they hold on both trees (C24 does)."""
    if len(data) < 48 or ((data[0] >> 3) & 7) != 5:
        return False
    if _walk_has_odd_refreq(data, 48):
        return True
    return any(_walk_has_odd_refreq(list(p), 0) for p in plaintexts)
