"""C29: pool key-exchange requests require a configured token.
Model: coq/Model/NtsKe.v (handle_new, lt_step, longterm, serve) on top of the C30 parser model;
theorems: coq/Props/C29.v; tie: the real KeyExchangeServer::handle_connection / handle_longterm over an
in-memory TLS session (tokio duplex + rustls, the repository's test keys) against a scripted client
(harness/ntp-proto/c29.rs + ntske_common.rs)."""
from tools import vplib
from tools.props import c30 as g
from tools.props import n2ke as k


def gen_first(rng, kind, auth, ka):
    if kind == "fixed":
        alg = rng.choice([15, 17])
        return k.req_fixed(auth, alg=alg, proto=rng.choice([0, 0x8001, 1]), ka=ka, rng=rng)
    if kind == "support":
        w = rng.choice([(True, True), (True, False), (False, True)])
        return k.req_support(auth, wp=w[0], wa=w[1], ka=ka)
    return k.req_ke(rng.choice([[0], [0x8001, 0], [0x8001]]), rng.choice([[15], [17, 15]]))


def follow_up(rng, kind, auth):
    if kind == "ke":
        return k.req_ke([0x8001, 0], [17, 15]), {"kind": "ke"}
    if kind == "fixed":
        ka = rng.random() < 0.6
        return k.req_fixed(auth, alg=rng.choice([15, 17]), ka=ka, rng=rng), {"kind": "fixed", "ka": ka}
    if kind == "support":
        ka = rng.random() < 0.6
        return k.req_support(auth, wp=rng.random() < 0.7, wa=True, ka=ka), {"kind": "support", "ka": ka}
    if kind == "garbage":
        return g.rand_message(rng, "req"), {"kind": "other"}
    return b"", {"kind": "none"}


def build_cases(c):
    rng = c.rng
    thorough = c.tier == "thorough"
    cases = []
    # 1. the decision matrix: kind x token relation x keep-alive x permit x what follows on the connection
    for kind in ("fixed", "support"):
        for rel in ("match", "second", "other", "prefix", "none-configured", "empty-configured-empty-sent"):
            for ka in (False, True):
                for permit in (0, 1):
                    for nxt in ("none", "ke", "fixed", "support"):
                        if rel == "match":
                            tokens, auth = ["hi"], b"hi"
                        elif rel == "second":
                            tokens, auth = ["hi", "pool-token-123", "tökén"], "tökén".encode()
                        elif rel == "other":
                            tokens, auth = ["hi", "pool-token-123"], b"Hi"
                        elif rel == "prefix":
                            tokens, auth = ["hi"], rng.choice([b"h", b"hi ", b"hih", b""])
                        elif rel == "none-configured":
                            tokens, auth = [], b"hi"
                        else:
                            tokens, auth = [""], b""
                        first = gen_first(rng, kind, auth, ka)
                        second, m2 = follow_up(rng, nxt, auth)
                        third = k.req_ke([0], [15]) if rng.random() < 0.3 else b""
                        meta = {"first": {"kind": kind, "auth": auth.hex(), "ka": ka}, "second": m2}
                        cases.append(k.srv_case(rng.choice(["4", "45", "54", "5"]), tokens, first + second + third, permit,
                                                server=rng.choice([None, None, "time.example.com"]),
                                                port=rng.choice([None, None, 4460]), meta=meta))
    n_matrix = len(cases)
    # 2. plain key exchange first (never kept open), then anything
    for _ in range(40 if not thorough else 300):
        first = gen_first(rng, "ke", b"", False)
        second, m2 = follow_up(rng, rng.choice(["ke", "fixed", "support", "none"]), b"hi")
        cases.append(k.srv_case(rng.choice(["4", "45", "5", "3", ""]), rng.choice([[], ["hi"]]), first + second, rng.randint(0, 1),
                                meta={"first": {"kind": "ke"}, "second": m2}))
    # 3. malformed / mutated first requests and long keep-alive conversations
    for _ in range(120 if not thorough else 1500):
        tokens = rng.choice([[], ["hi"], ["hi", "pool-token-123"], [""]])
        auth = rng.choice([b"hi", b"pool-token-123", b"", b"nope"])
        kind = rng.random()
        if kind < 0.4:
            stream = g.rand_message(rng, "req")
            meta = {}
        else:
            first = gen_first(rng, rng.choice(["fixed", "support"]), auth, True)
            parts, metas = [first], []
            for _ in range(rng.randint(0, 4)):
                b, m = follow_up(rng, rng.choice(["fixed", "support", "support", "fixed", "ke", "garbage"]), auth)
                parts.append(b)
                metas.append(m)
            stream = b"".join(parts)
            if rng.random() < 0.15:
                stream = stream[:rng.randint(0, len(stream))]
            meta = {}
        cases.append(k.srv_case(rng.choice(["4", "45", "54"]), tokens, stream, rng.randint(0, 1), meta=meta))
    # 4. boundary streams: empty, unknown critical record, oversized request
    for tokens in ([], ["hi"]):
        cases.append(k.srv_case("4", tokens, b"", 1))
        cases.append(k.srv_case("4", tokens, g.rec(99, b"", 1) + g.rec(0, b""), 1))
        cases.append(k.srv_case("4", tokens, g.rec(15, bytes(4200), 0) + k.req_fixed(b"hi", ka=True), 1))
        cases.append(k.srv_case("4", tokens, k.req_fixed(b"hi", keylen=31, ka=True), 1))
        cases.append(k.srv_case("4", tokens, k.req_fixed(b"hi", alg=16, ka=True), 1))
    return cases, n_matrix


def monitor(case, out):
    """the property statement on one implementation run (independent of the Coq model)"""
    if out and out[0] in ("PANIC", "TIMEOUT"):
        return ("key-exchange server %s on request stream" % out[0], {})
    tbl, ints = k.split_out(case, out)
    hc, asked, lt = ints[0], ints[1], ints[2]
    msgs = k.messages(k.parse_items(ints[3:]))
    meta = case.get("meta") or {}
    first = meta.get("first") or {}
    if hc == 1 and not case["permit"]:
        return ("connection kept open although no long-lived connection slot was available", {})
    if first.get("kind") in ("fixed", "support"):
        configured = first["auth"] in case["tokens"]
        if not configured:
            if hc == 1 or len(msgs) != 1 or not k.is_bad_request(msgs[0]) or any(k.has_cookie(m) for m in msgs):
                return ("%s request with a token that is not configured was not answered by a bare bad-request error "
                        "(handle_connection result code %d, %d messages, cookies issued: %s)"
                        % (first["kind"], hc, len(msgs), any(k.has_cookie(m) for m in msgs)), {"class": "tokenless-served"})
        else:
            want_kept = bool(first["ka"]) and bool(case["permit"])
            if (hc == 1) != want_kept:
                return ("%s request with a configured token, keep-alive asked=%s, slot available=%s: connection kept open=%s"
                        % (first["kind"], first["ka"], bool(case["permit"]), hc == 1), {})
            if msgs and k.has_keep_alive(msgs[0]) != (hc == 1):
                return ("keep-alive record in the response does not say whether the connection is kept open", {})
            if not msgs or k.is_bad_request(msgs[0]):
                return ("%s request with a configured token was refused" % first["kind"], {})
        if hc == 1 and (meta.get("second") or {}).get("kind") == "ke":
            if len(msgs) < 2 or not k.is_bad_request(msgs[1]) or len(msgs) > 2 or lt != 103:
                return ("plain key-exchange request on a kept-open connection was not refused with bad request and close "
                        "(longterm result %d, %d messages)" % (lt, len(msgs)), {})
    if first.get("kind") == "ke" and hc == 1:
        return ("plain key-exchange request led to a kept-open connection", {})
    return None


def main():
    c = vplib.Check("C29")
    c.run_gate()
    cases, n_matrix = build_cases(c)
    cases = vplib.replay_cases() or cases
    stats = {"kept_open": 0, "rejected_not_permitted": 0, "served_closed": 0, "other": 0}

    def nontrivial(case, out):
        if out and out[0] in ("PANIC", "TIMEOUT"):
            return True
        ints = [int(x) for x in out[8:11]]
        if ints[0] == 1:
            stats["kept_open"] += 1
        elif ints[0] == 112:
            stats["rejected_not_permitted"] += 1
        elif ints[0] == 0:
            stats["served_closed"] += 1
        else:
            stats["other"] += 1
        return len(out) > 11     # the server wrote at least one record

    vplib.correspondence(
        c, "ntp-proto", cases, line_of=k.line_of, coq_case_of=k.coq_case_of, preamble=k.PREAMBLE, checker=k.CHECKER,
        monitor=monitor, nontrivial=nontrivial, shard=max(1, -(-len(cases) // vplib.NCPU)),
        sample_of=lambda case, out: {"tokens": case["tokens"], "permit": case["permit"], "meta": case.get("meta"),
                                     "stream_len": len(case["stream"]) // 2, "result": " ".join(out[8:11])},
    )
    c.cov["distribution"] = {"decision_matrix": n_matrix, "total": len(cases), "outcomes": stats}
    c.cov["rule"] = ("decision matrix {fixed-key, support} x 6 token relations x keep-alive asked x slot available x 4 follow-up "
                     "requests, plain key exchanges first, mutated/malformed streams and long keep-alive conversations, all through "
                     "the real TLS server; compared with the model: handle_connection result, permit closure called, handle_longterm "
                     "result, every record the client received (cookies decoded with the key set).  Non-trivial = the server wrote "
                     "at least one record")
    c.assumptions += [
        "hand-written model coq/Model/NtsKe.v (handle_new, lt_step, longterm) over the C30 request parser model; tied by the correspondence above",
        "TLS is abstracted to the byte stream of the client (sending side closed at the end) and the exporter oracle (values read from the session by the harness); handshake failures and transport errors other than EOF are outside the model",
        "cookies are compared after decoding with the key set (C26): algorithm and the two keys",
    ]
    return c.finish()


MANIFEST = {
    "claimed": True,
    "text": 'Theorems (Coq, every configuration, token list, permit availability and every outcome of the request parser): a fixed-key or supported-parameters request on a new connection whose token is not configured is answered with exactly [Error(BadRequest); EndOfMessage], no cookie, connection closed with NotPermitted, permit not asked (C29_token_required, C29_rejection_shape, C29_served_only_with_token, C29_connection_without_token on byte streams); the connection is kept open iff the request is a pool request with a configured token that asked for keep-alive and a slot was available, the slot is asked for iff token and wish are present, and the response carries a keep-alive record iff the connection is kept (C29_kept_open_iff, an iff over ALL parser outcomes); a plain key-exchange request on a kept-open connection is answered bad-request and ends handle_longterm with Invalid (C29_no_plain_on_longterm, _stream). Tie: the real handle_connection/handle_longterm over an in-memory TLS session against a scripted client, all records received by the client (cookies decoded) and both results compared with the model.',
    "note": "Trusted: Coq kernel+vm_compute; hand-written model coq/Model/NtsKe.v (handle_new, lt_step, longterm, serve) over the C30 parser model; TLS abstracted to the client's byte stream (sending side closed at the end) and an exporter oracle whose values the harness reads from the session; handshake/transport failures other than EOF outside the model; cookies compared after decoding with the key set (C26); the monitor uses the generator's knowledge of the first request; census of the token tests in Gen/ConstNts.v. Print Assumptions: closed under the global context.",
    "design_ref": 'DESIGN.md 3 C29',
}
