"""C08: a source only accepts fresh answers to its own pending request.
Model: coq/Model/Source.v; theorems: coq/Props/C08.v; tie: the real NtpSource driven through
harness/ntp-proto/s2_source.rs (c08.rs) with event histories."""
from tools import vplib
from tools.props import s2lib as L


def expected_versions(code):
    if code == 0:
        return (3, 4)
    if code >= 100:
        return (4,)
    return (5,)


def monitor(case, evs):
    """the property statement on one implementation run: a measurement is produced only by a decodable
    server-mode, non-kiss, stratum<=16 packet of the expected version that echoes the origin (and, NTS, the
    unique identifier) of the most recent request, inside its window; at most one per request"""
    prev = L.init_dump(case)
    nsent = 0
    measured_since_send = 0
    for k, e in enumerate(evs):
        if e.get("panic") or not e["dump"]:
            return None
        if e["kind"] == "T":
            if L.sends(e):
                nsent += 1
                measured_since_send = 0
        else:
            m = L.measures(e)
            if m:
                why = []
                cur = nsent - 1
                if not e["decoded"]:
                    why.append("the datagram does not decode")
                if prev[L.D_PEND] != 1:
                    why.append("no request was pending")
                elif e["now"] > prev[L.D_DEADLINE]:
                    why.append("it arrived %d ms after the end of the poll window" % (e["now"] - prev[L.D_DEADLINE]))
                if e["origin"] != cur:
                    why.append("its origin field does not echo the most recent request")
                if case["nts"]:
                    u = e["ua"] + e["ue"]
                    if not u or any(x != cur for x in u):
                        why.append("its unique identifier is missing or not the one of the most recent request")
                if e["ver"] not in expected_versions(prev[L.D_VER]):
                    why.append("version %d is not expected in state %d" % (e["ver"], prev[L.D_VER]))
                if e["mode"] != 4:
                    why.append("mode %d is not server" % e["mode"])
                if e["stratum"] == 0:
                    why.append("it is a kiss code")
                if e["stratum"] > 16:
                    why.append("stratum %d exceeds 16" % e["stratum"])
                measured_since_send += 1
                if measured_since_send > 1:
                    why.append("a measurement was already taken for this request (replay/duplicate)")
                if e["dump"][L.D_PEND] != 0:
                    why.append("the request identifier stays valid after the measurement")
                if why:
                    return ("event %d: a measurement was taken from a packet although %s" % (k, "; ".join(why)),
                            {"case": L.line_of(case), "event_index": k})
        prev = e["dump"]
    return None


def build_cases(c):
    rng = c.rng
    cases = []
    n = 260 if c.tier == "quick" else 1500
    for i in range(n):
        case = L.random_case_header(rng)
        L.gen_history(rng, case, rng.randint(2, 9), weights={"replay": 2.5, "dup": 2, "late": 2, "edge": 2, "oldorigin": 2,
                                                             "badorigin": 1.5, "stratum": 2, "mode": 1.5, "wrongver": 1.5})
        cases.append(case)
    # boundary stream: arrival at deadline -1, 0, +1 ms; stratum 15/16/17; replays right after acceptance
    for nts in (False, True):
        for ver in ([0, 2] if nts else [0, 2, 108, 1]):
            pv = 5 if ver in (1, 2) else 4
            for off in (4999, 5000, 5001):
                for stratum in (1, 16, 17, 0):
                    case = L.random_case_header(rng, nts=nts, ver=ver, cfg=(4, 10))
                    if nts:
                        case["stash"] = [(9, 100)] * 8
                    sim = L.Sim(case)
                    sim.timer(0, 4)
                    efs = L.answer_efs(sim, pv, rng, [(5, 100)] if nts else [])
                    case["events"] = [L.ev_timer(0, 4), L.ev_in(off, pv, 4, stratum, 4, 0, None, "0", 0, efs), L.ev_replay(0),
                                      L.ev_in(0, pv, 4, 1, 4, 0, None, "0", 0, efs),
                                      L.ev_timer(1000, 4), L.ev_replay(1), L.ev_in(1, pv, 4, 2, 4, 0, None, "1", 0, efs.replace("u0", "u1")),
                                      L.ev_in(1, pv, 4, 2, 4, 0, None, "0", 0, efs), L.ev_replay(1)]
                    cases.append(case)
    return cases


def main():
    c = vplib.Check("C08")
    c.run_gate()
    cases = build_cases(c)
    parsed = L.standard_run(c, cases, monitor)
    c.cov["rule"] = ("event histories (timer / incoming datagram / byte-identical replay) against the real NtpSource on a paused "
                     "clock: random structured histories for plain (V4, V5, upgrading, upgraded) and NTS (V4, V5) sources, plus a "
                     "boundary stream (arrival at window end -1/0/+1 ms, stratum 0/1/16/17, replay after acceptance, answer to the "
                     "previous request); compared after every event: actions and the dump of the modelled state; a case is "
                     "non-trivial when the state changed at least twice")
    if parsed is not None:
        c.cov["distribution"] = {"cases": len(cases), "event_mix": L.op_mix(cases), "outcomes": L.outcome_classes(parsed)}
    c.assumptions += [
        "decoded-packet level: the byte decoder is cluster P's; the harness builds datagrams from a specification and cross-checks "
        "the real decoder's public view (version, mode, stratum, poll, unique identifiers and cookies by position) against it",
        "fresh origin timestamps / unique identifiers of different requests are distinct (request numbers in the model)",
        "the controller receives exactly two handle_measurement calls per accepted packet (observed as one Measure)",
    ]
    return c.finish()


MANIFEST = {
    "claimed": True,
    "text": "Theorems (Coq, model coq/Model/Source.v of handle_timer/handle_incoming/process_message over decoded packets; all states, "
            "configurations, packets and event histories): a measurement is taken only from a decodable packet accepted for the pending "
            "(= most recent) request -- before the deadline of its 5 s window, of the version the source currently expects, echoing the "
            "request's origin timestamp / NTPv5 client cookie and, for NTS sources, its unique identifier under the authenticator (at least "
            "one copy, none contradicting), not a kiss code, stratum <= 16, server mode -- and nothing else is emitted with it "
            "(C08_measure_only_if); the request identifier is consumed (C08_one_shot); in every run from every state no two measurements "
            "occur without a request in between, so replays, duplicates and late arrivals yield nothing (C08_at_most_one, "
            "C08_at_most_one_from_start). The model is tied to the real NtpSource by differential histories (timer / datagram / "
            "byte-identical replay on a paused clock; boundary stream at the window end -1/0/+1 ms and stratum 0/1/16/17) compared "
            "after every event on actions and the dump of the modelled state.",
    "note": "Trusted: Coq kernel+vm_compute; the hand-written model; harness s2_source.rs + python drivers. Decoded-packet level: the "
            "byte decoder is modelled by cluster P (C23-C25); the harness builds datagrams byte by byte from a specification, computes "
            "the decoded view from that specification and cross-checks it against the real decoder's public accessors (version, mode, "
            "stratum, poll, upgrade marker, unique identifiers and cookies per trust position, kiss predicates) on every datagram. "
            "Idealisation: random origin timestamps / unique identifiers of different requests differ (request numbers in the model). "
            "Measure = the two controller.handle_measurement calls of process_message (their content is C05's). The model follows the "
            "kiss dispatch order of branch fix-c07 (NTSN first); C08's generators avoid the NTPv5 NAK+RATE/DENY packets on which the "
            "unrepaired tree differs. Print Assumptions: closed under the global context.",
    "design_ref": "DESIGN.md 3 C08",
}
