"""C10: poll intervals stay within configured and requested bounds.
Model: coq/Model/Source.v (step_timer, poll_inc/dec, system_duration_secs, update_desired_poll); theorems: coq/Props/C10.v;
tie: (1) event histories against the real NtpSource (s2_source.rs, c10.rs) for configurations 0 <= min <= max <= 17 with a
scripted controller desire, RATE codes and NTPv5 poll requests up to 127; (2) the poll-desire state machine of the Kalman
source filter (c10_desire.rs in algorithm/kalman/source.rs)."""
import re

from tools import vplib
from tools.props import s2lib as L


def monitor(case, evs):
    """every request: min <= poll <= max(configured max, polls asked for by accepted NTPv5 answers);
    the timer armed with it lies in [1.01, 1.05] * 2^poll s (exponent clamped to 0..31)"""
    bound = case["max"]
    for k, e, prev, cur in L.walk(case, evs):
        here = {"case": L.line_of(case), "event_index": k}
        if e["kind"] == "I":
            if L.measures(e) and e["ver"] == 5:
                bound = max(bound, e["poll"])
            continue
        for a in L.sends(e):
            poll = L.send_fields(a)[2]
            if not (case["min"] <= poll <= bound):
                return ("event %d: request with poll exponent %d outside [%d, %d] (configured %d..%d, largest accepted server "
                        "request %d)" % (k, poll, case["min"], bound, case["min"], case["max"], bound), here)
            t = L.timers(e)
            if len(t) != 1:
                return ("event %d: a request without exactly one timer" % k, here)
            base = (1 << min(max(poll, 0), 31)) * 10 ** 9
            if not (101 * base // 100 - 1 <= t[0] <= 105 * base // 100 + 1):
                return ("event %d: timer of %d ns after a request with exponent %d is outside [1.01, 1.05] * 2^%d s"
                        % (k, t[0], poll, min(max(poll, 0), 31)), here)
    return None


def build_cases(c):
    rng = c.rng
    cases = []
    n = 220 if c.tier == "quick" else 1500
    cfgs = [(a, b) for a in range(0, 18) for b in range(a, 18)]
    for i in range(n):
        cfg = rng.choice(cfgs) if rng.random() < 0.7 else rng.choice([(0, 0), (0, 17), (17, 17), (4, 10), (16, 17), (0, 1)])
        case = L.random_case_header(rng, cfg=cfg)

        def desired(r, sim):
            return r.choice([sim.min, sim.max, r.randint(sim.min, sim.max), r.randint(sim.min, sim.max)])
        L.gen_history(rng, case, rng.randint(3, 10), desired_fn=desired,
                      weights={"rate": 4, "v5poll": 4, "answer": 5, "silence": 2, "deny": 0.5, "unauth": 0.5, "badauth": 0.3,
                               "baduid": 0.3, "planted": 0.3})
        cases.append(case)
    # RATE followed by a short controller desire; repeated RATE up to and at the maximum; v5 poll requests 17, 31, 32, 126, 127
    for (lo, hi) in [(4, 10), (0, 17), (6, 6), (0, 1)]:
        for ver in (0, 2):
            pv = 5 if ver == 2 else 4
            case = {"min": lo, "max": hi, "nts": False, "ver": ver, "stash": [], "events": []}
            ev = case["events"]
            ev.append(L.ev_timer(0, lo))
            for j in range(hi - lo + 3):
                if pv == 5:
                    ev.append(L.ev_in(1, 5, 4, 0, min(lo + j + 1, 126), 0, 0, "0", 0, "d"))
                else:
                    ev.append(L.ev_in(1, 4, 4, 0, 4, 2, 0, "0", 0, "-"))
                if j % 2:
                    ev.append(L.ev_timer(1, lo))
            ev.append(L.ev_timer(1, lo))
            cases.append(case)
    for p in (17, 18, 30, 31, 32, 33, 64, 126, 127, 128, 255):
        case = {"min": 4, "max": 10, "nts": False, "ver": 2, "stash": [], "events":
                [L.ev_timer(0, 4), L.ev_in(1, 5, 4, 2, p, 0, None, "0", 0, "d"), L.ev_timer(1, 4),
                 L.ev_in(1, 5, 4, 2, 4, 0, None, "0", 0, "d"), L.ev_timer(1, 10)]}
        cases.append(case)
    return cases


# ---------------- the desire state machine ----------------

def desire_cases(c):
    rng = c.rng
    res = []
    n = 150 if c.tier == "quick" else 1500
    for i in range(n):
        lo = rng.randint(0, 17)
        hi = rng.randint(lo, 17)
        init = rng.randint(lo, hi)
        hyst = rng.choice([1, 2, 3, 3, 5])
        lw, hw, st = 0.4, 0.8, 1e-6
        evs = []
        if rng.random() < 0.2:
            evs.append(("U", 0.5, 0.1, 1.0))
        evs.append(("S",))
        mode = rng.choice(["up", "down", "mixed", "mixed", "step"])
        for _ in range(rng.randint(3, 40)):
            if rng.random() < 0.03:
                evs.append(("S",))
                continue
            r = rng.random()
            if mode == "up" or (mode == "mixed" and r < 0.4):
                w, ratio = rng.choice([0.1, 0.39, 0.3999]), rng.choice([0.76, 1.0, 3.0])
            elif mode == "down" or (mode == "mixed" and r < 0.8):
                w, ratio = rng.choice([0.81, 0.9, 1.0]), rng.choice([0.1, 1.0, 1.39])
            else:
                w, ratio = rng.choice([0.4, 0.5, 0.8, 0.1, 0.9]), rng.choice([0.75, 0.7, 1.4, 1.5, 1.0])
            p = rng.choice([0.5, 0.5, 0.5, 1e-6, 1e-7, 1.1e-6]) if mode != "step" else rng.choice([1e-7, 0.5])
            evs.append(("U", p, w, ratio))
        res.append({"min": lo, "max": hi, "initial": init, "hyst": hyst, "lw": lw, "hw": hw, "st": st, "events": evs})
    return res


def desire_line(k, out_prev_poll=None):
    """the period of a U event is given as ratio * 2^(current desired poll); the current poll is only known while
    running, so the line fixes the ratio against the poll the python mirror expects; the real value is read back"""
    toks = [str(k["min"]), str(k["max"]), str(k["initial"]), str(k["hyst"]), repr(k["lw"]), repr(k["hw"]), repr(k["st"])]
    for e in k["events"]:
        if e[0] == "S":
            toks.append("S")
        else:
            toks.append("U:%r:%r:%r" % (e[1], e[2], e[3]))
    return " ".join(toks)


def run_desire(c):
    cases = desire_cases(c)
    exe, log, mode = vplib.build_harness("ntp-proto", "C10")
    name = "correspondence C10 desire model <-> kalman/source.rs harness"
    if exe is None:
        c.not_shown_because("%s: the harness no longer builds: %s" % (name, log[-800:]))
        return
    # periods are absolute seconds; choose them relative to 2^(poll the mirror expects)
    lines = []
    for i, k in enumerate(cases):
        poll, stable, score = k["min"], False, 0
        toks = [str(k["min"]), str(k["max"]), str(k["initial"]), str(k["hyst"]), repr(k["lw"]), repr(k["hw"]), repr(k["st"])]
        k["bits"] = []
        for e in k["events"]:
            if e[0] == "S":
                toks.append("S")
                if not stable:
                    stable, poll, score = True, k["initial"], 0
                k["bits"].append((0, 0))
                continue
            p, w, ratio = e[1], e[2], e[3]
            period = ratio * (2.0 ** poll)
            toks.append("U:%r:%r:%r" % (p, w, period))
            # PollInterval::as_duration().to_seconds(): 2^(poll+32) (shift clamped to 0..62) divided by u32::MAX
            ref = float(1 << min(max(poll + 32, 0), 62)) / 4294967295.0
            low = w < k["lw"] and period / ref > 0.75
            high = w > k["hw"] and period / ref < 1.4
            stepb = p <= k["st"]
            k["bits"].append((1, (1 if low else 0) + (2 if high else 0) + (4 if stepb else 0)))
            if stable:   # mirror, only to place the next period relative to the right reference
                score = score - 1 if low else (score + 1 if high else score - (1 if score > 0 else (-1 if score < 0 else 0)))
                if stepb:
                    poll, score = k["min"], 0
                elif score <= -k["hyst"]:
                    poll, score = min(poll + 1, k["max"]), 0
                elif score >= k["hyst"]:
                    poll, score = max(poll - 1, k["min"]), 0
        lines.append("%d %s" % (i, " ".join(toks)))
    rc, out, res = vplib.run_harness(exe, "C10D", lines, "ntp-proto")
    outs = {int(l.split()[0]): l.split()[1:] for l in res if l.split()}
    if rc != 0 or len(outs) != len(cases):
        c.not_shown_because("%s: harness run failed (rc=%s, %d of %d answered): %s" % (name, rc, len(outs), len(cases), out[-600:]))
    terms = []
    for i, k in enumerate(cases):
        o = outs.get(i)
        if not o or o[0] == "PANIC":
            if o:
                c.not_shown_because("%s: case %d panicked: %s" % (name, i, " ".join(o)[:200]))
            continue
        pairs = [tuple(int(x) for x in seg.split()) for seg in " ".join(o).split(" | ")]
        c.count_case(lines[i], len(pairs) >= 3)
        for (score, poll) in pairs:
            if not (k["min"] <= poll <= k["max"]):
                c.fail("the filter's desired poll interval %d is outside the configured limits %d..%d" % (poll, k["min"], k["max"]),
                       {"harness_input": lines[i], "implementation_output": " ".join(o), "crate": "ntp-proto", "driver": "verif_c10d_driver"})
                break
        inp = "(mkCfg %s %s, %s, %s, %s)" % (L.Z(k["min"]), L.Z(k["max"]), L.Z(k["initial"]), L.Z(k["hyst"]),
                                            vplib.coq_list(["(%s, %s)" % (L.Z(a), L.Z(b)) for a, b in k["bits"]]))
        terms.append("(%d%%N, %s, %s)" % (i, inp, vplib.coq_list(["(%s, %s)" % (L.Z(a), L.Z(b)) for a, b in pairs])))
    mism, errors = vplib.run_coq_cases("C10D", L.PREAMBLE, terms, "mismatches (list_eqb pair_eqb) drun_case", shard=200)
    for e in errors:
        c.not_shown_because("%s: model evaluation failed: %s" % (name, e))
    nm = 0
    for _, body in mism:
        for m in re.finditer(r"\((\d+)%N,\s*", body):
            nm += 1
            if nm <= 3:
                i = int(m.group(1))
                c.not_shown_because("%s: case %d differs: input `%s` implementation `%s` model says %s" % (
                    name, i, lines[i][:300], " ".join(outs.get(i, []))[:300], body[m.start():m.start() + 300]))
    c.cov["desire_cases"] = len(terms)
    c.cov["desire_mismatches"] = nm


def main():
    c = vplib.Check("C10")
    c.run_gate()
    cases = build_cases(c)
    parsed = L.standard_run(c, cases, monitor)
    run_desire(c)
    c.cov["rule"] = ("(1) event histories against the real NtpSource for every configuration 0 <= min <= max <= 17 (sampled) with the "
                     "controller's desire scripted at min / max / random, RATE codes (v4 and v5), NTPv5 poll requests incl. 17, 31, 32, "
                     "126, 127 and negative bytes, RATE ladders up to and beyond the maximum; SetTimer compared within +-1 ns of "
                     "[1.01, 1.05] * 2^poll s; (2) the desire state machine: random limits/initial/hysteresis, the filter driven "
                     "through its 8 initial samples and then update_desired_poll with weights / period ratios around 0.4, 0.8, 0.75, "
                     "1.4 and step probabilities around the threshold; non-trivial = state changed at least twice / >= 3 updates")
    if parsed is not None:
        c.cov["distribution"] = {"cases": len(cases), "event_mix": L.op_mix(cases), "outcomes": L.outcome_classes(parsed)}
    c.assumptions += [
        "the float tests of update_desired_poll (weight and period-ratio comparisons, p <= step threshold) are evaluated by the driver "
        "in IEEE double arithmetic and given to the model as booleans; the theorem holds for all their values",
        "the jitter factor is drawn by the implementation (thread_rng); the correspondence checks the window, the theorem the base",
        "the controller's desired interval handed to handle_timer is within the limits (C10_filter_desire) -- hypothesis of C10_poll_bounds",
    ]
    return c.finish()


MANIFEST = {
    "claimed": True,
    "text": "Theorems (Coq; all histories, all configurations with -128 < min <= max < 127, which includes 0 <= min <= initial <= max <= "
            "17): the Kalman source filter's desired poll interval is within [min, max] after every sequence of measurements, whatever "
            "the float tests evaluate to (C10_filter_desire); every request of a source created by NtpSource::new has min <= poll <= "
            "max(configured max, poll fields of the NTPv5 answers accepted so far), RATE answers included, given desires within the "
            "limits (C10_poll_bounds, C10_poll_bounds_from); the timer armed with a request of exponent p is jitter * 2^clamp(p,0,31) "
            "seconds (C10_timer), the jitter window [1.01, 1.05] (+-1 ns) being enforced on the real timer by the correspondence "
            "(C10_timer_window).",
    "note": "Trusted: Coq kernel+vm_compute; hand-written models (source state machine; update_desired_poll with the float comparisons "
            "as boolean inputs); harnesses + drivers. The jitter itself is the implementation's random draw: the theorem fixes the "
            "base, the per-run check the factor. For exponents > 31 (reachable only by an NTPv5 server request) the timer is capped at "
            "2^31 s (DESIGN.md section 5). Print Assumptions: closed under the global context.",
    "design_ref": "DESIGN.md 3 C10",
}
