"""C15: server access policy.  Model: coq/Model/Server.v; theorems: coq/Props/C15.v; tie: Server::handle
driven with real packets (plain v3/v4/v5, NTS with a real KeySet) through harness/ntp-proto/c15.rs."""
from tools import vplib
from tools.props import p2a_common as P


def witnesses():
    """the defect found while building the model: non-client datagrams whose NTS field does not authenticate"""
    cfg = {"deny_action": "d", "allow_action": "i", "deny": [], "allow": ["0.0.0.0/0", "::/0"], "cache": 0, "cutoff": 0,
           "require_nts": "n", "accepted": "345", "stratum": 2, "root_delay": 0, "clock_fail": 0}
    res = []
    for base, premode, muts in (("n4k", "4", []), ("n4:1", "-", ["s0:24"]), ("n5w", "4", []), ("n4w", "1", []),
                                ("n4:1", "-", ["s0:25"]), ("n5:1", "-", ["s0:2c"])):
        res.append({"cfg": dict(cfg), "ops": [{"ip": "1.2.3.4", "base": base, "premode": premode, "muts": muts, "buf": "=", "age": 0}]})
    deny = dict(cfg, deny=["1.2.3.0/24"])
    res.append({"cfg": deny, "ops": [{"ip": "1.2.3.4", "base": "n4k", "premode": "4", "muts": [], "buf": "=", "age": 0}]})
    return res


def boundary(rng, n):
    res = []
    for _ in range(n):
        cfg = P.gen_cfg(rng, cache=0, cutoff=0)
        k = rng.random()
        ip = rng.choice(P.POOL)
        if k < 0.3:
            # the client is on both lists, with different actions: the deny list must win
            net = ip + ("/128" if ":" in ip else "/32")
            cfg["deny"], cfg["allow"] = [net], [net, "0.0.0.0/0", "::/0"]
            cfg["deny_action"], cfg["allow_action"] = rng.choice([("i", "d"), ("d", "i")])
            op = P.gen_op(rng, ip=ip, base=P.gen_base(rng, rng.choice(["plain", "nts"])), clean=True)
        elif k < 0.55:
            # broken authenticator from a denied / not allowed client
            cfg["deny"] = [ip + ("/128" if ":" in ip else "/32")] if rng.random() < 0.5 else []
            cfg["allow"] = [] if not cfg["deny"] else ["0.0.0.0/0", "::/0"]
            op = P.gen_op(rng, ip=ip, base=P.gen_base(rng, "badnts"), clean=True)
        elif k < 0.8:
            # a version outside the accepted set from an allowed client
            cfg["deny"], cfg["allow"] = [], ["0.0.0.0/0", "::/0"]
            cfg["accepted"] = rng.choice(["3", "4", "5", "34", "45", "35", "-"])
            op = P.gen_op(rng, ip=ip, base=rng.choice(["p3", "p4", "p5", "n4:1", "n5:1", "n4k", "n5w"]), clean=True)
        else:
            # NTS required
            cfg["deny"], cfg["allow"] = [], ["0.0.0.0/0", "::/0"]
            cfg["require_nts"] = rng.choice("id")
            op = P.gen_op(rng, ip=ip, base=P.gen_base(rng), clean=rng.random() < 0.7)
        res.append({"cfg": cfg, "ops": [op]})
    return res


def main():
    c = vplib.Check("C15")
    c.run_gate()
    rng = c.rng
    quick = c.tier == "quick"
    scenarios = witnesses()
    grid = P.policy_grid()
    scenarios += grid
    scenarios += boundary(rng, 500 if quick else 3000)
    for _ in range(1200 if quick else 7000):
        cfg = P.gen_cfg(rng)
        ops = [P.gen_op(rng) for _ in range(rng.choice([1, 1, 1, 2, 3]))]
        scenarios.append({"cfg": cfg, "ops": ops})
    rp = P.replay_tokens()
    if rp is not None:
        scenarios = [P.scenario_of_line(rp)] if rp and rp[0] == "srv" else []
    outs, stats = P.run_scenarios(c, scenarios, P.monitor_c15, compare_c15_class=True)
    c.cov["rule"] = ("Server::handle on (1) the complete grid of decision inputs for clean requests: list actions x client position w.r.t. "
                     "deny/allow lists x require-nts x accepted-version sets {34,5,345,none} x request kind {v3,v4,v5,NTS v4,NTS v5,"
                     "foreign cookie,wrong key} (%d cases, exhaustive), (2) boundary stream: client on both lists with different actions, "
                     "broken authenticator from denied/not-allowed clients, non-accepted versions, NTS required, (3) random configurations "
                     "(IPv4, IPv6, IPv4-mapped clients; lists of 0-4 subnets) with plain/NTS/raw requests, pre-authentication mode changes, "
                     "byte-0 rewrites, bit flips, truncations, appended bytes, all buffer sizes.  Compared per datagram: answer kind and the "
                     "statistics registration.  Non-trivial: the decoder returned a packet (ok or authentication failure)" % len(grid))
    c.cov["exhaustive"] = True
    c.assumptions += P.COMMON_ASSUMPTIONS + [
        "list membership used by the monitor is recomputed in python (ipaddress), independently of IpFilter",
        "the model is of the repaired handler (commit `fix: never answer non-client packets whose NTS field fails to authenticate`): "
        "on the tree before that commit the check reports the non-client NAK as a violation with the datagram as replay",
    ]
    return c.finish()


MANIFEST = {
    "claimed": True,
    "text": "Theorems (Coq, closed) about the decision model of Server::handle over the decoder's result summary (outcome class incl. authentication failure, version, mode, cookie), the two list-membership bits, the rate-limit state, for EVERY configuration (both list actions, require-nts none/ignore/deny, any accepted-version list, any cutoff/cache): the deny list is tested first and the outcome for a denied client does not depend on the allow list (C15_deny_first); denied or not-allowed clients get nothing (action ignore) or at most a DENY kiss (action deny), never time, never a NAK, registered as Policy (C15_denied, C15_not_allowed, C15_ignore_is_silent, C15_deny_at_most_deny); undecodable datagrams, non-client packets (also with a failing authenticator) and non-accepted versions are never answered (C15_unanswered); with NTS required a request without an authenticating cookie never gets time, a plain one nothing / at most DENY (C15_require_nts); a decoded client request of an accepted version from a list-passing, not rate-limited client (authenticated if NTS is required) gets a time answer registered Policy/ProvideTime, given the answer fits the buffer and the environment is healthy (C15_served). Tie: real Server::handle with real packets (plain v3/v4/v5, NTS with a real KeySet, foreign cookies, wrong keys) on the complete grid of decision inputs plus boundary and random streams; IPv4, IPv6 and IPv4-mapped clients.",
    "note": "The model is of the REPAIRED handler (commit `fix: never answer non-client packets whose NTS field fails to authenticate`, prepared as branch fix-c15-nonclient-nak): before that commit a non-client datagram whose NTS field fails to authenticate was answered with a NAK/DENY, and the check reports that as a violation with the datagram as replay. Trusted: Coq kernel+vm_compute; hand-written model coq/Model/Server.v; byte-level decoding (C23/C24), list membership (C31) and answer construction/serialisation (C16-C19) are inputs of the model: per generated datagram the summary comes from the real NtpPacket::deserialize, membership from the real IpFilter (the monitor recomputes membership in python), 'answer fits' from a probe call with an ample buffer. Print Assumptions: closed under the global context for all eight theorems.",
    "design_ref": "DESIGN.md 3 C15",
}
