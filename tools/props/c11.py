"""C11: unreachable sources are reset, responsive sources are kept.
Model: coq/Model/SrcCore.v (+ SrcSpec.v); theorems: coq/Props/C11.v;
tie: the real NtpSource driven through harness/ntp-proto/c11.rs (timers and hand-built
answers of every class to the request just sent), compared after every event."""
from tools import vplib
from tools.props import s1lib

K = s1lib.consts()
STARTUP = K["startup"]
PLAIN = ["P4", "PU", "P5", "PX"]


class Tags:
    def __init__(self):
        self.n = 0

    def cookies(self, k, length=104):
        out = []
        for _ in range(k):
            self.n += 1
            out.append((self.n, length))
        return out


def answer(rng, cfg, tags):
    if cfg[0] == "N":
        return ("U", tags.cookies(rng.choice([1, 1, 2, 8])))
    if cfg == "PU" and rng.random() < 0.3:
        return ("G",)
    return ("U", [])


def pattern_every(rng, cfg, k, polls, noise):
    """answer every k-th poll usably (k = 0: never)"""
    tags = Tags()
    evs = [("S", c) for c in tags.cookies(8)] if cfg[0] == "N" else []
    for i in range(1, polls + 1):
        evs.append(("T",))
        if noise and rng.random() < noise:
            evs.append(("O", rng.randint(0, 8)))
        if k and i % k == 0:
            evs.append(answer(rng, cfg, tags))
            if rng.random() < 0.1:
                evs.append(answer(rng, cfg, tags))       # duplicate
    return (cfg, evs)


def boundary(rng):
    cases = []
    for cfg in PLAIN + ["N4", "N5"]:
        for k in (0, 1, 2, 3, 4, 7, 8, 9, 10):
            cases.append(pattern_every(rng, cfg, k, 3 * max(k, 4) + 2, 0))
    for cfg in PLAIN:
        # first usable answer arrives after poll j, then silence
        for j in (1, 2, 3):
            evs = [("T",)] * j + [("U", [])] + [("T",)] * 11
            cases.append((cfg, evs))
        # kiss-only / bogus-only answers never count
        for kind in range(9):
            evs = []
            for _ in range(5):
                evs += [("T",), ("O", kind)]
            cases.append((cfg, evs))
        # deny seen, then silence: demobilise; deny, then a usable answer: forgotten
        for d in ("D", "R"):
            cases.append((cfg, [("T",), (d,), ("T",), ("T",), ("T",), ("T",)]))
            cases.append((cfg, [("T",), ("U", []), ("T",), (d,)] + [("T",)] * 9))
            cases.append((cfg, [("T",), (d,), ("U", []), ("T",)] + [("T",)] * 9))
            cases.append((cfg, [(d,), ("T",), ("T",), ("T",), ("T",), (d,), ("T",)]))
        # a late answer after the reset became due revives the source
        cases.append((cfg, [("T",)] * 4 + [("U", [])] + [("T",)] * 10))
        cases.append((cfg, [("T",)] * 4 + [("T",), ("D",), ("T",), ("U", []), ("T",), ("T",)]))
    for cfg in ("N4", "N5"):
        tags = Tags()
        st = [("S", c) for c in tags.cookies(8)]
        cases.append((cfg, st + [("T",), ("D",), ("T",)]))
        cases.append((cfg, st + [("T",), ("R",), ("T",)]))
        cases.append((cfg, st + [("D",), ("T",), ("T",), ("T",), ("T",)]))
        cases.append((cfg, st + [("T",), ("O", 8), ("O", 7), ("T",), ("T",), ("T",), ("T",)]))
        # cookie starvation: timers keep shifting the register although nothing is sent
        cases.append((cfg, [("S", (1, 104))] + [("T",)] * 5))
        cases.append((cfg, [("S", (1, 104)), ("T",), ("U", [(2, 104)]), ("T",), ("T",), ("U", [(3, 104)]), ("T",), ("T",), ("T",)]))
    return cases


def random_case(rng, long=False):
    cfg = rng.choice(PLAIN + PLAIN + ["N4", "N5"])
    tags = Tags()
    evs = [("S", c) for c in tags.cookies(rng.choice([8, 8, 3]))] if cfg[0] == "N" else []
    p_ans = rng.choice([0.0, 0.1, 0.15, 0.3, 0.6, 0.9, 1.0])
    for _ in range(rng.randint(4, 60 if long else 22)):
        evs.append(("T",))
        r = rng.random()
        if r < p_ans:
            evs.append(answer(rng, cfg, tags))
        elif r < p_ans + 0.15:
            evs.append(("O", rng.randint(0, 8)))
        elif r < p_ans + 0.19:
            evs.append((rng.choice(["D", "R"]),))
        if rng.random() < 0.08:
            evs.append(answer(rng, cfg, tags))
    return (cfg, evs)


def monitor(case, out):
    """the property on one implementation run, with a python record of answered polls
    (nothing of the Coq model is used)"""
    cfg, evs = case
    rows = s1lib.split_out(out, len(evs))
    if rows is None:
        if out and out[0] == "PANIC":
            return ("the source panicked: %s" % " ".join(out[1:]), {"case": s1lib.line_of(case)})
        return None
    plain = cfg[0] == "P"
    hist, pending, deny, silent, prompt = [], False, False, False, True
    for i, (e, r) in enumerate(zip(evs, rows)):
        code, unanswered = r[0], r[5]
        where = {"case": s1lib.line_of(case), "event_index": i, "event": s1lib.ev_tok(e)}
        if e[0] == "T":
            due = len(hist) >= STARTUP and not any(hist[:8])
            if pending:
                prompt = False               # the previous request was not answered in time
            if due:
                want = 4 if deny else 3
                if code != want:
                    return ("no usable answer to the %s polls, but the timer gives action code %d instead of %s"
                            % ("first three" if len(hist) == STARTUP else "last eight", code,
                               "Demobilize" if deny else "Reset"), where)
                silent = True
            else:
                if code in (1, 2) and silent:
                    return ("request sent after the source was reset", where)
                if plain and prompt and code in (3, 4):
                    return ("plain source that answered every poll so far is reset (code %d)" % code, where)
                if code in (1, 2):
                    pending = True
                if code in (1, 2, 3):
                    hist.insert(0, False)
        elif e[0] in ("U", "G"):
            if pending:
                pending, deny, silent = False, False, False
                hist[0] = True
        elif e[0] in ("D", "R") and pending:
            if plain:
                deny = True
            elif code != 4:
                return ("authenticated deny does not demobilise the NTS source", where)
        if code == 4 and not plain and e[0] in ("D", "R"):
            break
        if any(hist) and plain:
            since = hist.index(True)
            if unanswered != min(8, since):
                return ("%d missed polls reported, %d polls since the last usable answer" % (unanswered, since), where)
    return None


def main():
    c = vplib.Check("C11")
    c.run_gate()
    rng = c.rng
    quick = c.tier == "quick"
    cases = s1lib.load_corpus("C11")
    ncorpus = len(cases)
    cases += boundary(rng)
    nb = len(cases) - ncorpus
    for cfg in PLAIN + ["N4"]:
        for k in range(0, 12):
            cases.append(pattern_every(rng, cfg, k, rng.randint(10, 40), 0.3))
    for _ in range(300 if quick else 5000):
        cases.append(random_case(rng))
    for _ in range(30 if quick else 500):
        cases.append(random_case(rng, long=True))

    mix = {}
    for cfg, evs in cases:
        mix[cfg] = mix.get(cfg, 0) + 1
    stats = {"resets": 0, "demobilize": 0, "requests": 0, "usable_effective": 0, "histories_with_reset": 0}

    def nontrivial(case, out):
        rows = s1lib.split_out(out, len(case[1]))
        if not rows:
            return False
        n3 = sum(1 for r in rows if r[0] == 3)
        n4 = sum(1 for r in rows if r[0] == 4)
        ns = sum(1 for r in rows if r[0] in (1, 2))
        stats["resets"] += n3
        stats["demobilize"] += n4
        stats["requests"] += ns
        stats["histories_with_reset"] += 1 if n3 + n4 else 0
        ans = sum(1 for e, r in zip(case[1], rows) if e[0] in ("U", "G") and r[5] == 0)
        stats["usable_effective"] += ans
        return (n3 + n4 >= 1) or (ns >= 4 and ans >= 1)

    vplib.correspondence(
        c, "ntp-proto", cases,
        line_of=s1lib.line_of,
        coq_case_of=s1lib.coq_case_of,
        preamble=s1lib.PREAMBLE,
        checker=s1lib.CHECKER,
        monitor=monitor,
        nontrivial=nontrivial,
        shard=150,
        sample_of=lambda case, out: {"history": s1lib.line_of(case)[:400], "implementation": " ".join(out)[:400]},
    )
    c.cov["rule"] = ("histories of the real NtpSource (plain in all four protocol-version states, and NTS v4/v5): timers and hand-built "
                     "answers to the request just sent (usable, usable with upgrade marker, DENY/RSTR kiss, 9 kinds that must be ignored, "
                     "duplicates, late answers); compared after every event: action (request / Reset / Demobilize / none) and "
                     "unanswered_polls (and the cookie fields).  Boundary: answer every k-th poll for k = 0..11 (8/9 boundary), first answer "
                     "after poll 1/2/3, kiss-only answers, deny before/after a usable answer, late answer after the reset became due, "
                     "cookie starvation.  Non-trivial = a Reset/Demobilize occurred, or >= 4 requests with >= 1 usable answer; "
                     "distinct = distinct input histories")
    c.cov["distribution"] = {"cases": len(cases), "corpus": ncorpus, "boundary": nb, "configs": mix, "outcomes": stats}
    c.assumptions += [
        "hand-written model of the reach/tries/deny/outstanding-request part of NtpSource::handle_timer / handle_incoming / "
        "process_message (coq/Model/SrcCore.v); tied to the code by the event-by-event correspondence above",
        "classification of datagrams into usable / deny / ignored is an input of the model (decision logic: C07-C09); the harness "
        "builds datagrams of each class and the correspondence checks the implementation treats them so",
        "the 5 s answer window (POLL_WINDOW) is not exercised: answers are delivered immediately (C08)",
        "after a Reset/Demobilize action the daemon drops the source; the model keeps it and shows it stays silent until a usable answer",
    ]
    return c.finish()


MANIFEST = {
    "claimed": True,
    "text": "Theorems (Coq, closed under the global context, all histories of timers and usable / deny / ignored answers): the reach register is the 8-attempt window of the record of answered polls, tries counts attempts, and unanswered_polls = min(8, polls since the last usable answer) (8 before the first) (C11_reach_abs, C11_bits_are_marks); the reset is due iff >= 3 polls were made and none of the last 8 was answered, which on reachable states means the first three or the last eight polls all went unanswered (C11_reset_conditions); when due the timer returns exactly [Reset], or [Demobilize] iff an unauthenticated DENY/RSTR answer to the outstanding request was seen since the last usable answer, leaves the state unchanged and nothing is sent until a usable answer arrives (C11_reset, C11_nothing_further, C11_deny_flag); a plain source's timer resets iff due and otherwise sends (C11_plain_timer); a plain source whose every request is answered before the next timer is never reset (C11_never_reset_if_answering).",
    "note": "Trusted: Coq kernel + vm_compute; hand-written model coq/Model/SrcCore.v tied to the real NtpSource by the event-by-event correspondence (plain sources in all four protocol-version states, NTS v4/v5); datagram classification is an input (C07-C09); the 5 s answer window is not exercised (C08); 'poll' = timer firing that passes the reachability test (for NTS sources a timer that finds no cookie also shifts the register without sending); before the first usable answer the register reports 8 missed polls whatever the number of polls; after Reset/Demobilize the daemon drops the source (the model keeps it and proves it silent).",
    "design_ref": 'DESIGN.md 3 C11',
}
