"""C03: the clock is only steered on a majority consensus of usable sources.
Model: coq/Model/Select.v (+ the controller and the wrapper's loop with its timer, coq/Model/MsgLoop.v);
theorems: coq/Props/C03.v; tie: select::select through harness/ntp-proto/c03.rs, and the controller level
(real TimeSyncControllerWrapper::run with its sleeper, real KalmanClockController incl. time_update) through
the lines starting with L of the same harness, which are run by harness/ntp-proto/c37.rs (shared with C37)."""
import itertools
import json
import math
import os
import struct

from tools import vplib
from tools.props import c37 as loop

NAN = float("nan")
INF = float("inf")


def bits(x):
    return struct.unpack(">Q", struct.pack(">d", x))[0]


def hexf(x):
    return "%016x" % bits(x)


def key(x):
    """the integer f64::total_cmp compares by"""
    b = bits(x)
    if b >= 1 << 63:
        b -= 1 << 64
    return b ^ ((((b >> 63) & ((1 << 64) - 1)) >> 1))


def fsqrt(v):
    if v != v or v < 0:
        return NAN
    return math.sqrt(v)


def cand_geometry(case, c):
    """(radius, lo, hi) of a candidate, computed here in IEEE double arithmetic, independently of harness and model"""
    _id, _per, _leap, off, var, delay = c
    try:
        radius = fsqrt(var) * case["w1"] + delay * case["w2"]
        return radius, off - radius, off + radius
    except OverflowError:
        return NAN, NAN, NAN


def line_of(case):
    t = [str(case["minag"]), hexf(case["maxunc"]), hexf(case["w1"]), hexf(case["w2"]), str(len(case["cands"]))]
    for (i, per, leap, off, var, delay) in case["cands"]:
        t += [str(i), str(per), str(leap), hexf(off), hexf(var), hexf(delay)]
    return " ".join(t)


def parse_out(case, out):
    """-> (maxkey, [(r,lo,hi)], selection ids or None for panic) or None when the line is malformed"""
    n = len(case["cands"])
    try:
        if out and out[0] == "PANIC":
            return None
        mk = int(out[0])
        ks = [(int(out[1 + 3 * i]), int(out[2 + 3 * i]), int(out[3 + 3 * i])) for i in range(n)]
        rest = out[1 + 3 * n:]
        if rest[0] == "P":
            return mk, ks, None
        k = int(rest[1])
        return mk, ks, [int(x) for x in rest[2:2 + k]]
    except (IndexError, ValueError):
        return None


def in_domain(case):
    """the property's domain: interval radii are not negative (weights and delays >= 0)"""
    for c in case["cands"]:
        r, lo, hi = cand_geometry(case, c)
        if r < 0 or lo > hi:
            return False
    return True


def monitor(case, out):
    """the property statement on one run of select: a non-empty selection needs at least min_agreeing (and one)
    synchronised, non-periodic, acceptably uncertain candidates whose closed intervals share a point, being a strict
    majority of all such candidates; every selected snapshot is synchronised and acceptably uncertain."""
    p = parse_out(case, out)
    if p is None:
        if out and out[0] == "PANIC":
            return ("harness panicked outside select: %s" % " ".join(out[:3]), {"case": case_json(case)})
        return None
    _mk, _ks, sel = p
    if not in_domain(case):
        return None
    if sel is None:
        return ("select panics (assert_eq!(maxlow, maxhigh)) on candidates with non-negative radii",
                {"case": case_json(case)})
    if not sel:
        return None
    byid = {c[0]: c for c in case["cands"]}
    for i in sel:
        c = byid.get(i)
        if c is None:
            return ("selection contains id %d which is not a candidate" % i, {"case": case_json(case)})
        r, lo, hi = cand_geometry(case, c)
        if c[2] == 4:
            return ("unsynchronised source %d was selected" % i, {"case": case_json(case)})
        if not (r <= case["maxunc"]):
            return ("source %d with radius %r > maximum_source_uncertainty %r was selected" % (i, r, case["maxunc"]),
                    {"case": case_json(case)})
    q = []
    for c in case["cands"]:
        r, lo, hi = cand_geometry(case, c)
        if c[1] == 0 and c[2] != 4 and r <= case["maxunc"]:
            q.append((lo, hi))
    # deepest point of the closed intervals (starts before ends on ties)
    ev = sorted([(lo, 0) for lo, hi in q] + [(hi, 1) for lo, hi in q])
    depth = best = 0
    for _t, k in ev:
        if k == 0:
            depth += 1
            best = max(best, depth)
        else:
            depth -= 1
    if best < max(case["minag"], 1) or 2 * best <= len(q):
        return ("selection %s is non-empty although at most %d of the %d qualifying non-periodic candidates share a point "
                "(minimum_agreeing_sources=%d)" % (sel, best, len(q), case["minag"]), {"case": case_json(case)})
    return None


def case_json(case):
    return {"minimum_agreeing_sources": case["minag"], "maximum_source_uncertainty": case["maxunc"],
            "range_statistical_weight": case["w1"], "range_delay_weight": case["w2"],
            "candidates": [{"id": c[0], "periodic": bool(c[1]), "leap_code": c[2], "offset": c[3],
                            "offset_variance": c[4], "delay": c[5]} for c in case["cands"]]}


# ------------------------------------------------------------------ generators

def mk(minag, cands, maxunc=1.0, w1=1.0, w2=1.0):
    return {"minag": minag, "maxunc": maxunc, "w1": w1, "w2": w2,
            "cands": [(i + 1,) + tuple(c) for i, c in enumerate(cands)]}


def iv(lo, hi, per=0, leap=0):
    """candidate (periodic, leap, offset, variance, delay) with interval [lo, hi] under w1=w2=1: all radius in the delay"""
    return (per, leap, (lo + hi) / 2.0, 0.0, (hi - lo) / 2.0)


def boundary_cases():
    cs = []
    # exactly half: 2 vs 2, 1 vs 1, 3 vs 3; and one more than half
    for k in (1, 2, 3):
        a = [iv(0.0, 0.25)] * k + [iv(1.0, 1.25)] * k
        cs.append(mk(1, a))
        cs.append(mk(1, a + [iv(0.0, 0.25)]))
        cs.append(mk(1, [iv(1.0, 1.25)] + a))
    # touching intervals, both insertion orders (tie order of End/Start decides)
    for order in itertools.permutations([iv(0.0, 0.5), iv(0.5, 1.0)]):
        for m in (0, 1, 2, 3):
            cs.append(mk(m, list(order)))
    for order in itertools.permutations([iv(0.0, 0.5), iv(0.5, 1.0), iv(0.5, 0.5)]):
        for m in (1, 2, 3):
            cs.append(mk(m, list(order)))
    for order in itertools.permutations([iv(0.0, 0.5), iv(0.5, 1.0), iv(0.25, 0.75), iv(2.0, 2.5)]):
        cs.append(mk(2, list(order)))
        cs.append(mk(3, list(order)))
    # zero radius, identical points
    cs.append(mk(1, [iv(0.5, 0.5)]))
    cs.append(mk(2, [iv(0.5, 0.5), iv(0.5, 0.5)]))
    cs.append(mk(2, [iv(0.5, 0.5), iv(0.5, 0.5), iv(0.25, 0.25)]))
    # minimum_agreeing_sources around the size of the agreeing set
    three = [iv(0.0, 1.0), iv(0.25, 1.25), iv(0.5, 1.5), iv(5.0, 6.0)]
    for m in (0, 1, 2, 3, 4, 5, 2 ** 63, 2 ** 64 - 1):
        cs.append(mk(m, three))
    # radius exactly at / next to the maximum uncertainty
    for mu in (0.5, math.nextafter(0.5, 0.0), math.nextafter(0.5, 1.0)):
        cs.append(mk(1, [iv(0.0, 1.0), iv(0.0, 1.0), iv(0.25, 0.75)], maxunc=mu))
    # unsynchronised / periodic / too uncertain candidates inside the consensus interval
    for bad in (iv(0.0, 1.0, leap=4), iv(0.0, 1.0, per=1), iv(-3.0, 3.0)):
        cs.append(mk(1, [iv(0.0, 1.0), bad]))
        cs.append(mk(1, [bad, iv(0.0, 1.0)]))
        cs.append(mk(2, [iv(0.0, 1.0), bad]))
        cs.append(mk(1, [iv(0.0, 1.0), bad, bad, iv(2.0, 3.0)]))
        cs.append(mk(1, [bad, bad, bad]))
        cs.append(mk(1, [iv(0.0, 1.0), iv(5.0, 6.0), bad]))
        cs.append(mk(1, [iv(0.0, 1.0), iv(5.0, 6.0), bad, bad]))
    # only periodic sources agree; periodic sources touching the consensus interval
    cs.append(mk(1, [iv(0.0, 1.0, per=1), iv(0.0, 1.0, per=1)]))
    cs.append(mk(1, [iv(0.0, 1.0), iv(1.0, 2.0, per=1), iv(-1.0, 0.0, per=1), iv(3.0, 4.0, per=1)]))
    # signed zeros: hi = -0.0 against lo = +0.0
    cs.append(mk(2, [(0, 0, -0.0, 0.0, 0.0), (0, 0, 0.0, 0.0, 0.0)]))
    cs.append(mk(2, [(0, 0, 0.0, 0.0, 0.0), (0, 0, -0.0, 0.0, 0.0)]))
    cs.append(mk(1, [(0, 0, -0.0, 0.0, 0.0), (0, 0, 0.0, 0.0, 0.0), (1, 0, 0.0, 0.0, 0.0)]))
    cs.append(mk(1, [iv(-1.0, -0.0), iv(0.0, 1.0), iv(-0.0, 0.0, per=1)]))
    cs.append(mk(1, []))
    cs.append(mk(0, []))
    cs.append(mk(0, [iv(0.0, 1.0, leap=4)]))
    return cs


def malformed_cases(rng, n):
    cs = []
    nanc = (0, 0, 0.0, -1.0, 0.0)      # sqrt(-1) = NaN radius
    cs.append(mk(1, [nanc]))
    cs.append(mk(1, [nanc, nanc, nanc, iv(0.0, 1.0, per=1)]))
    cs.append(mk(1, [nanc, nanc, iv(0.0, 1.0), iv(0.0, 1.0), iv(0.0, 1.0)]))
    cs.append(mk(1, [iv(0.0, 1.0), iv(0.0, 1.0), nanc, nanc]))
    cs.append(mk(1, [iv(0.0, 1.0)], maxunc=NAN))
    cs.append(mk(1, [iv(0.0, 1.0), iv(0.0, 1.0)], maxunc=INF))
    cs.append(mk(1, [(0, 0, INF, 0.0, 1.0), (0, 0, INF, 0.0, 1.0)]))
    cs.append(mk(1, [(0, 0, -INF, 0.0, INF), (0, 0, 0.0, 0.0, 1.0)], maxunc=INF))
    cs.append(mk(1, [(0, 0, INF, 0.0, INF), (0, 0, 0.0, 0.0, 1.0)], maxunc=INF))
    cs.append(mk(1, [(0, 0, NAN, 0.0, 1.0), (0, 0, 0.0, 0.0, 1.0), (0, 0, 0.0, 0.0, 1.0)]))
    # inverted intervals (negative radius through a negative weight): usize wrap and the assert_eq! site
    inv = [(0, 0, 3.0, 0.0, 2.0), (0, 0, 3.5, 0.0, 1.5)]
    cs.append(mk(1, inv, w2=-1.0))
    cs.append(mk(1, inv[:1], w2=-1.0))
    cs.append(mk(1, inv + [(1, 0, 5.0, 0.0, -5.0)], w2=-1.0))
    # (observation O-K2: two inverted voters wrap `cur` twice, maxlow = maxhigh = usize::MAX, and a periodic source is selected)
    cs.append(mk(1, inv + [(1, 0, 5.0, 0.0, -5.0)], w2=-1.0, maxunc=10.0))
    cs.append(mk(1, inv + [(0, 0, 3.5, 0.0, -0.5)], w2=-1.0))
    cs.append(mk(1, inv + [(1, 0, 3.0, 0.0, -4.0), (0, 0, 9.0, 0.0, 0.25)], w2=-1.0))
    vals = [0.0, -0.0, 0.25, 0.5, 1.0, -1.0, 2.0, INF, -INF, NAN, 1e300, -1e300, 5e-324]
    for _ in range(n):
        k = rng.randint(0, 6)
        cands = [(int(rng.random() < 0.2), rng.choice([0, 0, 0, 1, 2, 3, 4]), rng.choice(vals), rng.choice(vals),
                  rng.choice(vals)) for _ in range(k)]
        cs.append(mk(rng.choice([0, 1, 2, 3]), cands, maxunc=rng.choice([1.0, 3.0, INF, NAN, 0.0]),
                     w1=rng.choice([1.0, 0.0, -1.0, 2.0]), w2=rng.choice([1.0, 0.0, -1.0, 0.25])))
    return cs


def grid_case(rng, nmax):
    n = rng.randint(0, nmax)
    ncl = rng.randint(1, 3)
    centers = [rng.randint(-16, 16) / 16.0 for _ in range(ncl)]
    pper = rng.choice([0.0, 0.1, 0.3])
    punsync = rng.choice([0.0, 0.1, 0.3])
    cands = []
    for _ in range(n):
        off = rng.choice(centers) + rng.randint(-4, 4) / 16.0
        sigma = rng.randint(0, 8) / 16.0
        delay = rng.randint(0, 8) / 16.0
        leap = 4 if rng.random() < punsync else rng.choice([0, 0, 0, 1, 2, 3])
        cands.append((int(rng.random() < pper), leap, off, sigma * sigma, delay))
    return mk(rng.choice([0, 1, 1, 1, 2, 2, 3, 4, n, max(0, n - 1)]), cands,
              maxunc=rng.choice([0.25, 0.5, 0.75, 1.0, 3.0]),
              w1=rng.choice([1.0, 1.0, 2.0, 0.5, 0.0]), w2=rng.choice([1.0, 1.0, 0.25, 0.0]))


def small_exhaustive(ncand, minags):
    """every list of ncand candidates over offsets {0, .25, .5, .75, 1} x radii {0, .25, .5} x 4 flag classes"""
    offs = [0.0, 0.25, 0.5, 0.75, 1.0]
    rads = [0.0, 0.25, 0.5]
    flags = [(0, 0), (1, 0), (0, 4), (0, 3)]
    one = [(per, leap, o, 0.0, r) for o in offs for r in rads for (per, leap) in flags]
    for combo in itertools.product(one, repeat=ncand):
        for m in minags:
            yield mk(m, list(combo), maxunc=0.25)


# ------------------------------------------------------------------ controller level (message loop + timer)

def loop_monitor(case, out):
    """the property on one run of the real loop: clock calls only while handling a source message on a consensus
    (whose used sources were registered, last reported usable and had a snapshot), or -- one set_frequency -- when
    the timer expires after such a consensus update armed it"""
    return loop.monitor(case, out, map_check=False)


def loop_cases(rng, tier):
    cases = loop.timer_fixed_cases()
    n = 400 if tier == "quick" else 3000
    for _ in range(n):
        cases.append(loop.gen_case(rng, tier, steer=2, illformed=rng.random() < 0.2, timer=True))
    for _ in range(n // 4):
        cases.append(loop.gen_case(rng, tier, steer=0, illformed=rng.random() < 0.2, timer=True))
    for _ in range(n // 4):
        cases.append(loop.gen_case(rng, tier, steer=1, illformed=rng.random() < 0.2, timer=True))
    return cases


def controller_level(c, rng, only=None):
    cases = only if only is not None else loop_cases(rng, c.tier)
    stats = loop.new_stats()
    stats["total"] = len(cases)

    def nontrivial(case, out):
        p = loop.parse_out(case, out)
        if p is None:
            return False
        steps = [st for o in p[2] for st in o["steps"]]
        return any(st[0] == 1 for st in steps) or sum(1 for st in steps if st[1]) >= 2

    vplib.correspondence(
        c, "ntp-proto", cases,
        line_of=lambda case: "L " + loop.line_of(case),
        coq_case_of=loop.make_coq_case(stats),
        preamble="From V Require Import Model.Select Model.MsgLoop.\n",
        checker="mismatches list_eqb msgloop_code",
        monitor=loop_monitor,
        nontrivial=nontrivial,
        shard=300,
        corr_name="correspondence C03 model MsgLoop (controller + timer) <-> ntp-proto harness (real run loop)",
        sample_of=lambda case, out: {"harness_line": ("L " + loop.line_of(case))[:400], "implementation": " ".join(out)[:400]},
    )
    c.cov["distribution_controller_level"] = stats
    c.cov["rule_controller_level"] = (
        "whole schedules through the real TimeSyncControllerWrapper::run (current-thread tokio runtime, paused clock) around "
        "the real KalmanClockController with a recording clock: interleavings of 1-5 source tasks with T = virtual time "
        "passes beyond any armed deadline of the wrapper's sleeper (the real loop calls the real time_update iff the sleeper "
        "is enabled); never-step steering configuration (every offset correction is a slew that arms the timer), no-steering "
        "and default configurations; per drain compared with the model: clock calls, used sources, source map, "
        "desired_freq != 0, number of updates returning next_update; the outcome of the float comparisons of each steering "
        "decision is read off the run (oracle tape). Default configuration (steps): monitor only. Non-trivial: a timer "
        "expiry that called time_update, or two consensus updates.")
    c.assumptions += [
        "controller level: hand-written model coq/Model/MsgLoop.v of TimeSyncControllerWrapper::run (message branch, "
        "single-shot sleeper, timer branch) and KalmanClockController (source_message/update_clock/steer_offset/"
        "steer_frequency/change_desired_frequency/time_update); the float comparisons of a steering decision are oracles; "
        "the rewriting of stored snapshots by steering is not modelled; tokio's paused clock stands for real time",
    ]


def main():
    c = vplib.Check("C03")
    c.run_gate()
    rng = c.rng
    rp = vplib.replay_cases()
    if rp and "ops" in rp[0]:
        for k in rp:
            k["ops"] = [tuple(o) for o in k["ops"]]
        controller_level(c, rng, only=rp)
        return c.finish()
    cases = []
    # corpus first
    cdir = os.path.join(vplib.VERIF, "corpus", "C03")
    ncorpus = 0
    if os.path.isdir(cdir):
        for fn in sorted(os.listdir(cdir)):
            if fn.endswith(".json"):
                j = json.load(open(os.path.join(cdir, fn)))
                for k in j.get("cases", []):
                    k["cands"] = [tuple(float(x) if i >= 3 else int(x) for i, x in enumerate(cd)) for cd in k["cands"]]
                    for f in ("maxunc", "w1", "w2"):
                        k[f] = float(k[f])
                    cases.append(k)
                    ncorpus += 1
    b = boundary_cases()
    cases += b
    m = malformed_cases(rng, 150 if c.tier == "quick" else 3000)
    cases += m
    ex = []
    ex += list(small_exhaustive(1, (0, 1, 2)))
    ex += list(small_exhaustive(2, (1, 2)))
    if c.tier == "thorough":
        # every third of the 216 000 three-candidate lists; which third depends on the seed
        # (VERIF_C03_FULL=1: all of them, about 10 minutes of coqc on an idle 16-core machine)
        if os.environ.get("VERIF_C03_FULL") == "1":
            ex += list(small_exhaustive(3, (1,)))
        else:
            ex += list(itertools.islice(small_exhaustive(3, (1,)), c.seed % 3, None, 3))
    else:
        three = list(itertools.islice(small_exhaustive(3, (1,)), 0, None, 97))
        ex += three
    cases += ex
    ngrid = 2500 if c.tier == "quick" else 20000
    g = [grid_case(rng, 12) for _ in range(ngrid)]
    g += [grid_case(rng, 40) for _ in range(ngrid // 25)]
    cases += g

    c.cov["rule"] = ("select::select on candidate lists: corpus, hand-made boundary lists (exact halves, touching intervals in "
                     "every insertion order, zero radii, minimum_agreeing around the agreeing count, radius at max uncertainty "
                     "+-1ulp, signed zeros, unsynchronised/periodic/too-uncertain candidates inside the consensus), malformed "
                     "lists (NaN/inf/negative radii, NaN limits), every list of <=2 candidates (and every third list of 3 in the thorough tier, all with VERIF_C03_FULL=1) over "
                     "a 5x3 offset/radius grid x 4 flag classes, and random clustered lists of up to 12 (some up to 40) candidates "
                     "on a 1/16 grid so that ties are frequent. Non-trivial: at least two candidates contribute bounds.")
    c.cov["exhaustive"] = True

    stats = {"corpus": ncorpus, "boundary": len(b), "malformed": len(m), "small_exhaustive": len(ex), "grid": len(g),
             "selected_nonempty": 0, "selected_empty": 0, "panic": 0, "outside_domain": 0,
             "n_candidates_hist": {}, "ties_touching": 0, "key_mismatch": 0}

    def nontrivial(case, out):
        p = parse_out(case, out)
        if p is None:
            return False
        mkk, ks, sel = p
        voters = 0
        for cd, (r, lo, hi) in zip(case["cands"], ks):
            if cd[1] == 0 and cd[2] != 4:
                voters += 1
        return voters >= 2

    def coq_case(case, out):
        p = parse_out(case, out)
        if p is None:
            return None
        mkk, ks, sel = p
        n = len(case["cands"])
        h = stats["n_candidates_hist"]
        h[n] = h.get(n, 0) + 1
        if sel is None:
            stats["panic"] += 1
        elif sel:
            stats["selected_nonempty"] += 1
        else:
            stats["selected_empty"] += 1
        if not in_domain(case):
            stats["outside_domain"] += 1
        los = [k[1] for k in ks]
        his = [k[2] for k in ks]
        if set(los) & set(his):
            stats["ties_touching"] += 1
        # cross-check the keys the harness computed against an independent evaluation (non-NaN values only)
        if key(case["maxunc"]) != mkk and case["maxunc"] == case["maxunc"]:
            stats["key_mismatch"] += 1
        for cd, (r, lo, hi) in zip(case["cands"], ks):
            pr, plo, phi = cand_geometry(case, cd)
            for a, k_ in ((pr, r), (plo, lo), (phi, hi)):
                if a == a and key(a) != k_:
                    stats["key_mismatch"] += 1
        items = []
        for cd, (r, lo, hi) in zip(case["cands"], ks):
            items.append("(%s, %s, %s, %s, %s, %s)" % (vplib.zlit(cd[0]), vplib.blit(cd[1] == 1), vplib.blit(cd[2] != 4),
                                                       vplib.zlit(r), vplib.zlit(lo), vplib.zlit(hi)))
        inp = "(%s, %s, %s)" % (vplib.zlit(case["minag"]), vplib.zlit(mkk), vplib.coq_list(items))
        o = vplib.coq_list([vplib.zlit(-2)]) if sel is None else vplib.coq_list([vplib.zlit(x) for x in sel])
        return inp, o

    vplib.correspondence(
        c, "ntp-proto", cases,
        line_of=line_of,
        coq_case_of=coq_case,
        preamble="From V Require Import Model.Select.\n",
        checker="mismatches list_eqb select_code",
        monitor=monitor,
        nontrivial=nontrivial,
        shard=3000 if c.tier == "thorough" else 1500,
        sample_of=lambda case, out: {"case": case_json(case), "implementation": " ".join(out[-8:])},
    )
    if stats["key_mismatch"]:
        c.not_shown_because("correspondence C03: %d interval keys computed by the harness differ from the independent "
                            "evaluation of radius/offset-radius/offset+radius" % stats["key_mismatch"])
    stats["n_candidates_hist"] = dict(sorted(stats["n_candidates_hist"].items()))
    c.cov["distribution"] = stats
    c.cov["model_cases_select"] = c.cov.get("model_cases")
    c.cov["model_mismatches_select"] = c.cov.get("model_mismatches")
    controller_level(c, rng)
    c.assumptions += [
        "model of select written by hand (coq/Model/Select.v), integer-only over f64::total_cmp keys; the float expressions "
        "radius = offset_uncertainty*w1 + delay*w2 and offset -/+ radius are evaluated by the harness with the "
        "implementation's accessors, cross-checked here in Python doubles, and their text in select.rs is pinned by Gen/ConstSelect.v",
        "theorems assume well-formed intervals (lo <= hi in total_cmp order, i.e. radius not negative) and fewer than 2^61 candidates",
        "Rust's slice::sort_by is a stable sort (modelled as stable insertion)",
    ]
    return c.finish()


MANIFEST = {
    "claimed": True,
    "text": "Theorems (Coq, every candidate list, every minimum_agreeing_sources and maximum_source_uncertainty; f64 values as "
            "f64::total_cmp keys, integer-only): a non-empty result of select implies a point t such that the voters "
            "(non-periodic, synchronised, radius not above the limit) whose closed interval contains t number >= 1, >= "
            "minimum_agreeing_sources and are a strict majority of all voters (C03_consensus; hypotheses: every voter has lo <= hi, "
            "fewer than 2^61 candidates); without NaNs the voters are exactly the non-periodic qualifying candidates "
            "(C03_voters_are_the_qualifying_nonperiodic); every returned snapshot is a candidate, synchronised, radius <= limit and "
            "not NaN (C03_members_qualify); unsynchronised/too uncertain candidates can be deleted from the input without changing "
            "the result (C03_unqualified_irrelevant); the sweep never underflows and assert_eq!(maxlow,maxhigh) cannot fail "
            "(C03_sweep_balanced, C03_select_never_panics). Controller level (model MsgLoop: KalmanClockController and the "
            "loop of TimeSyncControllerWrapper::run with its single-shot timer; every world = every selection function, every "
            "outcome of the float comparisons of every steering decision, every vote; every schedule of messages and timer "
            "expiries): select's argument is exactly the snapshots of registered sources last reported usable (C03_only_usable, "
            "C03_only_usable_with_timer); a handled message makes clock calls only when select returned a non-empty selection, "
            "which is what is reported as used (C03_message_calls_need_consensus); for the whole loop "
            "(C03_steer_only_on_consensus, no longer partial): if handling the next event after any schedule makes a clock "
            "call, then either it is a source message on a non-empty selection, or it is the timer expiry (time_update), the "
            "only call is one set_frequency, nothing is reported as used, the timer is not re-armed, desired_freq was non-zero "
            "and is zero afterwards, and the schedule contains an earlier source message, with no timer expiry in between, "
            "handled on a non-empty selection, whose handling called set_frequency, turned desired_freq from zero to non-zero "
            "and returned next_update = Some (the slew that this expiry ends was started under a consensus); "
            "C03_loop_step_calls: the same case split for one loop step from any state (timer expiry with a disabled timer "
            "does nothing). Tie: select through the harness on boundary/malformed/exhaustive-small/random lists; the "
            "controller level on every run through the real run loop (paused tokio clock, virtual time passing = T) around the "
            "real KalmanClockController incl. the real time_update, recording clock, scripted per-source filter.",
    "note": "Trusted: Coq kernel+vm_compute; hand-written models Select.v/MsgLoop.v; release semantics (usize wraps); the float "
            "expressions radius/offset-+radius are evaluated by the harness with the code's accessors (text pinned by "
            "Gen/ConstSelect.v, cross-checked in Python doubles) rather than modelled; lo <= hi (radius not negative) is a "
            "hypothesis: with negative range weights in the configuration (unvalidated) the release build wraps `cur -= 1` and "
            "the consensus guarantee is void (observation, outside the property's domain); slice::sort_by stable. Controller "
            "level: the float comparisons of the steering decision (offset/step/frequency thresholds) are oracles of the "
            "model (in the correspondence read off the implementation's run); the rewriting of the stored snapshots' float "
            "state and filter time by steering (process_offset_steering/process_frequency_steering, also from time_update) is "
            "not modelled (snapshots are identity + filter time + interval keys), so runs with clock steps are judged by the "
            "monitor only; check_offset_steer's process::exit is not modelled; 'desired_freq != 0 after a returning slew start' "
            "is read from the code (freq > 0 or Duration::from_secs_f64 panics) and compared on every run; tokio mpsc FIFO + "
            "controller mutex, select! fairness irrelevant under the paused clock; the harness module c37.rs is shared with "
            "C37. Print Assumptions: closed under the global context.",
    "design_ref": "DESIGN.md 3 C03",
}
