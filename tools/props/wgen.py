"""Shared generators and an independent python reference reader for the PTP wire format
(properties C41, C44, C45).  Messages are flat integer lists in the layout of
coq/Model/PtpWire.v (enc_header: 28 values, enc_body: tag + fields, suffix bytes)."""

TYPES = [0, 1, 2, 3, 8, 9, 10, 11, 12, 13]
BODY_SIZE = {0: 10, 1: 10, 2: 20, 3: 20, 8: 10, 9: 20, 10: 20, 11: 30, 12: 10, 13: 14}
TLV_STATUS, TLV_REQUEST, TLV_RESPONSE = 0xF002, 0xFF00, 0xFF01
NAMED_TSRC = [0x10, 0x20, 0x30, 0x39, 0x40, 0x50, 0x60, 0x90, 0xA0]


def be(n, v):
    return list((v % (1 << (8 * n))).to_bytes(n, "big"))


def unbe(b):
    return int.from_bytes(bytes(b), "big")


def signed(bits, v):
    v %= 1 << bits
    return v - (1 << bits) if v >= 1 << (bits - 1) else v


# ------------------------------------------------------------------ random values
def r_ts(rng, edge=0.2):
    if rng.random() < edge:
        secs = rng.choice([0, 1, (1 << 48) - 1, (1 << 48) - 2, (1 << 32) - 1, 1 << 32, 2208988800 + 37, 140737, 140738])
        nanos = rng.choice([0, 1, 999999999, 1000000000, 500000000])
        return [secs, nanos]
    return [rng.randrange(1 << 48) if rng.random() < 0.5 else rng.randrange(1 << 31), rng.randrange(1000000000)]


def r_pid(rng):
    return [rng.randrange(256) for _ in range(8)] + [rng.randrange(65536)]


def r_corr(rng):
    k = rng.random()
    if k < 0.3:
        return 0
    if k < 0.5:
        return rng.choice([1, -1, 65535, 65536, -65536, -65537, (1 << 63) - 1, -(1 << 63), 2 * 10 ** 9 << 16, -(2 * 10 ** 9 << 16),
                           (10 ** 9 << 16) - 1, 10 ** 9 << 16])
    if k < 0.8:
        return rng.randrange(-(1 << 40), 1 << 40)
    return rng.randrange(-(1 << 63), 1 << 63)


def r_header(rng, canonical=True):
    if canonical or rng.random() < 0.8:
        vmaj, vmin = rng.randrange(16), rng.randrange(16)
    else:
        vmaj, vmin = 2, rng.choice([16, 17, 32, 255, rng.randrange(16, 256)])   # only Header::new(minor) makes these
    return ([rng.choice([0, 0x300, 0xFFF, rng.randrange(4096)]), vmaj, vmin, rng.randrange(256)]
            + [rng.randrange(2) for _ in range(12)]
            + [r_corr(rng)] + r_pid(rng) + [rng.randrange(65536), rng.randrange(-128, 128)])


def r_acc(rng, canonical=True):
    k = rng.random()
    if k < 0.15:
        return [0, 0]
    if k < 0.5:
        return [1, rng.randrange(0x17, 0x32)]
    if k < 0.85:
        if canonical:
            return [2, rng.randrange(0, 0x7E)]
        return [2, rng.choice([0x7D, 0x7E, 0x7F, 0x80, 0xFF, rng.randrange(256)])]
    return [3, 0]


def r_tsrc(rng, canonical=True):
    k = rng.random()
    if k < 0.4:
        return [rng.randrange(9), 0]
    if canonical:
        if k < 0.7:
            return [9, rng.randrange(0xF0, 0xFF)]
        while True:
            v = rng.randrange(256)
            if v not in NAMED_TSRC and not 0xF0 <= v <= 0xFE:
                return [10, v]
    return [rng.choice([9, 10]), rng.choice(NAMED_TSRC + [0xEF, 0xF0, 0xFE, 0xFF, 0, rng.randrange(256)])]


def r_body(rng, ty, canonical=True):
    if ty in (0, 1, 2, 8):
        return [ty] + r_ts(rng)
    if ty in (3, 9, 10):
        return [ty] + r_ts(rng) + r_pid(rng)
    if ty == 11:
        return ([ty] + r_ts(rng) + [rng.randrange(-32768, 32768), rng.randrange(256), rng.randrange(256)] + r_acc(rng, canonical)
                + [rng.randrange(65536), rng.randrange(256)] + [rng.randrange(256) for _ in range(8)]
                + [rng.randrange(65536)] + r_tsrc(rng, canonical))
    if ty == 12:
        return [ty] + r_pid(rng)
    return [ty] + r_pid(rng) + [rng.randrange(256), rng.randrange(256), rng.randrange(6)]


def r_tlv(rng, even=True):
    ty = rng.choice([TLV_STATUS, TLV_REQUEST, TLV_RESPONSE, 1, 3, 8, 0x4000, 0x8008, 0, 0xFFFF, 0x2000, 0x2004, rng.randrange(65536)])
    n = rng.choice([0, 0, 2, 4, 18, 18, 20, rng.randrange(0, 40) * 2])
    if not even:
        n = rng.choice([1, 3, 17, 19, n + 1])
    return ty, [rng.randrange(256) for _ in range(n)]


def tlv_bytes(ty, value, length=None):
    return be(2, ty) + be(2, len(value) if length is None else length) + list(value)


# ------------------------------------------------------------------ reference writer
def acc_prim(kind, v):
    return {0: 0, 1: v, 2: (0x80 + v) % 256, 3: 0xFE}[kind]


def tsrc_prim(kind, v):
    return NAMED_TSRC[kind] if kind < 9 else v


ACTION_PRIM = {0: 5, 1: 0, 2: 1, 3: 2, 4: 3, 5: 4}


def ser_ts(t):
    return be(6, t[0]) + be(4, t[1])


def ser_pid(p):
    return list(p[:8]) + be(2, p[8])


def ser_header(h, ty, mlen):
    f6 = h[4] | h[5] << 1 | h[6] << 2 | h[7] << 5 | h[8] << 6
    f7 = h[9] | h[10] << 1 | h[11] << 2 | h[12] << 3 | h[13] << 4 | h[14] << 5 | h[15] << 6
    return ([((h[0] >> 8) << 4 | ty) & 0xFF, ((h[2] << 4) | h[1]) & 0xFF] + be(2, mlen) + [h[3], h[0] & 0xFF, f6, f7]
            + be(8, h[16]) + [0, 0, 0, 0] + ser_pid(h[17:26]) + be(2, h[26]) + [0, h[27] % 256])


def ser_body(b, reserved=0):
    ty, r = b[0], b[1:]
    if ty in (0, 1, 8):
        return ser_ts(r)
    if ty == 2:
        return ser_ts(r) + [0] * 10
    if ty in (3, 9, 10):
        return ser_ts(r) + ser_pid(r[2:])
    if ty == 11:
        return (ser_ts(r) + be(2, r[2]) + [reserved, r[3], r[4], acc_prim(r[5], r[6])] + be(2, r[7]) + [r[8]] + list(r[9:17])
                + be(2, r[17]) + [tsrc_prim(r[18], r[19])])
    if ty == 12:
        return ser_pid(r)
    return ser_pid(r) + [reserved, r[9], r[10], ACTION_PRIM[r[11]]]


def ser_msg(h, b, suffix, mlen=None, reserved=0):
    body = ser_body(b, reserved)
    n = 34 + len(body) + len(suffix)
    return ser_header(h, b[0], n if mlen is None else mlen) + body + list(suffix)


# ------------------------------------------------------------------ reference reader (repaired semantics)
def scan_tlvs(buf):
    """list of (type, value) or None when the set is not valid"""
    out, i = [], 0
    while len(buf) - i >= 4:
        n = unbe(buf[i + 2:i + 4])
        if n % 2 or i + 4 + n > len(buf):
            return None
        out.append((unbe(buf[i:i + 2]), list(buf[i + 4:i + 4 + n])))
        i += 4 + n
    return out if i == len(buf) else None


def parse(buf):
    """dict(type, mlen, sdo, vmajor, domain, seq, two_step, correction, leap61, leap59, body, tlvs) or None"""
    if len(buf) < 34:
        return None
    ty = buf[0] & 15
    if ty not in BODY_SIZE:
        return None
    mlen = unbe(buf[2:4])
    if mlen < 34 or mlen > len(buf):
        return None
    content = buf[34:mlen]
    bs = BODY_SIZE[ty]
    if len(content) < bs:
        return None
    if ty not in (12, 13) and unbe(content[6:10]) > 10 ** 9:
        return None
    tl = scan_tlvs(content[bs:])
    if tl is None:
        return None
    return {"type": ty, "mlen": mlen, "sdo": (buf[0] & 0xF0) << 4 | buf[5], "vmajor": buf[1] & 15, "domain": buf[4],
            "seq": unbe(buf[30:32]), "two_step": bool(buf[6] & 2), "correction": signed(64, unbe(buf[8:16])),
            "leap61": bool(buf[7] & 1), "leap59": bool(buf[7] & 2),
            "ts": (unbe(content[0:6]), unbe(content[6:10])) if ty not in (12, 13) else None, "tlvs": tl}


def resp_tlv_valid(t):
    return t[0] == TLV_RESPONSE and len(t[1]) >= 18 and unbe(t[1][6:10]) <= 10 ** 9


def parse_csptp(buf):
    """the reference reading of `well-formed CSPTP message`: None, or the parse dict plus kind request/response/followup"""
    m = parse(buf)
    if m is None or m["sdo"] != 0x300 or m["vmajor"] != 2:
        return None
    if m["type"] == 8:
        m["kind"] = "followup"
        return m
    if m["type"] != 0:
        return None
    req = [t for t in m["tlvs"] if t[0] == TLV_REQUEST]
    resp = [t for t in m["tlvs"] if t[0] == TLV_RESPONSE]
    if len(req) + len(resp) != 1 or any(len(t[1]) == 0 for t in req) or not all(resp_tlv_valid(t) for t in resp):
        return None
    m["kind"] = "request" if req else "response"
    return m


# what re-serialisation writes (C41_de_ser mask), independent of the Coq definition
def py_normalise(b):
    b = list(b)
    ty = b[0] & 15
    out = []
    for i, x in enumerate(b):
        if i == 6:
            x &= 0x67
        elif i == 7:
            x &= 0x7F
        elif 16 <= i <= 19 or i == 32:
            x = 0
        elif ty == 2 and 44 <= i <= 53:
            x = 0
        elif ty == 11 and i == 46:
            x = 0
        elif ty == 11 and i == 49:
            if x <= 0x16 or 0x32 <= x <= 0x7F or x == 0xFF:
                x = 0
        elif ty == 13 and i == 44:
            x = 0
        elif ty == 13 and i == 47:
            x = min(x, 5)
        out.append(x)
    return out


# ------------------------------------------------------------------ CSPTP datagrams
def csptp_header(domain, seq, two_step=False, corr=0, flags7=0, sdo=0x300, vmaj=2, vmin=1):
    f = [(flags7 >> k) & 1 for k in range(7)]
    return [sdo, vmaj, vmin, domain, 0, int(two_step), 1, 0, 0] + f + [corr] + [0] * 9 + [seq, 0x7F]


def csptp_request(domain, seq, flags=1, corr=0, extra=(), **kw):
    suffix = tlv_bytes(TLV_REQUEST, [flags, 0, 0, 0])
    for t in extra:
        suffix += tlv_bytes(*t)
    return ser_msg(csptp_header(domain, seq, corr=corr, **kw), [0, 0, 0], suffix)


def status_value(rng):
    return [rng.randrange(256), rng.randrange(256), rng.randrange(256)] + be(2, rng.choice([0, 1, 65534, 65535, rng.randrange(65536)])) \
        + [rng.randrange(256)] + be(2, rng.choice([0, 65534, 65535, rng.randrange(65536)])) + be(2, rng.randrange(65536)) \
        + [rng.randrange(256) for _ in range(8)]


def csptp_response(domain, seq, ingress, req_corr, two_step, origin=(0, 0), corr=0, status=None, flags7=0, status_first=False, **kw):
    resp = tlv_bytes(TLV_RESPONSE, ser_ts(ingress) + be(8, req_corr))
    st = tlv_bytes(TLV_STATUS, status) if status is not None else []
    suffix = st + resp if status_first else resp + st
    return ser_msg(csptp_header(domain, seq, two_step=two_step, corr=corr, flags7=flags7, **kw), [0] + list(origin), suffix)


def csptp_follow_up(domain, seq, precise, corr=0, **kw):
    return ser_msg(csptp_header(domain, seq, two_step=True, corr=corr, **kw), [8] + list(precise), [])


def mutate(rng, b):
    b = list(b)
    k = rng.random()
    if k < 0.3 and b:
        i = rng.randrange(len(b))
        b[i] ^= 1 << rng.randrange(8)
    elif k < 0.5 and b:
        b = b[:rng.randrange(len(b))]
    elif k < 0.65:
        b += [rng.randrange(256) for _ in range(rng.choice([1, 2, 3, 4, 5, 8]))]
    elif k < 0.8 and len(b) > 4:
        v = unbe(b[2:4]) + rng.choice([-5, -4, -2, -1, 1, 2, 4])
        b[2:4] = be(2, max(0, v))
    elif len(b) > 34:
        i = rng.randrange(34, len(b))
        b[i] = rng.randrange(256)
    return b


def ints(l):
    return " ".join(str(int(x)) for x in l)


def zlist(l):
    return "[" + ";".join(("(%d)" % x) if x < 0 else str(x) for x in l) + "]%Z"
