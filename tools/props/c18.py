"""C18: server answers echo the request correctly and reflect nothing else.
Model: coq/Model/Response.v; theorems: coq/Props/C18.v; tie: Server::handle and the response builders
through harness/ntp-proto/c18.rs (shared code p2b.rs), driver code shared in tools/p2b.py."""
from tools import p2b


def monitor(case, out):
    return p2b.monitor_c18(case, out)


def main():
    return p2b.run_property(
        "C18", monitor,
        "grammar-generated request datagrams (NTPv3/v4/v5, 0-10 extension fields of every kind and size class, MACs, NTS layouts "
        "with cookie/placeholders/unique identifiers in untrusted, authenticated and encrypted position, nonce lengths 0-32, wrong keys, "
        "rotated server keys, truncations and byte damage), each through NtpPacket::deserialize, Server::handle with a request-sized, a "
        "1024-byte and sometimes a third small buffer, or through one of the seven response builders + serialize; compared with the model: "
        "statistics, every clear byte of the answer (server cookie masked), authenticator sizes, decrypted fresh-cookie lengths, request "
        "length formula and well-formedness; non-trivial = the decoder accepted the datagram (Ok or DecryptError); distinct = distinct input lines")


MANIFEST = {
    "claimed": True,
    "text": "Theorems (Coq, closed; every parsed request of version 3/4/5, every server state, reception time and clock value): every answer handle sends is a builder's answer for the decision taken and starts with its header (C18_answers_are_built, C18_header_first); time answers have exactly the stated header (mode server, request's version and poll, origin = request's transmit timestamp / client cookie, receive = reception time, transmit = clock, server's leap, stratum, precision, root delay/dispersion, reference id, reference timestamp = reception time truncated to 2^7 s or the upgrade marker iff a plain NTPv4 request carried it; NTPv5 flags = synchronized iff stratum < 16) (C18_time_answer); DENY/RATE/NTS-NAK answers have stratum 0, no server timestamps, the kiss code resp. poll 127 / poll+1 / authnak (C18_kiss); the extension fields of any answer are only unique identifiers of the request's untrusted/authenticated lists (NTS: authenticated only), reference-id responses cut from the server's filter for the request's reference-id requests, the draft id, and fresh cookies in the encrypted part of NTS time answers (C18_fields_subset); nothing of the encrypted part influences any other answer (C18_ignores_encrypted); an undecryptable request gets at most a NAK or DENY (C18_nothing_undecryptable).",
    "note": "'No other request content is reflected' is structural in the model (payloads of other fields, the other header fields, MAC and ciphertexts are not model inputs) and is established for the code by the byte-for-byte comparison of the clear part of every answer plus the monitor's marker search; root delay/dispersion encodings, precision.log2() and the Bloom filter bytes are oracle inputs computed by the same Rust functions; the random NTPv5 server cookie is masked. Trusted: as C16. Print Assumptions: closed under the global context.",
    "design_ref": "DESIGN.md 3 C18",
}
