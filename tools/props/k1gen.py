"""Shared by c01.py and c02.py: case representation, generators, output parser and Coq printers for the
clock-controller harness (harness/ntp-proto/k1_common.rs, model coq/Model/Controller.v)."""
import math
import struct

from tools import vplib

U = 1 << 32
I64_MIN = -(1 << 63)
I64_MAX = (1 << 63) - 1
NAN_BITS = 0x7ff8000000000000


def bits(x):
    if x != x:
        return NAN_BITS
    return struct.unpack("<Q", struct.pack("<d", x))[0]


def unbits(b):
    return struct.unpack("<d", struct.pack("<Q", b))[0]


def ulp_step(x, k):
    """the float k representable steps away from x (x finite, nonzero)"""
    b = bits(x)
    s = b >> 63
    m = b & ((1 << 63) - 1)
    m = max(0, min(m + k, 0x7ff0000000000000))
    return unbits((s << 63) | m)


# ---------------------------------------------------------------------------
# a case:  dict(thr=(sf,sb,gf,gb,acc)  each None or int,
#               floats=[8 entries: bits or None (= default)],
#               f0=bits, su=0/1, minsrc=int, ops=[...])
# ops: ("A",id) ("R",id) ("U",id,0/1) ("M",id,time,o,f,p00,p01,p11,delay,wander,leap) ("T",) ("SO",ch,fd) ("SF",ch)
#      float fields are bit patterns

def line_of(case):
    t = ["n" if v is None else str(v) for v in case["thr"]]
    t += ["d" if v is None else str(v) for v in case["floats"]]
    t += [str(case["f0"]), str(case["su"]), str(case["minsrc"])]
    for op in case["ops"]:
        t += [str(x) for x in op]
    return " ".join(t)


class Parsed:
    """the harness output of one case, split per steering operation"""

    def __init__(self):
        self.floats = None      # the 8 config floats used (bits)
        self.ops = []           # list of dicts: op, tap, calls [(code, arg)], state (su, acc, fo, df) or None, end (class) or None
        self.ok = True
        self.why = ""


def parse(case, out):
    p = Parsed()
    try:
        if out[0] == "PANIC":
            p.ok = False
            p.why = "harness panic outside an operation: " + " ".join(out[:4])
            return p
        toks = [int(x) for x in out]
    except ValueError:
        p.ok = False
        p.why = "unexpected token in harness output: " + " ".join(out)[:200]
        return p
    try:
        assert toks[0] == 8
        p.floats = toks[1:9]
        i = 9
        ended = False
        for op in case["ops"]:
            if op[0] in ("A", "R", "U"):
                continue
            if ended:
                break
            rec = {"op": op, "tap": None, "calls": [], "state": None, "end": None}
            if op[0] == "M":
                assert toks[i] == 6
                if toks[i + 1] == 0:
                    rec["tap"] = ()
                    i += 2
                else:
                    rec["tap"] = tuple(toks[i + 2:i + 7])
                    i += 7
            elif op[0] == "SO":
                assert toks[i] == 66
                rec["tap"] = toks[i + 1]
                i += 2
            while True:
                c = toks[i]
                if c in (1, 4, 5):
                    rec["calls"].append((c, None))
                    i += 1
                elif c in (2, 3):
                    rec["calls"].append((c, toks[i + 1]))
                    i += 2
                elif c == 9:
                    rec["state"] = tuple(toks[i + 1:i + 5])
                    assert len(rec["state"]) == 4
                    i += 5
                    break
                elif c == 7:
                    rec["end"] = toks[i + 1]
                    i += 2
                    ended = True
                    break
                else:
                    raise AssertionError("token %d" % c)
            p.ops.append(rec)
        assert i == len(toks)
    except (AssertionError, IndexError) as e:
        p.ok = False
        p.why = "harness output does not parse (%s): %s" % (e, " ".join(out)[:300])
    return p


def zl(n):
    return vplib.zlit(n)


def opt(v):
    return "None" if v is None else "(Some %s)" % zl(v)


def tlist(items, ty):
    return "(@nil %s)" % ty if not items else vplib.coq_list(items)


def coq_case(case, p):
    """(input term, expected output term) for `mismatches zlist_eqb case_code_fs`"""
    sf, sb, gf, gb, acc = case["thr"]
    w = "{| w_thr := ((%s, %s), (%s, %s), %s); w_floats := %s |}" % (
        opt(sf), opt(sb), opt(gf), opt(gb), opt(acc), vplib.coq_list([zl(b) for b in p.floats]))
    wops, outs, fs, fsd = [], [], [], []
    for rec in p.ops:
        op = rec["op"]
        if op[0] == "M":
            if rec["tap"] == ():
                wops.append("WUpdate None false")
            else:
                o, f, p0, p1, l = rec["tap"]
                wops.append("WUpdate (Some (%s, %s, %s, %s)) %s" % (zl(o), zl(f), zl(p0), zl(p1), vplib.blit(l == 1)))
        elif op[0] == "T":
            wops.append("WTimeUpdate")
        elif op[0] == "SO":
            wops.append("WSteerOffset %s %s" % (zl(op[1]), zl(op[2])))
            fs.append(zl(op[1]))
            fsd.append(zl(rec["tap"]))
        elif op[0] == "SF":
            wops.append("WSteerFreq %s" % zl(op[1]))
        for c, a in rec["calls"]:
            outs.append(zl(c))
            if a is not None:
                outs.append(zl(a))
        if rec["state"] is not None:
            outs.append("9%Z")
            outs += [zl(x) for x in rec["state"]]
        if rec["end"] is not None:
            outs += ["7%Z", zl(rec["end"])]
    inp = "((%s, %s, %s, %s), %s)" % (w, zl(case["f0"]), vplib.blit(case["su"] == 1),
                                     tlist(wops, "wop"), tlist(fs, "Z"))
    return inp, vplib.coq_list(outs + ["0%Z"] + fsd)


PREAMBLE = "From V Require Import Model.Controller.\n"
CHECKER = "mismatches zlist_eqb case_code_fs"

# ---------------------------------------------------------------------------
# generators

DEFAULTS = dict(step_threshold=0.010, slew_max=200e-6, slew_min_dur=8.0, max_freq=495e-6,
                off_thr=2.0, off_left=1.0, freq_thr=0.0, freq_left=0.0)


def dur_units(seconds):
    return int(round(seconds * U))


def gen_threshold_value(rng, allow_weird=True):
    r = rng.random()
    if r < 0.22:
        return None
    if r < 0.30:
        return 0
    if r < 0.36:
        return rng.choice([1, 2, 3, U - 1, U, U + 1])
    if r < 0.70:
        return dur_units(rng.choice([0.5, 1.0, 10.0, 1000.0, 1800.0, 3600.0, 86400.0]))
    if r < 0.90:
        return rng.randrange(1, 1 << rng.randrange(2, 63))
    if r < 0.94:
        return I64_MAX
    if allow_weird and r < 0.97:
        return -rng.randrange(1, 1 << rng.randrange(2, 62))   # C39: negative parts are accepted by the config parser
    if allow_weird and r < 0.985:
        return I64_MIN
    return dur_units(1800.0)


def gen_thresholds(rng, allow_weird=True):
    if rng.random() < 0.25:
        v = gen_threshold_value(rng, False)
        sf, sb = v, v
    else:
        sf, sb = gen_threshold_value(rng, allow_weird), gen_threshold_value(rng, allow_weird)
    if rng.random() < 0.25:
        v = gen_threshold_value(rng, False)
        gf, gb = v, v
    else:
        gf, gb = gen_threshold_value(rng, allow_weird), gen_threshold_value(rng, allow_weird)
    r = rng.random()
    if r < 0.3:
        acc = None
    elif r < 0.35:
        acc = 0
    elif r < 0.4:
        acc = I64_MAX
    elif r < 0.8:
        acc = dur_units(rng.choice([1.0, 100.0, 1800.0, 5000.0, 100000.0]))
    else:
        acc = rng.randrange(1, 1 << rng.randrange(2, 63))
    return (sf, sb, gf, gb, acc)


def gen_float(rng):
    """any f64: exponent x mantissa x sign sweep with the special values"""
    r = rng.random()
    if r < 0.08:
        return rng.choice([0, 1 << 63, 0x7ff0000000000000, 0xfff0000000000000, NAN_BITS, 1, (1 << 63) | 1,
                           0x000fffffffffffff, 0x0010000000000000, 0x7fefffffffffffff, 0xffefffffffffffff,
                           bits(1.0), bits(-1.0), bits(2.0 ** 64), bits(2.0 ** 63), bits(-2.0 ** 63), bits(2.0 ** 31), bits(-2.0 ** 31)])
    s = rng.getrandbits(1)
    e = rng.randrange(0, 2047)
    m = rng.choice([0, 1, (1 << 52) - 1, rng.getrandbits(52), 1 << 51])
    return (s << 63) | (e << 52) | m


def gen_moderate(rng, scale_lo=-12, scale_hi=6):
    """a finite float with magnitude 10^lo .. 10^hi, random sign"""
    x = 10.0 ** rng.uniform(scale_lo, scale_hi)
    return bits(x if rng.random() < 0.5 else -x)


def near_units(rng, v):
    """f64 seconds whose duration is within a few units of v (units of 2^-32 s)"""
    d = v + rng.choice([-3, -2, -1, 0, 0, 1, 2, 3])
    return bits(d / U)   # correctly rounded division by a power of two: exact when |d| < 2^53


def gen_change(rng, case_thr, step_thr):
    """a steering request in seconds (bits)"""
    r = rng.random()
    cands = [v for v in case_thr[:4] if v is not None and abs(v) < (1 << 62)]
    if r < 0.35 and cands:
        v = rng.choice(cands)
        sign = rng.choice([1, -1])
        return near_units(rng, sign * v)
    if r < 0.45 and case_thr[4] is not None and case_thr[4] < (1 << 62):
        # fractions of the accumulated threshold
        v = case_thr[4] // rng.choice([1, 2, 3, 4])
        return near_units(rng, rng.choice([1, -1]) * v)
    if r < 0.55:
        st = unbits(step_thr)
        if st == st and 0 < abs(st) < 1e300:
            return bits(rng.choice([1, -1]) * ulp_step(abs(st), rng.choice([-2, -1, 0, 1, 2])))
    if r < 0.63:
        return rng.choice([bits(2.0 ** 31), bits(-2.0 ** 31), bits(-2.0 ** 31 - 1), bits(2.0 ** 31 - 1), bits(-2147483648.5),
                           bits(1e300), bits(-1e300), 0x7ff0000000000000, 0xfff0000000000000, NAN_BITS, 0, 1 << 63, 1,
                           bits(2147483647.9999998), bits(-2147483647.9999998), bits(4e9), bits(-4e9)])
    if r < 0.70:
        return gen_float(rng)
    if r < 0.85:
        return gen_moderate(rng, -6, 5)
    return bits(rng.choice([1, -1]) * rng.choice([0.5, 1.0, 100.0, 1000.0, 1799.0, 1801.0, 3600.0, 1e5]))


def gen_cfg_floats(rng, mode):
    """8 entries, None = default.  mode 'default', 'sane' (positive limits), 'any'"""
    if mode == "default":
        return [None] * 8
    if mode == "sane":
        f = [None] * 8
        if rng.random() < 0.7:
            f[0] = bits(rng.choice([0.0, 1e-9, 0.01, 0.128, 1.0, 1800.0, 1e9, float("inf")]))
        if rng.random() < 0.5:
            f[1] = bits(10.0 ** rng.uniform(-9, 0))
        if rng.random() < 0.5:
            f[2] = bits(10.0 ** rng.uniform(-3, 4))
        if rng.random() < 0.6:
            f[3] = bits(rng.choice([0.0, 1e-9, 100e-6, 495e-6, 0.01, 0.5, 0.999, 1.0, 2.0, 1e10, float("inf")]))
        if rng.random() < 0.4:
            f[4] = bits(rng.choice([0.0, 0.5, 1.0, 2.0, 5.0]))
        if rng.random() < 0.4:
            f[5] = bits(rng.choice([0.0, 0.5, 1.0, 2.0]))
        if rng.random() < 0.4:
            f[6] = bits(rng.choice([0.0, 1.0, 2.0]))
        if rng.random() < 0.4:
            f[7] = bits(rng.choice([0.0, 0.5, 1.0]))
        return f
    f = [None] * 8
    for k in range(8):
        if rng.random() < 0.5:
            f[k] = gen_float(rng) if rng.random() < 0.5 else gen_moderate(rng, -9, 3)
    # avoid the one place where the result of f64::min is unspecified (zeros of different sign)
    return f


def float_of(case_floats, k):
    names = ["step_threshold", "slew_max", "slew_min_dur", "max_freq", "off_thr", "off_left", "freq_thr", "freq_left"]
    v = case_floats[k]
    return DEFAULTS[names[k]] if v is None else unbits(v)


def gen_update(rng, sid, time, case, big=False):
    """a source_message whose snapshot asks for an offset / frequency correction"""
    step_thr = bits(float_of(case["floats"], 0))
    r = rng.random()
    if r < 0.6:
        o = gen_change(rng, case["thr"], step_thr)
    elif r < 0.8:
        o = gen_moderate(rng, -9, -2)
    else:
        o = gen_moderate(rng, -4, 4)
    f = gen_moderate(rng, -12, -3) if rng.random() < 0.9 else gen_float(rng)
    p00 = bits(10.0 ** rng.uniform(-20, -2)) if rng.random() < 0.9 else gen_float(rng)
    p11 = bits(10.0 ** rng.uniform(-20, -8)) if rng.random() < 0.9 else gen_float(rng)
    p01 = bits(0.0) if rng.random() < 0.7 else bits(10.0 ** rng.uniform(-20, -10))
    delay = bits(10.0 ** rng.uniform(-5, -1))
    wander = bits(10.0 ** rng.uniform(-12, -6))
    leap = rng.choice([0, 0, 0, 1, 2, 3])
    return ("M", sid, time, o, f, p00, p01, p11, delay, wander, leap)


def gen_case(rng, kind):
    """kind: 'steps' (C01: mostly direct steer_offset), 'freq' (C02: mostly frequency), 'history' (updates)"""
    weird = rng.random() < 0.25
    mode = rng.choice(["default", "sane", "sane", "any"]) if kind != "history" else rng.choice(["default", "sane"])
    case = {"thr": gen_thresholds(rng, weird), "floats": gen_cfg_floats(rng, mode),
            "f0": 0, "su": 1, "minsrc": 1, "ops": []}
    r = rng.random()
    if r < 0.5:
        case["f0"] = bits(rng.choice([0.0, 1e-6, -20e-6, 495e-6, -500e-6, 0.01]))
    elif r < 0.8:
        case["f0"] = gen_moderate(rng, -9, 2)
    else:
        case["f0"] = gen_float(rng)
    case["su"] = 1 if rng.random() < (0.5 if kind != "history" else 0.9) else 0
    step_thr = bits(float_of(case["floats"], 0))
    n = rng.randrange(1, 13)
    ops = []
    time = 0
    have_src = False
    for _ in range(n):
        r = rng.random()
        if kind == "steps":
            w = (0.70, 0.82, 0.90, 1.0)     # SO, M, T, SF
        elif kind == "freq":
            w = (0.30, 0.42, 0.55, 1.0)
        else:
            w = (0.10, 0.85, 0.95, 1.0)
        if r < w[0]:
            ch = gen_change(rng, case["thr"], step_thr)
            fd = bits(0.0) if rng.random() < 0.5 else (gen_moderate(rng, -12, -3) if rng.random() < 0.9 else gen_float(rng))
            ops.append(("SO", ch, fd))
        elif r < w[1]:
            if not have_src:
                nsrc = rng.choice([1, 1, 1, 2, 3])
                for s in range(nsrc):
                    ops.append(("A", s + 1))
                    ops.append(("U", s + 1, 1))
                have_src = nsrc
                case["minsrc"] = rng.choice([1, 1, 1, 2])
            sid = rng.randrange(1, have_src + 1)
            rr = rng.random()
            if rr < 0.6:
                time += 0
            elif rr < 0.9:
                time += rng.randrange(1, 64 * U)
            else:
                time = max(0, time - rng.randrange(1, U))   # a late message: early return
            ops.append(gen_update(rng, sid, time, case))
            if rng.random() < 0.05:
                ops.append(("U", sid, rng.choice([0, 1])))
            if rng.random() < 0.03:
                ops.append(("R", sid))
        elif r < w[2]:
            ops.append(("T",))
        else:
            rr = rng.random()
            if rr < 0.5:
                ch = gen_moderate(rng, -12, -2)
            elif rr < 0.8:
                ch = gen_float(rng)
            else:
                ch = bits(rng.choice([0.0, -1.0, 1.0, -2.0, 1e-3, -1e-3, 495e-6, -495e-6, 1e308, -1e308]))
            ops.append(("SF", ch))
    case["ops"] = ops
    return case


def accumulate_case(rng):
    """post-startup steps of alternating sign that add up to the accumulated threshold"""
    a = rng.choice([1000.0, 1800.0, 5000.0, 12345.0])
    k = rng.randrange(2, 7)
    acc = dur_units(a)
    g = rng.choice([None, dur_units(a), dur_units(a / 2) + rng.choice([-1, 0, 1])])
    case = {"thr": (rng.choice([None, dur_units(10.0)]), None, g, g, acc + rng.choice([-2, -1, 0, 1, 2])),
            "floats": [None] * 8, "f0": 0, "su": 0, "minsrc": 1, "ops": []}
    sign = rng.choice([1, -1])
    for j in range(k + rng.choice([0, 1, 2])):
        d = acc // k + rng.choice([-1, 0, 0, 1])
        case["ops"].append(("SO", bits(sign * d / U), bits(0.0)))
        if rng.random() < 0.8:
            sign = -sign
    return case


def first_step_case(rng):
    """startup: one source, the first consensus asks for a step; thresholds differ between startup and later"""
    big = dur_units(rng.choice([100.0, 1800.0, 7200.0]))
    small = dur_units(rng.choice([1.0, 10.0, 50.0]))
    if rng.random() < 0.5:
        thr = (big, big, small, small, None)
    else:
        thr = (small, small, big, big, rng.choice([None, 4 * big]))
    case = {"thr": thr, "floats": [None] * 8, "f0": bits(rng.choice([0.0, 1e-5])), "su": 1, "minsrc": 1, "ops": [("A", 1), ("U", 1, 1)]}
    t = 0
    for j in range(rng.randrange(1, 5)):
        v = rng.choice([big, small])
        o = near_units(rng, rng.choice([1, -1]) * (v + rng.choice([-2 * U, 0, 0, 2 * U, U // 1000])))
        case["ops"].append(("M", 1, t, o, bits(1e-7), bits(1e-12), bits(0.0), bits(1e-16), bits(1e-3), bits(1e-9), 0))
        t += rng.randrange(0, 16 * U)
    return case


def slew_case(rng):
    """slews with |change|/duration above and below slew_max, then time_update"""
    slew_max = 10.0 ** rng.uniform(-7, -2)
    dur = 10.0 ** rng.uniform(-1, 3)
    stt = rng.choice([0.01, 0.128, 10.0])
    mf = rng.choice([495e-6, 1e-4, 0.01, 0.5])
    case = {"thr": (None, None, None, None, None),
            "floats": [bits(stt), bits(slew_max), bits(dur), bits(mf), None, None, None, None],
            "f0": bits(rng.choice([0.0, 3e-5, -4e-4])), "su": rng.choice([0, 1]), "minsrc": 1, "ops": []}
    for j in range(rng.randrange(1, 6)):
        r = rng.random()
        if r < 0.7:
            edge = slew_max * dur
            ch = rng.choice([edge, edge * 0.5, edge * 2, min(stt, edge * 10), stt, ulp_step(edge, 1), ulp_step(edge, -1), 1e-9, stt * 0.999])
            ch = min(ch, stt) if rng.random() < 0.9 else ch
            case["ops"].append(("SO", bits(ch * rng.choice([1, -1])), bits(rng.choice([0.0, 1e-7, -1e-6]))))
        elif r < 0.9:
            case["ops"].append(("T",))
        else:
            case["ops"].append(("SF", gen_moderate(rng, -9, -3)))
    return case


def corpus_cases():
    """fixed cases that are always run first: the known C32/C01 witness and the census of branches"""
    z = bits(0.0)
    cs = []
    # the i64::MIN witness of DESIGN.md 4 row 1: backward threshold inf, one step of -2^31 s, then ordinary steps
    cs.append({"thr": (None, None, None, None, dur_units(1800.0)), "floats": [None] * 8, "f0": z, "su": 0, "minsrc": 1,
               "ops": [("SO", bits(-2.0 ** 31), z), ("SO", bits(1000.0), z), ("SO", bits(-1000.0), z)]})
    cs.append({"thr": (None, None, dur_units(1800.0), None, dur_units(1800.0)), "floats": [None] * 8, "f0": z, "su": 0, "minsrc": 1,
               "ops": [("SO", bits(-1e300), z), ("SO", bits(1000.0), z), ("SO", bits(1000.0), z)]})
    # the repo's own unit tests
    cs.append({"thr": (None, None, None, None, dur_units(1800.0)), "floats": [None] * 8, "f0": z, "su": 0, "minsrc": 1,
               "ops": [("SO", bits(1000.0), z), ("SO", bits(-1000.0), z)]})
    cs.append({"thr": (None, None, None, None, None), "floats": [bits(1800.0)] + [None] * 7, "f0": z, "su": 0, "minsrc": 1,
               "ops": [("SO", bits(1000.0), z)]})
    # zero-size request: 0/0 in the slew branch
    cs.append({"thr": (None, None, None, None, None), "floats": [None] * 8, "f0": z, "su": 1, "minsrc": 1,
               "ops": [("SO", z, z)]})
    # clamp assert: negative maximum
    cs.append({"thr": (None, None, None, None, None), "floats": [None, None, None, bits(-1e-6)] + [None] * 4, "f0": z, "su": 1, "minsrc": 1,
               "ops": [("SF", bits(1e-6))]})
    return cs
