"""C01: clock steps never exceed the configured panic thresholds.
Model: coq/Model/Controller.v; theorems: coq/Props/C01.v; tie: the real KalmanClockController with a recording
mock clock through harness/ntp-proto/c01.rs (k1_common.rs)."""
import glob
import json
import os

from tools import vplib
from tools.props import k1gen as g


def within(fwd, bwd, d):
    """the property's notion: a step of d (units of 2^-32 s) lies inside the threshold (mathematical negation)"""
    return (fwd is None or d < fwd) and (bwd is None or d > -bwd)


def monitor_parsed(case, p):
    """The property statement evaluated on one implementation run, independent of the Coq model:
    every step_clock(d) made before the first successful consensus lies inside the startup threshold, every later
    one inside the single-step threshold, the mathematical sum of |d| of the later ones stays <= the accumulated
    threshold (when that threshold is below the saturation value of the duration type), and a direct steering
    request that would violate a threshold ends in the exit, without a step."""
    sf, sb, gf, gb, acc = case["thr"]
    synced = case["su"] == 0
    total = 0
    cls = None
    if sb == g.I64_MIN or gb == g.I64_MIN:
        cls = "C32-i64-min"
    for rec in p.ops:
        op = rec["op"]
        steps = [a for c, a in rec["calls"] if c == 2]
        if len(steps) > 1:
            return ("more than one step_clock call in one operation: %s" % (rec,), {"class": cls})
        for d in steps:
            if d == g.I64_MIN:
                cls = "C32-i64-min"
            if not synced:
                if not within(sf, sb, d):
                    return ("startup step of %d units (%.6f s) outside the startup threshold fwd=%s bwd=%s"
                            % (d, d / g.U, sf, sb), {"class": cls, "step": d})
            else:
                if not within(gf, gb, d):
                    return ("step of %d units (%.6f s) outside the single-step threshold fwd=%s bwd=%s"
                            % (d, d / g.U, gf, gb), {"class": cls, "step": d})
                total += abs(d)
                if acc is not None and acc < g.I64_MAX and total > acc:
                    return ("post-startup steps add up to %d units (%.3f s), above the accumulated threshold %d (%.3f s)"
                            % (total, total / g.U, acc, acc / g.U), {"class": cls, "sum": total})
        if op[0] == "SO" and rec["tap"] is not None and p.floats is not None:
            ch = g.unbits(op[1])
            st = g.unbits(p.floats[0])
            d = rec["tap"]
            if abs(ch) > st:    # false for NaN on either side, as in the code
                if not synced:
                    bad = not within(sf, sb, d)
                else:
                    # total already contains d if the step was made
                    t = total if steps else total + abs(d)
                    bad = (not within(gf, gb, d)) or (acc is not None and acc < g.I64_MAX and t > acc)
                if bad and (steps or rec["end"] != 1):
                    return ("steering request of %d units violates a threshold but the controller did not stop: calls %s end %s"
                            % (d, rec["calls"], rec["end"]), {"class": cls, "step": d})
                if (not bad) and not steps and rec["end"] == 1 and (acc is None or acc < g.I64_MAX) and cls is None:
                    # not a violation of C01 (stopping is always safe) -- but the model must agree; nothing to report
                    pass
        if rec["end"] is not None:
            break
        if op[0] == "M" and rec["tap"] not in (None, ()):
            synced = True
    return None


def main():
    c = vplib.Check("C01")
    c.run_gate()
    rng = c.rng
    quick = c.tier == "quick"
    cases = list(g.corpus_cases())
    for f in sorted(glob.glob(os.path.join(vplib.VERIF, "corpus", "C01", "*.json"))):
        cases.append(json.load(open(f)))
    n = 1 if quick else 6
    for _ in range(1100 * n):
        cases.append(g.gen_case(rng, "steps"))
    for _ in range(250 * n):
        cases.append(g.gen_case(rng, "history"))
    for _ in range(250 * n):
        cases.append(g.accumulate_case(rng))
    for _ in range(250 * n):
        cases.append(g.first_step_case(rng))
    for _ in range(100 * n):
        cases.append(g.slew_case(rng))
    for _ in range(50 * n):
        cases.append(g.gen_case(rng, "freq"))
    for cs in cases:
        cs["thr"] = tuple(cs["thr"])
        cs["ops"] = [tuple(o) for o in cs["ops"]]

    parsed = {}
    dist = {"cases": len(cases), "ops": 0, "steps_startup": 0, "steps_running": 0, "exit": 0, "other_panic": 0,
            "set_frequency": 0, "updates_with_consensus": 0, "updates_without": 0, "thr_none": 0, "thr_asym": 0,
            "thr_zero": 0, "step_of_i64_min": 0}

    def get(case, out):
        k = id(case)
        if k not in parsed:
            parsed[k] = g.parse(case, out)
        return parsed[k]

    def monitor(case, out):
        p = get(case, out)
        if not p.ok:
            return None
        m = monitor_parsed(case, p)
        if m:
            what, payload = m
            payload = {k: v for k, v in payload.items() if v is not None}
            payload["case"] = {"thr": case["thr"], "floats": case["floats"], "f0": case["f0"], "su": case["su"],
                               "minsrc": case["minsrc"], "ops": case["ops"]}
            return (what, payload)
        return None

    def coq_case(case, out):
        p = get(case, out)
        if not p.ok:
            c.not_shown_because("correspondence C01: " + p.why)
            return None
        t = case["thr"]
        dist["thr_none"] += sum(1 for v in t if v is None)
        dist["thr_zero"] += sum(1 for v in t if v == 0)
        dist["thr_asym"] += (t[0] != t[1]) + (t[2] != t[3])
        su = case["su"] == 1
        for rec in p.ops:
            dist["ops"] += 1
            for cc, a in rec["calls"]:
                if cc == 2:
                    dist["steps_startup" if su else "steps_running"] += 1
                    if a == g.I64_MIN:
                        dist["step_of_i64_min"] += 1
                if cc == 3:
                    dist["set_frequency"] += 1
            if rec["end"] == 1:
                dist["exit"] += 1
            elif rec["end"] is not None:
                dist["other_panic"] += 1
            if rec["op"][0] == "M":
                dist["updates_with_consensus" if rec["tap"] else "updates_without"] += 1
            if rec["state"] is not None:
                su = rec["state"][0] == 1
        return g.coq_case(case, p)

    def nontrivial(case, out):
        p = get(case, out)
        return p.ok and any(rec["end"] == 1 or any(cc == 2 for cc, _ in rec["calls"]) for rec in p.ops)

    c.cov["rule"] = ("histories of controller operations (direct steer_offset / steer_frequency calls, source messages whose "
                     "combined estimate is tapped, time_update) on the real KalmanClockController under random threshold "
                     "configurations (None, zero, asymmetric, negative, i64::MAX/MIN) with requests at threshold +-3 units, "
                     "step_threshold +-2 ulp, +-2^31 s, +-1e300, inf, NaN, zeros; alternating-sign accumulation sequences; "
                     "first-step histories with different startup/single thresholds; compared: every clock call with its "
                     "argument, accumulated_steps, in_startup, freq_offset, desired_freq after each operation, the exit, and "
                     "from_seconds of every direct request.  A case is non-trivial when it steps the clock or exits.")
    vplib.correspondence(
        c, "ntp-proto", cases,
        line_of=g.line_of,
        coq_case_of=coq_case,
        preamble=g.PREAMBLE,
        checker=g.CHECKER,
        monitor=monitor,
        nontrivial=nontrivial,
        shard=150,
        sample_of=lambda case, out: {"input": g.line_of(case)[:400], "output": " ".join(out)[:400]},
    )
    c.cov["distribution"] = dist
    c.assumptions += [
        "hand-written model coq/Model/Controller.v (check_offset_steer, is_within, steer_offset, steer_frequency, "
        "change_desired_frequency, update_clock's steering decision, from_seconds on primitive floats); tied by the correspondence above",
        "the combined estimate of update_clock is an oracle input (tapped from the controller's own select/combine); theorems hold for every estimate",
        "process::exit in production is panic!(\"Threshold exceeded\") under cfg(test) (two sites, census in Gen/ConstController.v)",
        "which NtpDuration::abs / Neg the tree has is read by the constants translator (ABS_WRAP_SITES, NEG_WRAP_SITES); theorems are proved for both",
        "ntpd/src/daemon/clock.rs hands (seconds, nanos) of the step to the kernel through clock-steering (C01_kernel_step is about as_seconds_nanos only); "
        "ntp-ctl force-sync steps the clock on operator request and is outside the daemon's controller",
    ]
    return c.finish()


MANIFEST = {
    "claimed": True,
    "text": "Theorems (Coq, closed under the global context; for every threshold configuration -- None/inf, zero, negative, asymmetric, "
            "i64 extremes -- every algorithm configuration, every starting state and every list of controller operations, by induction "
            "over the list; an update operation carries an arbitrary combined estimate, direct steer_offset/steer_frequency calls carry "
            "arbitrary f64 arguments): every step_clock made while in_startup is set lies inside the startup threshold (C01_startup_steps), "
            "every later one inside the single-step threshold (C01_single_steps), the mathematical sum of |d| of the later steps is <= the "
            "accumulated threshold a for 0 <= a < i64::MAX (C01_accumulated; unconditional for the saturating abs of the repaired tree "
            "= C01_accumulated_saturating, and for the wrapping abs whenever the single-step threshold bounds backward steps = "
            "C01_accumulated_finite_backward; C01_accumulated_refuted is the i64::MIN witness on the unrepaired arithmetic), "
            "accumulated_steps equals that sum clipped at i64::MAX (C01_accumulated_is_sum), a request above step_threshold exits "
            "without any clock call exactly when it violates a threshold and otherwise makes exactly one step (C01_exit_instead_of_step), "
            "no operation that ends in the exit or a panic has stepped (C01_no_step_when_stopping), slews never step, nothing happens after "
            "the exit (C01_nothing_after_exit), in_startup is cleared exactly by the first completed consensus update (C01_startup_flag), "
            "as_seconds_nanos hands the kernel the step rounded down to 1 ns (C01_kernel_step). The model is run against the real "
            "KalmanClockController (recording mock clock) on ~2000 histories per quick run, comparing every clock call, accumulated_steps, "
            "in_startup, freq_offset, desired_freq, the exit, and from_seconds bit for bit.",
    "note": "Holds on the tree with branch fix-c32 (saturating NtpDuration abs/neg); on the unrepaired tree the check reports the i64::MIN "
            "history (step of -2^31 s with backward threshold inf makes accumulated_steps negative; or backward threshold i64::MIN). "
            "The model selects wrapping/saturating abs and neg from the sources (Gen/ConstController.v ABS_WRAP_SITES/NEG_WRAP_SITES) and all "
            "theorems are proved for both. Trusted: Coq kernel+vm_compute; hand-written model coq/Model/Controller.v incl. from_seconds on "
            "primitive floats (only its i64 range is used by the theorems); the combined estimate of update_clock is an oracle input tapped "
            "from the controller's own select/combine calls (selection/combination are C03/C06); process::exit is panic! under cfg(test) "
            "(2 sites, census); site census of step_clock/set_frequency/check_offset_steer/state writes in kalman/mod.rs (Proofs census lemma); "
            "the clock-steering syscall wrapper; `ntp-ctl force-sync` steps the clock on operator request outside the controller. "
            "Thresholds >= 2^31 s saturate the duration type and are treated as unbounded (a < i64::MAX). Print Assumptions: closed under the "
            "global context apart from the primitive float/int63 types and operations the model's definitions mention.",
    "design_ref": "DESIGN.md 3 C01",
}
