"""C22: no datagram can crash the NTP server.  Models: coq/Model/Server.v (decision structure, explicit panic
sites), coq/Model/ServerBytes.v (byte-level decoder of Model/Packet.v ; summary ; decision); theorems:
coq/Props/C22.v; tie: Server::handle on malformed / truncated / bit-flipped / length-lying datagrams and on
environments that do trigger the modelled panic sites (harness/ntp-proto/c22.rs); for the datagrams whose bytes
the driver knows, the decoder summary is recomputed from the bytes by the Coq decoder and compared with what
the real NtpPacket::deserialize reported."""
from tools import vplib
from tools.props import p2a_common as P

ALL_BASES = ["p3", "p4", "p4u", "p5", "n4:1", "n5:1", "n4:3", "n5:8", "n4b:2", "n5b:1", "n4k", "n5k", "n4w", "n5w"]


def open_cfg(rng):
    cfg = P.gen_cfg(rng, cache=rng.choice([0, 0, 1, 3]), cutoff=rng.choice([0, 60 * P.MIN]))
    if rng.random() < 0.8:
        cfg["deny"], cfg["allow"] = [], ["0.0.0.0/0", "::/0"]
    cfg["accepted"] = rng.choice(["345", "345", "345", "34", "5"])
    return cfg


def nts_shaped(rng):
    """a datagram built byte by byte that LOOKS like an NTS request: unique identifier, (mostly) a cookie field of random
    bytes, (v5) the draft identification, and a structurally well-formed NTS authenticator field.  No key of the server
    is involved, so the authenticator cannot verify: the decoder's answer is a decrypt error (v4/v5) - the outcome class the
    other raw streams hardly ever reach - or, with a version-3 header, whatever the MAC rules say"""
    v = rng.choice([4, 4, 5, 5, 3])
    hdr = bytearray(rng.randrange(256) for _ in range(48))
    hdr[0] = (rng.randrange(4) << 6) | (v << 3) | rng.choice([3, 3, 3, 3, 4, 1])
    if v == 5:
        hdr[12], hdr[14], hdr[15] = 0, 0, rng.choice([0, 1, 2])

    def rnd(n):
        return bytes(rng.randrange(256) for _ in range(n))

    def ef(t, body):
        ln = 4 + len(body)
        return bytes([t >> 8, t & 255, ln >> 8, ln & 255]) + body
    out = bytes(hdr) + ef(0x0104, rnd(32))
    r = rng.random()
    if r < 0.45:
        out += ef(0x0204, rnd(rng.choice([100, 104, 136, 40, 20])))
    elif r < 0.8:
        # a cookie body that starts with a key id the server's key set can hold (small ids) and has a length
        # around the decoder's minimum (id 4 + ciphertext length 2 + nonce 16): every length guard and slice of
        # decode_cookie is exercised (added after a seeded change that weakened that guard)
        n = rng.choice([4, 6, 8, 16, 19, 20, 20, 21, 21, 22, 22, 23, 24, 26, 38, 40])
        out += ef(0x0204, bytes([0, 0, 0, rng.choice([0, 0, 1, 2])]) + rnd(n - 4))
    if v == 5 and rng.random() < 0.7:
        out += ef(0xF5FF, P.DRAFT + b"\x00" * ((4 - len(P.DRAFT) % 4) % 4))
    nl, cl = rng.choice([16, 16, 16, 12, 0, 32]), rng.choice([16, 32, 48, 20])
    body = bytes([nl >> 8, nl & 255, cl >> 8, cl & 255]) + rnd(nl) + b"\x00" * ((4 - nl % 4) % 4) + rnd(cl) + b"\x00" * ((4 - cl % 4) % 4)
    return out + ef(0x0404, body)


def malformed(rng, quick):
    res = []

    def one(base, muts, buf="="):
        res.append({"cfg": open_cfg(rng), "ops": [{"ip": rng.choice(P.POOL), "base": base, "premode": "-", "muts": muts,
                                                   "buf": buf, "age": 0}]})
    for base in ALL_BASES:
        n = P.est_len(base) + (2 if base[0] == "p" else 420)
        # truncation at every offset (thorough) / at every header offset and a sample beyond (quick)
        offs = range(0, n + 1) if not quick else sorted(set(list(range(0, 53)) + rng.sample(range(53, n + 1), min(25, max(0, n - 52)))))
        for k in offs:
            one(base, ["t%d" % k])
        # single-bit flips at every position of the first 100 bytes (thorough) / sampled (quick)
        limit = min(n, 300 if not quick else 100)
        poss = range(limit) if not quick else rng.sample(range(limit), min(limit, 30))
        for k in poss:
            one(base, ["x%d:%02x" % (k, 1 << rng.randrange(8))])
        # length-field lies on the first extension fields
        for k in (50, 51, 86, 87, 90, 91):
            for v in ("ff", "01", "80", "04"):
                if not quick or rng.random() < 0.35:
                    one(base, ["x%d:%s" % (k, v)])
    # arbitrary byte strings up to and beyond the 1024-byte receive size
    for ln in ([0, 1, 2, 47, 48, 49, 52, 64, 68, 76, 1023, 1024, 1025, 1500] + [rng.randrange(0, 1100) for _ in range(60 if quick else 800)]):
        b = bytearray(rng.randrange(256) for _ in range(ln))
        if ln and rng.random() < 0.8:
            b[0] = (b[0] & 0xC0) | (rng.choice([3, 4, 5]) << 3) | rng.choice([3, 3, 3, 4, 1])
        one("raw:" + bytes(b).hex() if ln else "raw:-", [])
    # grammar-built plain packets with assorted extension fields and lies
    for _ in range(300 if quick else 2500):
        one("raw:" + P.raw_packet(rng, mode=rng.choice([3, 3, 3, 4, 0, 7])).hex(), P.gen_mutations(rng, 120) if rng.random() < 0.4 else [],
            buf=rng.choice(["=", "=", 1024, 0, 4, 48]))
    # NTS-shaped datagrams built byte by byte (decrypt-error class from bytes the driver knows)
    for _ in range(80 if quick else 800):
        one("raw:" + nts_shaped(rng).hex(), P.gen_mutations(rng, 150) if rng.random() < 0.3 else [], buf=rng.choice(["=", "=", 1024]))
    return res


def environment(rng, quick):
    """scenarios in which the modelled environment panic sites fire (clock unreadable, negative published root
    delay): the implementation must panic exactly where the model says Panic"""
    res = []
    for clock_fail, root_delay in ((1, 0), (0, -1), (0, -(1 << 40)), (1, -5)):
        for base in ("p3", "p4", "p5", "n4:1", "n5:2", "n4k", "n5w"):
            for da, deny in (("d", []), ("d", ["1.2.3.0/24"]), ("i", ["1.2.3.0/24"])):
                for rn in "nid":
                    for buf in ("=", 0, 3, 4):
                        if quick and rng.random() < 0.5:
                            continue
                        cfg = {"deny_action": da, "allow_action": "i", "deny": deny, "allow": ["0.0.0.0/0", "::/0"], "cache": 0,
                               "cutoff": 0, "require_nts": rn, "accepted": "345", "stratum": 2, "root_delay": root_delay,
                               "clock_fail": clock_fail}
                        res.append({"cfg": cfg, "ops": [{"ip": "1.2.3.4", "base": base, "premode": "-", "muts": [], "buf": buf, "age": 0}]})
    return res


def raw_bytes(o):
    """the datagram of an op whose bytes the driver knows (raw:<hex> base): the mutations of
    harness/ntp-proto/p2a_common.rs build_request, re-applied here; None for the bases built in Rust"""
    if not o["base"].startswith("raw:"):
        return None
    h = o["base"][4:]
    b = bytearray() if h == "-" else bytearray.fromhex(h)
    for m in o["muts"]:
        op, arg = m[0], m[1:]
        if op in "xs":
            i, v = arg.split(":")
            i, v = int(i), int(v, 16)
            if i < len(b):
                b[i] = (b[i] ^ v) if op == "x" else v
        elif op == "t":
            del b[int(arg):]
        elif op == "a":
            b += bytes.fromhex(arg)
        else:
            return None
    return bytes(b)


PREAMBLE = ("From V Require Import Model.Server Model.ServerBytes.\n"
            "Definition sc_in (c a : list Z) (t : list (Z * Z)) (o : list (list Z)) := (c, a, t, o).\n"
            "Definition sc_inb (i : list Z * list Z * list (Z * Z) * list (list Z)) (r : list (option (list Z))) := (i, r).\n"
            "Definition sc_out (x : list (list Z)) := x.\n")
CHECKER = "mismatches zll_eqb scenario_run_bytes"
BYTES_STATS = {"summaries_recomputed_from_bytes": 0, "of_which_decoded_a_packet": 0, "of_which_decrypt_error": 0,
               "bytes_not_known_to_driver": 0, "length_or_first_byte_disagrees": 0}


def wrap_terms(sc, ops_out, terms):
    """model input/output of Model.ServerBytes.scenario_run_bytes: the scenario of Model.Server.scenario_run plus,
    per datagram, the bytes (when the driver knows them); expected: the implementation's outputs followed by the
    decoder summaries the harness read off the real NtpPacket::deserialize"""
    inp, out = terms
    z = vplib.zlit
    if ops_out is None:
        return "(sc_inb %s [])" % inp, out
    raws, sums = [], []
    for o, d in zip(sc["ops"], ops_out):
        b = raw_bytes(o)
        if b is not None and (len(b) != d["len"] or (b[0] if b else -1) != d["b0"]):
            BYTES_STATS["length_or_first_byte_disagrees"] += 1
            b = None
        if b is None:
            BYTES_STATS["bytes_not_known_to_driver"] += 1
            raws.append("None")
        else:
            BYTES_STATS["summaries_recomputed_from_bytes"] += 1
            BYTES_STATS["of_which_decoded_a_packet"] += 1 if d["parse"] != 2 else 0
            BYTES_STATS["of_which_decrypt_error"] += 1 if d["parse"] == 1 else 0
            raws.append("(Some %s)" % vplib.coq_list([z(x) for x in b]))
        sums.append(vplib.coq_list([z(d["fbv"]), z(d["parse"]), z(d["ver"]), z(d["client"]), z(d["cookie"])]))
    return "(sc_inb %s %s)" % (inp, vplib.coq_list(raws)), "(sc_out (%s ++ %s))" % (out, vplib.coq_list(sums))


def main():
    c = vplib.Check("C22")
    c.run_gate()
    rng = c.rng
    quick = c.tier == "quick"
    scenarios = malformed(rng, quick)
    env = environment(rng, quick)
    scenarios += env
    for _ in range(400 if quick else 3000):
        cfg = P.gen_cfg(rng)
        scenarios.append({"cfg": cfg, "ops": [P.gen_op(rng) for _ in range(rng.choice([1, 2, 5]))]})
    rp = P.replay_tokens()
    if rp is not None:
        scenarios = [P.scenario_of_line(rp)] if rp and rp[0] == "srv" else []
    outs, stats = P.run_scenarios(c, scenarios, P.monitor_c22, compare_c15_class=True, preamble=PREAMBLE, checker=CHECKER,
                                  wrap_terms=wrap_terms)
    stats["environment_scenarios"] = len(env)
    stats["decoder_summary_from_bytes"] = dict(BYTES_STATS)
    c.cov["distribution"] = stats
    c.cov["rule"] = ("Server::handle on: truncations (every header offset, sampled/all later offsets), single-bit flips, extension-field length "
                     "lies of 14 request shapes (plain v3/v4/v5, NTS v4/v5 with 1-8 cookies and both AEADs, foreign-cookie, wrong-key), arbitrary "
                     "byte strings of 0-1500 bytes, grammar-built packets with assorted/lying extension fields and MAC-like tails, byte-built "
                     "NTS-shaped requests (cookie field of random bytes + well-formed authenticator field: decrypt errors); random "
                     "configurations and buffer sizes; plus %d environment scenarios (unreadable clock, negative published root delay) where "
                     "the modelled panic sites must fire exactly as modelled.  Compared: panic/no panic, answer kind, registrations, and for "
                     "every datagram given as raw bytes (arbitrary strings, grammar-built packets, their mutations) the decoder summary "
                     "(fallback version, outcome class, version, client mode, cookie) computed by Model/ServerBytes.v from the bytes "
                     "against the real decoder's.  Non-trivial: decoder returned a packet" % len(env))
    c.assumptions += P.COMMON_ASSUMPTIONS + [
        "panic sites of the answer builders/serialiser other than the environment-triggered ones are not in the composed model "
        "(Model/ServerBytes.v: decoder ; summary ; decision); they are only exercised: any panic of Server::handle on a generated "
        "datagram with a healthy environment is a violation",
        "the summary function of Model/ServerBytes.v is compared with the real decoder only on datagrams given as raw bytes, decoded "
        "in Coq with the always-failing decryption oracle (none of them carries material encrypted under a server key); for the "
        "NTS requests built in Rust (valid/foreign cookie, wrong key) the bytes are not known to the driver and the summary "
        "function is trusted there (it is five projections of the decoded packet)",
        "sites 2002 (poisoned lock) and 2006 (key set with primary >= |keys|, C27) are modelled but not driven by the harness",
        "a panicking scenario is compared with the model only when it is a single clean request (its decoder summary is known by construction)",
    ]
    return c.finish()


MANIFEST = {
    "claimed": True,
    "text": "PARTIAL (the answer construction stays outside). Theorems (Coq, closed). (a) From the bytes: handle_bytes (coq/Model/ServerBytes.v) = the byte-level model of NtpPacket::deserialize with the server's key set (coq/Model/Packet.v, every decoder panic site explicit, AEAD decryption an arbitrary oracle) ; the summary handle_inner reads off the result ; the decision model of Server::handle (coq/Model/Server.v, panic sites explicit: cache indexing, lock unwrap, unreachable!() of the Ignore arm, 'NTS shouldn't work with NTPv3', clock expect, keys[primary]/encrypt expect, assert!(root_delay >= 0)). For EVERY byte string, every decryption oracle, every key set, address, configuration, cache state, hash function and buffer outcome, with a healthy environment (lock not poisoned, clock readable, key set usable, published root delay >= 0), handle_bytes returns normally, also over any history of datagrams (C22_total_decode_and_decide_partial, C22_no_panic_decode_and_decide_partial, C22_history_decode_and_decide_partial); any panic of handle_bytes is one of the four environment sites under the negation of its hypothesis - no decoder site, not the cache index, not the unreachable!(), not the NTPv3 site (C22_panic_sites_bytes); the former hypothesis 'the summary is one the decoder can produce' is now proved of the decoder (C22_decoder_v3: a decoded NTPv3 packet never carries a cookie or a failed authenticator). (b) The older theorems over arbitrary summaries are kept (C22_total_partial, C22_history_total_partial, C22_panic_sites, C22_cache_total). (c) Answer construction: C22_answer_sites_partial - over P2b's model of the response builders and NtpPacket::serialize on parsed requests (coq/Model/Response.v), the five panic sites that model makes explicit (two field-encoder assertions, three 'NTS shouldn't work with NTPv3') are unreachable for every request the decoder can report, every reachable intended action, every buffer. Missing for the full statement: totality of the real answer builders/serialiser beyond those sites (slice arithmetic of encode_encrypted, Cipher::encrypt, Cursor), and the composition of (c) with (a); in (a) the answer construction is an input ('the built answer fits the buffer or not'). Tie: the real Server::handle on truncations at every offset, bit flips, length-field lies, arbitrary byte strings up to 1500 bytes and grammar-built packets (no panic allowed, outcome must match the model), plus environments that do fire the modelled sites (unreadable clock, negative root delay), where implementation and model must panic alike; for every datagram given as raw bytes the Coq decoder+summary of the same bytes must equal the summary of the real decoder.",
    "note": "Trusted: Coq kernel+vm_compute; hand-written models coq/Model/Server.v (decision structure and its list of panic sites, cross-checked by the census C22_site_census: counts of unwrap/expect/unreachable!/assert!/indexing regenerated from the sources on every run), coq/Model/Packet.v+ExtField.v+Bytes.v (P1's decoder model, tied by C23's correspondence and census), coq/Model/Response.v (P2b's, tied by C16-C19), and the new summary function of coq/Model/ServerBytes.v (five projections of the decoded packet: compared with the real decoder on raw-byte datagrams only, with the always-failing oracle; trusted for NTS requests that authenticate). handle_bytes decodes before intended_action (the code decodes only when the action is not Ignore): an over-approximation of the panics. The answer construction is not composed: e_ser_ok/e_buf_ge4 are inputs of handle_bytes, so it is assumed to return (Ok or error); Model/Response.v is not panic-site complete (no slicing/copy_within/cipher/cursor sites) and works on a different abstraction of the decoded packet than Model/Packet.v, so C22_answer_sites_partial is a separate statement over parsed requests with the decoder's NTPv3 guarantee as hypothesis (proved at byte level as C22_decoder_v3) and the state hypothesis |reference-id filter| <= 65535 (it is 512). Sites 2002 (poisoned lock) and 2006 (key set with primary >= |keys|, C27's defect) are modelled but not driven; 2006 is over-approximated (panics for every NTS time answer with an unusable key set). env_ok's root_delay >= 0 is an invariant of the controller's snapshots (C01/C06 builders), assumed here. Hypotheses wf_bytes (every element of the datagram is a byte) and oracle_wf (decryption returns byte strings) are typing conditions of the Z-list encoding. Memory safety and aes-siv internals are outside the model (#![forbid(unsafe_code)] in ntp-proto). Debug-only assertions are not release panics. Print Assumptions: closed under the global context for all ten theorems.",
    "design_ref": "DESIGN.md 3 C22",
}
