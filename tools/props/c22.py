"""C22: no datagram can crash the NTP server.  Model: coq/Model/Server.v with explicit panic sites; theorems:
coq/Props/C22.v; tie: Server::handle on malformed / truncated / bit-flipped / length-lying datagrams and on
environments that do trigger the modelled panic sites (harness/ntp-proto/c22.rs)."""
from tools import vplib
from tools.props import p2a_common as P

ALL_BASES = ["p3", "p4", "p4u", "p5", "n4:1", "n5:1", "n4:3", "n5:8", "n4b:2", "n5b:1", "n4k", "n5k", "n4w", "n5w"]


def open_cfg(rng):
    cfg = P.gen_cfg(rng, cache=rng.choice([0, 0, 1, 3]), cutoff=rng.choice([0, 60 * P.MIN]))
    if rng.random() < 0.8:
        cfg["deny"], cfg["allow"] = [], ["0.0.0.0/0", "::/0"]
    cfg["accepted"] = rng.choice(["345", "345", "345", "34", "5"])
    return cfg


def malformed(rng, quick):
    res = []

    def one(base, muts, buf="="):
        res.append({"cfg": open_cfg(rng), "ops": [{"ip": rng.choice(P.POOL), "base": base, "premode": "-", "muts": muts,
                                                   "buf": buf, "age": 0}]})
    for base in ALL_BASES:
        n = P.est_len(base) + (2 if base[0] == "p" else 420)
        # truncation at every offset (thorough) / at every header offset and a sample beyond (quick)
        offs = range(0, n + 1) if not quick else sorted(set(list(range(0, 53)) + rng.sample(range(53, n + 1), min(25, max(0, n - 52)))))
        for k in offs:
            one(base, ["t%d" % k])
        # single-bit flips at every position of the first 100 bytes (thorough) / sampled (quick)
        limit = min(n, 300 if not quick else 100)
        poss = range(limit) if not quick else rng.sample(range(limit), min(limit, 30))
        for k in poss:
            one(base, ["x%d:%02x" % (k, 1 << rng.randrange(8))])
        # length-field lies on the first extension fields
        for k in (50, 51, 86, 87, 90, 91):
            for v in ("ff", "01", "80", "04"):
                if not quick or rng.random() < 0.35:
                    one(base, ["x%d:%s" % (k, v)])
    # arbitrary byte strings up to and beyond the 1024-byte receive size
    for ln in ([0, 1, 2, 47, 48, 49, 52, 64, 68, 76, 1023, 1024, 1025, 1500] + [rng.randrange(0, 1100) for _ in range(60 if quick else 800)]):
        b = bytearray(rng.randrange(256) for _ in range(ln))
        if ln and rng.random() < 0.8:
            b[0] = (b[0] & 0xC0) | (rng.choice([3, 4, 5]) << 3) | rng.choice([3, 3, 3, 4, 1])
        one("raw:" + bytes(b).hex() if ln else "raw:-", [])
    # grammar-built plain packets with assorted extension fields and lies
    for _ in range(300 if quick else 2500):
        one("raw:" + P.raw_packet(rng, mode=rng.choice([3, 3, 3, 4, 0, 7])).hex(), P.gen_mutations(rng, 120) if rng.random() < 0.4 else [],
            buf=rng.choice(["=", "=", 1024, 0, 4, 48]))
    return res


def environment(rng, quick):
    """scenarios in which the modelled environment panic sites fire (clock unreadable, negative published root
    delay): the implementation must panic exactly where the model says Panic"""
    res = []
    for clock_fail, root_delay in ((1, 0), (0, -1), (0, -(1 << 40)), (1, -5)):
        for base in ("p3", "p4", "p5", "n4:1", "n5:2", "n4k", "n5w"):
            for da, deny in (("d", []), ("d", ["1.2.3.0/24"]), ("i", ["1.2.3.0/24"])):
                for rn in "nid":
                    for buf in ("=", 0, 3, 4):
                        if quick and rng.random() < 0.5:
                            continue
                        cfg = {"deny_action": da, "allow_action": "i", "deny": deny, "allow": ["0.0.0.0/0", "::/0"], "cache": 0,
                               "cutoff": 0, "require_nts": rn, "accepted": "345", "stratum": 2, "root_delay": root_delay,
                               "clock_fail": clock_fail}
                        res.append({"cfg": cfg, "ops": [{"ip": "1.2.3.4", "base": base, "premode": "-", "muts": [], "buf": buf, "age": 0}]})
    return res


def main():
    c = vplib.Check("C22")
    c.run_gate()
    rng = c.rng
    quick = c.tier == "quick"
    scenarios = malformed(rng, quick)
    env = environment(rng, quick)
    scenarios += env
    for _ in range(400 if quick else 3000):
        cfg = P.gen_cfg(rng)
        scenarios.append({"cfg": cfg, "ops": [P.gen_op(rng) for _ in range(rng.choice([1, 2, 5]))]})
    rp = P.replay_tokens()
    if rp is not None:
        scenarios = [P.scenario_of_line(rp)] if rp and rp[0] == "srv" else []
    outs, stats = P.run_scenarios(c, scenarios, P.monitor_c22, compare_c15_class=True)
    stats["environment_scenarios"] = len(env)
    c.cov["distribution"] = stats
    c.cov["rule"] = ("Server::handle on: truncations (every header offset, sampled/all later offsets), single-bit flips, extension-field length "
                     "lies of 14 request shapes (plain v3/v4/v5, NTS v4/v5 with 1-8 cookies and both AEADs, foreign-cookie, wrong-key), arbitrary "
                     "byte strings of 0-1500 bytes, grammar-built packets with assorted/lying extension fields and MAC-like tails; random "
                     "configurations and buffer sizes; plus %d environment scenarios (unreadable clock, negative published root delay) where "
                     "the modelled panic sites must fire exactly as modelled.  Compared: panic/no panic, answer kind, registrations.  "
                     "Non-trivial: decoder returned a packet" % len(env))
    c.assumptions += P.COMMON_ASSUMPTIONS + [
        "panic sites of the decoder and of the serialiser are not in this model (C23 / C16-C19); here they are only exercised: any panic of "
        "Server::handle on a generated datagram with a healthy environment is a violation",
        "sites 2002 (poisoned lock) and 2006 (key set with primary >= |keys|, C27) are modelled but not driven by the harness",
        "a panicking scenario is compared with the model only when it is a single clean request (its decoder summary is known by construction)",
    ]
    return c.finish()


MANIFEST = {
    "claimed": True,
    "text": "PARTIAL. Theorems (Coq, closed) about the decision model of Server::handle with its panic sites explicit (cache indexing, lock unwrap, unreachable!() of the Ignore arm, 'NTS shouldn't work with NTPv3', clock expect, keys[primary]/encrypt expect, assert!(root_delay >= 0)): for every address, configuration, cache state, hash function, buffer outcome and every decoder summary the decoder can produce, with a healthy environment (lock not poisoned, clock readable, key set usable, published root delay >= 0) handle returns normally, also over any history (C22_total_partial, C22_history_total_partial); any panic of the model is one of the four environment sites under the negation of its hypothesis or the NTPv3 site under a summary the decoder never produces; cache indexing and the unreachable!() are never reached (C22_panic_sites, C22_cache_total). Missing for the full statement: totality of NtpPacket::deserialize (C23) and of the answer builders/serialiser, which are inputs here. Tie: the real Server::handle on truncations at every offset, bit flips, length-field lies, arbitrary byte strings up to 1500 bytes and grammar-built packets (no panic allowed, outcome must match the model), plus environments that do fire the modelled sites (unreadable clock, negative root delay), where implementation and model must panic alike.",
    "note": "Trusted: Coq kernel+vm_compute; hand-written model coq/Model/Server.v and its list of panic sites, cross-checked by the census C22_site_census (counts of unwrap/expect/unreachable!/assert!/indexing regenerated from the sources on every run). Sites 2002 (poisoned lock) and 2006 (key set with primary >= |keys|, C27's defect) are modelled but not driven; 2006 is over-approximated (panics for every NTS time answer with an unusable key set). env_ok's root_delay >= 0 is an invariant of the controller's snapshots (C01/C06 builders), assumed here. Memory safety and aes-siv internals are outside the model (#![forbid(unsafe_code)] in ntp-proto). Debug-only assertions are not release panics. Print Assumptions: closed under the global context for all four theorems.",
    "design_ref": "DESIGN.md 3 C22",
}
