"""C02: frequency corrections stay within the configured maximum.
Model: coq/Model/Controller.v; theorems: coq/Props/C02.v (Flocq bridge in Proofs/ControllerFreq.v); tie: the real
KalmanClockController with a recording mock clock through harness/ntp-proto/c02.rs (k1_common.rs)."""
import glob
import json
import math
import os

from tools import vplib
from tools.props import k1gen as g


def isnan_bits(b):
    return (b & 0x7ff0000000000000) == 0x7ff0000000000000 and (b & 0x000fffffffffffff) != 0


def finite_bits(b):
    return (b & 0x7ff0000000000000) != 0x7ff0000000000000


def monitor_parsed(case, p):
    """The property statement on one implementation run, independent of the Coq model: with positive limits
    (0 <= maximum_frequency_steer, not NaN), every set_frequency argument f satisfies -M <= f <= M, and is not NaN
    unless some input of the history (kernel frequency, request, estimate) was not finite; every slew
    started (0 <= slew_max, 0 < slew_min_duration) leaves |desired_freq| <= slew_max."""
    if p.floats is None:
        return None
    M = g.unbits(p.floats[3])
    slew_max = g.unbits(p.floats[1])
    dur = g.unbits(p.floats[2])
    all_finite = finite_bits(case["f0"]) and all(finite_bits(b) for b in p.floats)
    # M < 1 keeps 1 + f away from zero; a kernel frequency <= -1 is not a frequency
    f0 = g.unbits(case["f0"])
    sane_f0 = all_finite and f0 > -1.0
    # the property quantifies over configurations with positive limits: with a zero or negative
    # slew_minimum_duration / slew_maximum_frequency_offset the code divides by it and the NaN is the
    # configuration's, not a violation
    positive_limits = (M > 0 and slew_max > 0 and dur > 0 and g.unbits(p.floats[0]) >= 0)
    # C02_no_nan's hypothesis on consensus updates: |frequency estimate| + slew_max must not overflow.  Where it
    # fails the NaN is the refuted variant C02_no_nan_refuted (still reported, with its class).
    delta_overflow = False
    for rec in p.ops:
        op = rec["op"]
        if op[0] == "M":
            if rec["tap"]:
                all_finite = all_finite and all(finite_bits(b) for b in rec["tap"][:4])
                if all_finite and math.isinf(abs(g.unbits(rec["tap"][1])) + slew_max):
                    delta_overflow = True
            else:
                pass
        elif op[0] == "SO":
            all_finite = all_finite and finite_bits(op[1]) and finite_bits(op[2])
        elif op[0] == "SF":
            all_finite = all_finite and finite_bits(op[1])
        for cc, a in rec["calls"]:
            if cc != 3:
                continue
            if M != M or M < 0:
                return ("set_frequency reached although maximum_frequency_steer=%r should fail the clamp assertion" % M, {"freq_bits": a})
            if isnan_bits(a):
                if all_finite and sane_f0 and M < 1.0 and positive_limits:
                    payload = {"freq_bits": a}
                    if delta_overflow:
                        payload["class"] = "C02-nan-freq-delta-overflow"
                    return ("set_frequency(NaN) although every input of the history was finite (M=%r)" % M, payload)
                continue
            f = g.unbits(a)
            if not (-M <= f <= M):
                return ("set_frequency(%r) outside +-maximum_frequency_steer=%r" % (f, M), {"freq_bits": a})
        if rec["state"] is not None and op[0] == "SO":
            st = g.unbits(p.floats[0])
            ch = g.unbits(op[1])
            if not (abs(ch) > st) and slew_max == slew_max and slew_max >= 0 and dur > 0:
                df = g.unbits(rec["state"][3])
                if df != df or not (abs(df) <= slew_max):
                    return ("slew started with desired_freq=%r, above slew_maximum_frequency_offset=%r" % (df, slew_max),
                            {"desired_freq_bits": rec["state"][3]})
        if rec["end"] is not None:
            break
    return None


def freq_sweep_case(rng):
    """unit calls of steer_frequency with the f64 sweep, under a sane or arbitrary maximum"""
    r = rng.random()
    if r < 0.6:
        mf = g.bits(rng.choice([0.0, 1e-9, 100e-6, 495e-6, 0.01, 0.5, 0.999, 1.0, 2.0, 1e10, float("inf")]))
    elif r < 0.8:
        mf = None
    else:
        mf = g.gen_float(rng)
    case = {"thr": (None, None, None, None, None), "floats": [None, None, None, mf, None, None, None, None],
            "f0": 0, "su": rng.choice([0, 1]), "minsrc": 1, "ops": []}
    rr = rng.random()
    if rr < 0.4:
        case["f0"] = g.bits(rng.choice([0.0, 1e-6, -20e-6, 495e-6, -500e-6, 0.01, -0.99, -1.0, -1.5, 1e6]))
    elif rr < 0.7:
        case["f0"] = g.gen_moderate(rng, -9, 2)
    else:
        case["f0"] = g.gen_float(rng)
    for _ in range(rng.randrange(1, 8)):
        r = rng.random()
        if r < 0.45:
            ch = g.gen_float(rng)
        elif r < 0.75:
            ch = g.gen_moderate(rng, -12, 1)
        else:
            ch = g.bits(rng.choice([0.0, -1.0, 1.0, -2.0, 1e-3, -1e-3, 495e-6, -495e-6, 1e308, -1e308, 1e-320]))
        case["ops"].append(("SF", ch))
        if rng.random() < 0.1:
            case["ops"].append(("T",))
    return case


def main():
    c = vplib.Check("C02")
    c.run_gate()
    rng = c.rng
    quick = c.tier == "quick"
    cases = list(g.corpus_cases())
    for f in sorted(glob.glob(os.path.join(vplib.VERIF, "corpus", "C02", "*.json"))):
        cases.append(json.load(open(f)))
    n = 1 if quick else 6
    for _ in range(700 * n):
        cases.append(freq_sweep_case(rng))
    for _ in range(500 * n):
        cases.append(g.slew_case(rng))
    for _ in range(400 * n):
        cases.append(g.gen_case(rng, "freq"))
    for _ in range(250 * n):
        cases.append(g.gen_case(rng, "history"))
    for _ in range(150 * n):
        cases.append(g.gen_case(rng, "steps"))
    cases = vplib.replay_cases() or cases
    for cs in cases:
        cs["thr"] = tuple(cs["thr"])
        cs["ops"] = [tuple(o) for o in cs["ops"]]

    parsed = {}
    dist = {"cases": len(cases), "ops": 0, "set_frequency": 0, "set_frequency_at_limit": 0, "set_frequency_nan": 0,
            "slews": 0, "slews_at_max": 0, "clamp_panics": 0, "duration_panics": 0, "exits": 0, "steps": 0,
            "kernel_freq_nonfinite": 0, "kernel_freq_outside_limit": 0}

    def get(case, out):
        k = id(case)
        if k not in parsed:
            parsed[k] = g.parse(case, out)
        return parsed[k]

    def monitor(case, out):
        p = get(case, out)
        if not p.ok:
            return None
        m = monitor_parsed(case, p)
        if m:
            what, payload = m
            payload = dict(payload)
            payload["case"] = {"thr": case["thr"], "floats": case["floats"], "f0": case["f0"], "su": case["su"],
                               "minsrc": case["minsrc"], "ops": case["ops"]}
            return (what, payload)
        return None

    def coq_case(case, out):
        p = get(case, out)
        if not p.ok:
            c.not_shown_because("correspondence C02: " + p.why)
            return None
        M = p.floats[3]
        if not finite_bits(case["f0"]):
            dist["kernel_freq_nonfinite"] += 1
        elif not isnan_bits(M) and abs(g.unbits(case["f0"])) > g.unbits(M):
            dist["kernel_freq_outside_limit"] += 1
        for rec in p.ops:
            dist["ops"] += 1
            for cc, a in rec["calls"]:
                if cc == 3:
                    dist["set_frequency"] += 1
                    if isnan_bits(a):
                        dist["set_frequency_nan"] += 1
                    elif a & ((1 << 63) - 1) == M & ((1 << 63) - 1):
                        dist["set_frequency_at_limit"] += 1
                if cc == 2:
                    dist["steps"] += 1
            if rec["op"][0] == "SO" and rec["state"] is not None and not any(cc == 2 for cc, _ in rec["calls"]):
                dist["slews"] += 1
                if rec["state"][3] & ((1 << 63) - 1) == p.floats[1] & ((1 << 63) - 1):
                    dist["slews_at_max"] += 1
            if rec["end"] == 3:
                dist["clamp_panics"] += 1
            elif rec["end"] == 2:
                dist["duration_panics"] += 1
            elif rec["end"] == 1:
                dist["exits"] += 1
        return g.coq_case(case, p)

    def nontrivial(case, out):
        p = get(case, out)
        return p.ok and any(any(cc == 3 for cc, _ in rec["calls"]) for rec in p.ops)

    c.cov["rule"] = ("unit calls of steer_frequency with an exponent x mantissa x sign sweep of f64 (NaN, +-inf, +-0, subnormals, "
                     "extremes) from arbitrary kernel frequencies under sane and arbitrary maximum_frequency_steer; slews with "
                     "|change|/duration above, at (+-1 ulp) and below slew_max followed by time_update; mixed histories with source "
                     "messages (tapped estimate); compared bit for bit: every set_frequency argument, freq_offset and desired_freq "
                     "after each operation, every other clock call, panics (clamp assertion, Duration::from_secs_f64).  A case is "
                     "non-trivial when it applies at least one frequency.")
    vplib.correspondence(
        c, "ntp-proto", cases,
        line_of=g.line_of,
        coq_case_of=coq_case,
        preamble=g.PREAMBLE,
        checker=g.CHECKER,
        monitor=monitor,
        nontrivial=nontrivial,
        shard=150,
        sample_of=lambda case, out: {"input": g.line_of(case)[:400], "output": " ".join(out)[:400]},
    )
    c.cov["distribution"] = dist
    c.assumptions += [
        "hand-written model coq/Model/Controller.v (steer_frequency, change_desired_frequency, steer_offset's slew branch, "
        "f64::clamp/min/signum on Coq primitive floats); tied bit for bit by the correspondence above",
        "Coq's primitive floats are IEEE-754 binary64 (FloatAxioms specs, used through Flocq's PrimFloat bridge); rustc compiles "
        "f64 + - * / and comparisons to the same operations",
        "C02_no_nan needs, for a consensus update, that |frequency estimate| + slew_max does not overflow (float addition): without "
        "it a finite history under a finite positive configuration applies NaN (C02_no_nan_refuted, reproduced on the implementation: "
        "reports/K1_C02_nan_witness.json); the monitor flags such a run (class C02-nan-freq-delta-overflow)",
        "ntpd/src/daemon/clock.rs multiplies the frequency by 1e6 (one rounding, monotone) before the adjtimex call; the kernel's own "
        "limit is outside the model",
    ]
    return c.finish()


MANIFEST = {
    "claimed": True,
    "text": "Theorems (Coq on primitive binary64 floats through Flocq's PrimFloat bridge; for every configuration, every starting state "
            "-- any kernel frequency -- and every list of controller operations with arbitrary f64 estimates/requests incl. NaN, inf, "
            "subnormals, by induction over the list): every set_frequency argument is NaN or satisfies -M <= f <= M in the hardware order "
            "(C02_set_frequency, from C02_clamp_range: f64::clamp maps NaN to NaN and everything else into [lo,hi]; its assertion fires "
            "exactly when not lo <= hi, C02_clamp_panic_iff); freq_offset is the kernel value until the first set_frequency and a clamp "
            "output afterwards (C02_freq_offset_state). NO NaN (C02_no_nan, with C02_clamp_arg_not_nan): if 0 < M < 1, 0 <= slew_max < inf, "
            "0 < slew_minimum_duration, steer_frequency_leftover finite, the kernel frequency finite and > -1, |desired_freq| <= slew_max "
            "initially (0 at startup), every direct frequency request not NaN (+-inf allowed), every freq_delta of a direct offset request "
            "finite, and for every consensus update the frequency variance finite and |frequency estimate| + slew_max < inf (float "
            "addition), then every set_frequency argument of the history is a number with -M <= f <= M; all other configuration fields and "
            "the offset part of the estimates are unconstrained. That last hypothesis is necessary: C02_no_nan_refuted is a vm_compute "
            "witness (slew_max = 1e308, steer_frequency_leftover = 1e200, a 1.5e308 s slew request, then an estimate of 1e308 with "
            "variance 1e300: freq_delta and sqrt(p11)*leftover both overflow, inf - inf) where all inputs and configuration values are "
            "finite and positive, M = 0.5, and NaN is applied; the implementation does the same on these inputs. SLEWS: the slew frequency "
            "min(slew_max, |change|/duration) is <= slew_max when slew_max is not NaN (C02_slew_frequency, C02_min_bound) and has magnitude "
            "<= slew_max when 0 <= slew_max and 0 < duration (C02_slew_frequency_abs); a slew is only started for a non-NaN request and "
            "sets desired_freq = -freq*signum(request) (C02_slew_desired), whose magnitude is exactly that of freq (C02_slew_exact: "
            "multiplication by +-1.0 and negation are exact on binary64); hence every slew started leaves |desired_freq| <= slew_max "
            "(C02_slew_started_bound) and so does every state of every history, for arbitrary inputs incl. NaN/inf, under 0 <= slew_max, "
            "0 < slew_minimum_duration only (C02_slew_bound); time_update resets it to 0 (C02_slew_ends). The model is compared bit for bit "
            "with the real controller on ~2000 histories per quick run (f64 sweep incl. specials, slews at slew_max +- 1 ulp).",
    "note": "Nothing PARTIAL left; one REFUTED variant (C02_no_nan_refuted, see text): a finding only for configurations with "
            "slew_maximum_frequency_offset near f64::MAX and steer_frequency_leftover >= ~1e154, replay input in "
            "reports/K1_C02_nan_witness.json. The monitor still evaluates both statements on every run. Trusted: Coq kernel+vm_compute; "
            "FloatAxioms specs of the primitive floats and the stdlib real-number axioms Flocq uses (Print Assumptions: classic, "
            "sig_forall_dec, sig_not_dec, functional_extensionality_dep, Prim2SF/SF2Prim and *_spec axioms); hand-written model "
            "coq/Model/Controller.v; the estimate of update_clock is an oracle input (C02_no_nan constrains only its frequency and "
            "frequency variance); f64::min on zeros of different sign is unspecified in Rust and avoided by the generator; "
            "ntpd/src/daemon/clock.rs multiplies by 1e6 before adjtimex (one monotone rounding, not modelled); the kernel's own frequency limit.",
    "design_ref": "DESIGN.md 3 C02",
}
