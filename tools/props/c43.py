"""C43: the PTP clock controller reports and steers consistently.
Model: coq/Model/PtpController.v (LinkFilter / KalmanController / steer_clocks over binary64, on top
of Model/Estimator.v), coq/Model/PtpControllerRun.v (encodings); theorems: coq/Props/C43.v; tie: the
real KalmanController<StdKalmanStorage<Mock>, Mock> and KalmanControllerState::steer_clocks with
recording mock clocks through harness/statime-algo/c43.rs (+ c43f.rs inside filter.rs)."""
import math
import struct

from tools import vplib
from tools.props.c42 import bits, hx, flit, dump_split, signed128, SEC, TWO128


def fl(h):
    return struct.unpack(">d", struct.pack(">Q", int(h, 16)))[0]


def code_z(c):
    if c == "0":
        return 0
    if c == "p":
        return -1
    return int(c[1:])


# ---------------------------------------------------------------- generator
def gen_case(rng, style):
    r = rng
    t = r.randint(1_000_000, 2_000_000_000) * SEC + r.getrandbits(64)
    if r.random() < 0.05:
        t = r.choice([0, 5, TWO128 - 3 * SEC, (1 << 127) - SEC])

    def val(scale):
        if style == "wild" and r.random() < 0.15:
            return r.choice([0x7ff8000000000000, 0x7ff0000000000000, 0xfff0000000000000, 0x8000000000000000,
                             0x1, 0x7fefffffffffffff, bits(1e300), bits(-1e300)])
        return bits(r.uniform(-1, 1) * scale)

    def pos(lo, hi):
        if style == "wild" and r.random() < 0.12:
            return r.choice([0x7ff8000000000000, 0x7ff0000000000000, 0x0, bits(-1e-5), 0x1, bits(1e300)])
        return bits(10.0 ** r.uniform(lo, hi))

    def maxf():
        k = r.random()
        if k < 0.15:
            return bits(0.0)
        if k < 0.3:
            return bits(10.0 ** r.uniform(-12, -8))       # tiny: the clamp engages
        return pos(-6, -3)
    case = {"t0": t, "maxf": hx(maxf()), "wander": hx(pos(-10, -8)), "ops": [], "style": style}
    ops = case["ops"]
    nclocks = 1            # pool size (all ids)
    steered = [0]
    external = []
    links = []             # pool of the links whose creation is expected to succeed
    gone = set()           # clocks probably removed
    now = t
    # build phase
    for _ in range(r.randint(1, 4)):
        k = r.random()
        if k < 0.6:
            # small uncertainties: the frequency branch (5 sigma < offset < 10) is reachable
            off = r.choice([r.uniform(1e-4, 9.0), r.uniform(-1, 1), 10.0, 9.999999, r.uniform(9.5, 10.5)])
            ou = abs(off) / r.choice([4.9, 5.0, 5.1, 50, 1000]) if r.random() < 0.8 else 10.0 ** r.uniform(-7, -2)
            if style == "wild" and r.random() < 0.3:
                ops.append(["ACX", hx(val(1.0)), hx(pos(-6, -2)), hx(val(1e-4)), hx(pos(-8, -5)), hx(pos(-10, -8)), hx(maxf())])
            else:
                ops.append(["ACX", hx(bits(off)), hx(bits(ou)), hx(bits(r.uniform(-1e-4, 1e-4))), hx(pos(-8, -5)), hx(pos(-10, -8)), hx(maxf())])
            steered.append(nclocks)
            nclocks += 1
        elif k < 0.8:
            ops.append(["AC", hx(maxf()), hx(pos(-10, -8))])
            steered.append(nclocks)
            nclocks += 1
        else:
            ops.append(["XE"])
            external.append(nclocks)
            nclocks += 1
    n = r.randint(4, 22)
    for _ in range(n):
        k = r.random()
        if k < 0.12 and nclocks >= 2:
            a = r.randrange(nclocks)
            b = r.randrange(nclocks)
            if r.random() < 0.92:
                for _try in range(8):
                    if a != b and a not in gone and b not in gone and not (a in external and b in external):
                        break
                    a = r.randrange(nclocks)
                    b = r.randrange(nclocks)
            ok = a != b and a not in gone and b not in gone and not (a in external and b in external)
            if r.random() < 0.6:
                ops.append(["UL", a, b])
            else:
                ops.append(["TL", a, b, hx(pos(-4, -1))])
            if ok:
                links.append([a, b])
        elif k < 0.14 and links:
            ops.append(["DL", r.randrange(len(links))])
        elif k < 0.20 and links:
            ops.append(["ED", r.randrange(len(links)), hx(pos(-5, -2)), r.choice([1, 1, 1, 0])])
        elif k < 0.26:
            kk = r.random()
            if kk < 0.5:
                ops.append(["ACX", hx(bits(r.uniform(-2, 11))), hx(pos(-6, 0)), hx(val(1e-4)), hx(pos(-8, -5)), hx(pos(-10, -8)), hx(maxf())])
            elif kk < 0.75:
                ops.append(["AC", hx(maxf()), hx(pos(-10, -8))])
            else:
                ops.append(["XE"])
                external.append(nclocks)
            nclocks += 1
        elif k < 0.31:
            which = r.choice(["RC", "RC", "RE"])
            c = r.randrange(nclocks)
            ops.append([which, c])
            if c != 0 and ((which == "RE") == (c in external)) and not any(c in l for l in links):
                gone.add(c)
        elif k < 0.43:
            c = r.randrange(nclocks)
            kk = r.random()
            if kk < 0.3:
                ops.append(["CK", c, hx(val(1e-4)), hx(maxf())])
            elif kk < 0.6:
                m = 10.0 ** r.uniform(-9, -4)
                ops.append(["CK", c, hx(bits(r.choice([m, -m, m * (1 + 1e-12), 0.0, m / 2]))), hx(bits(m))])
            else:
                ops.append(["CK", c, hx(val(1e-3)), hx(pos(-9, -3))])
        elif k < 0.55:
            c = r.randrange(nclocks)
            which = r.choice(["FO", "FO", "FF"])
            x = r.choice([r.uniform(-1, 1) * 10.0 ** r.uniform(-6, 1), 10.0, -10.0, r.uniform(0, 10)])
            ops.append([which, c, hx(bits(x)) if style != "wild" else hx(val(10.0))])
        elif k < 0.60:
            d = r.choice([0, int(10.0 ** r.uniform(-3, 2) * SEC), -1, -SEC, r.getrandbits(60)])
            now = (now + d) % TWO128 if d >= 0 else now
            ops.append(["P", (now if d >= 0 else (now + d) % TWO128)])
        elif k < 0.78:
            kk = r.random()
            if kk < 0.35:
                ops.append(["NOW", 1, "CUR"])           # no progression: resolved when the lines are built
            else:
                d = r.choice([int(10.0 ** r.uniform(-3, 2) * SEC), 1, SEC, -SEC if r.random() < 0.3 else SEC // 3])
                now = (now + d) % TWO128
                ops.append(["NOW", 1, now])
            ops.append(["S"])
        elif k < 0.93 and links:
            l = r.randrange(len(links))
            d1 = int(10.0 ** r.uniform(-3, 1.5) * SEC)
            d2 = r.choice([0, 1, int(10.0 ** r.uniform(-6, -2) * SEC)])
            n1 = (now + d1) % TWO128
            n2 = (n1 + d2) % TWO128
            if r.random() < 0.08:
                n2 = (n1 - r.choice([1, SEC])) % TWO128
            now = n2
            ops.append(["NOW", 2, n1, n2])
            delta = int(r.uniform(-1, 1) * 10.0 ** r.uniform(-6, 0) * SEC)
            send = n1
            ops.append(["M", l, r.randint(0, 1), send, (send + delta) % TWO128, int(10.0 ** r.uniform(-8, -3) * SEC)])
        else:
            ops.append(["Q"])
    ops.append(["Q"])
    return case


# ---------------------------------------------------------------- parsing
def split_ops(out):
    groups, cur = [], None
    for tok in out:
        if tok == ";":
            if cur is not None:
                groups.append(cur)
            cur = []
        elif cur is not None:
            cur.append(tok)
    if cur is not None:
        groups.append(cur)
    return groups


def parse_q(g, nclocks):
    """tokens after 'Q' -> (per clock [offset, freq_api, freq_filter] (tuple of 2 hex or None), links, steered, dump tokens)"""
    i = g.index("Q") + 1
    per = []
    for _ in range(nclocks):
        tri = []
        for _ in range(3):
            if g[i] == "-":
                tri.append(None)
                i += 1
            else:
                tri.append((g[i], g[i + 1]))
                i += 2
        per.append(tri)
    assert g[i] == "L"
    i += 1
    links = []
    while g[i] != "C":
        links.append([int(x) for x in g[i:i + 4]])
        i += 4
    i += 1
    steered = []
    while g[i] != "D":
        steered.append(int(g[i]))
        i += 1
    return per, links, steered, g[i + 1:]


class Sim:
    """what the driver must know to build the model input from the implementation's run: pool
    sizes, the order of the steered clocks, the NOW script, the filter time"""

    def __init__(self, case):
        self.nclocks = 1
        self.steered = [0]
        self.links = []          # (a, b) of every successfully created link
        self.nowq = [case["t0"]]
        self.static = False      # the pending NOW script is "the filter's current time"


def events(g):
    ev = {"gf": {}, "mf": {}, "sf": {}, "st": {}, "pre": {}, "post": {}, "or": None, "order": [], "nw": None}
    for tok in g[1:]:
        if tok == "Q":
            break
        p = tok.split(":")
        if p[0] in ("gf", "mf", "sf"):
            ev[p[0]][int(p[1])] = p[2]
            if p[0] == "sf":
                ev["order"].append(("sf", int(p[1]), p[2]))
        elif p[0] == "st":
            ev["st"][int(p[1])] = int(p[2])
            ev["order"].append(("st", int(p[1]), int(p[2])))
        elif p[0] in ("pre", "post"):
            ev[p[0]][int(p[1])] = (p[2], p[3])
        elif p[0] == "or":
            ev["or"] = (p[1], p[2], p[3])
        elif p[0] == "nw":
            ev["nw"] = [int(x) for x in p[1:]]
    return ev


def walk(case, out):
    """-> list of (op (resolved), group tokens, events, sim snapshot before the op) or None"""
    groups = split_ops(out)
    ops = case["ops"]
    if groups and groups[-1] == ["X"]:
        # the history ended at an operation that panicked (the controller's lock is poisoned)
        groups = groups[:-1]
        ops = ops[:len(groups)]
    if len(groups) != len(ops):
        return None
    sim = Sim(case)
    res = []
    for op, g in zip(ops, groups):
        rop = list(op)
        code = g[0]
        ev = events(g)
        snap = {"nclocks": sim.nclocks, "steered": list(sim.steered), "links": list(sim.links),
                "nowq": list(sim.nowq), "static": sim.static}
        res.append((rop, g, ev, snap))
        k = rop[0]
        if k == "NOW" and ev["nw"]:
            sim.nowq = list(ev["nw"])
            sim.static = (rop[1] == 1 and rop[2] == "CUR")
        if code == "0":
            if k in ("XE", "AC", "ACX"):
                if k != "XE":
                    sim.steered.append(sim.nclocks)
                sim.nclocks += 1
            if k == "RC" and rop[1] in sim.steered:
                sim.steered.remove(rop[1])
            if k in ("TL", "UL"):
                sim.links.append((rop[1], rop[2]))
        if k in ("M", "S"):
            sim.nowq = [snap["nowq"][-1]]
        if k in ("M", "S", "P", "FO", "FF", "ACX", "AC", "RC"):
            sim.static = False
    return res


def line_of(case):
    toks = [str(case["t0"]), case["maxf"], case["wander"]]
    for op in case["ops"]:
        toks += [str(x) for x in op]
    return " ".join(toks)


# ---------------------------------------------------------------- Coq terms
def answers(ev, steered):
    items = []
    for c in steered:
        cur = ev["gf"].get(c)
        mx = ev["mf"].get(c)
        items.append("{| ca_cur := %s; ca_max := %s |}" % (flit(int(cur, 16)) if cur else "0", flit(int(mx, 16)) if mx else "0"))
    return vplib.coq_list(items)


def coq_case(case, out):
    W = walk(case, out)
    head = "(%s, %s, %s, " % (vplib.zlit(case["t0"]), flit(int(case["maxf"], 16)), flit(int(case["wander"], 16)))
    if W is None:
        return "((" + head[1:] + "[]) : Z * float * float * list cop)", "([(-98)%Z], [])"
    ops, zs, fs = [], [], []
    for rop, g, ev, snap in W:
        k = rop[0]
        code = g[0]
        z = vplib.zlit

        def lid(l):
            a, b = snap["links"][l] if l < len(snap["links"]) else (0, 0)
            return "(%s, %s, %s)" % (z(a), z(b), z(l))
        if k in ("NOW", "CK") or "skip" in g:
            continue
        if k == "XE":
            ops.append("CXE %s" % z(snap["nclocks"]))
        elif k == "RE":
            ops.append("CRE %s" % z(rop[1]))
        elif k == "AC":
            ops.append("CAC %s %s %s" % (z(snap["nclocks"]), flit(int(rop[1], 16)), flit(int(rop[2], 16))))
        elif k == "ACX":
            ops.append("CACX %s %s" % (z(snap["nclocks"]), " ".join(flit(int(x, 16)) for x in rop[1:6])))
        elif k == "RC":
            ops.append("CRC %s" % z(rop[1]))
        elif k in ("TL", "UL"):
            ops.append("CLink %s %s %s %s %s" % (vplib.blit(k == "TL"), z(rop[1]), z(rop[2]), z(len(snap["links"])),
                                                 flit(int(rop[3], 16)) if k == "TL" else "0"))
        elif k == "DL":
            ops.append("CDL %s" % lid(rop[1]))
        elif k == "ED":
            ops.append("CED %s" % lid(rop[1]))
        elif k == "M":
            q = snap["nowq"]
            n1, n2 = q[0], (q[1] if len(q) > 1 else q[0])
            o = ev["or"]
            if o is None or o[0] == "-":
                est = "None"
            else:
                est = "(Some (%s, %s))" % (flit(int(o[0], 16)), flit(int(o[1], 16)))
            cons = "None" if (o is None or o[2] == "-") else ("(Some %s)" % vplib.blit(o[2] == "1"))
            ops.append("CM {| mo_estimates := %s; mo_consensus := %s |} %s %s %s %s %s %s %s %s" % (
                est, cons, lid(rop[1]), vplib.blit(rop[2] == 1), z(rop[3]), z(rop[4]), z(rop[5]), z(n1), z(n2),
                answers(ev, snap["steered"])))
        elif k == "S":
            ops.append("CS %s %s" % (z(snap["nowq"][0]), answers(ev, snap["steered"])))
        elif k == "FO":
            ops.append("CFO %s %s" % (z(rop[1]), flit(int(rop[2], 16))))
        elif k == "FF":
            ops.append("CFF %s %s" % (z(rop[1]), flit(int(rop[2], 16))))
        elif k == "P":
            ops.append("CP %s" % z(rop[1]))
        elif k == "Q":
            ops.append("CQ %s" % z(snap["nclocks"]))
        # expected output
        zs.append(code_z(code))
        if k in ("M", "S") and code == "0":
            zs.append(len(ev["order"]))
            for kind, c, v in ev["order"]:
                if kind == "sf":
                    zs += [1, c]
                    fs.append(int(v, 16))
                else:
                    zs += [2, c, v]
        if k == "Q":
            per, links, steered, d = parse_q(g, snap["nclocks"])
            for tri in per:
                for pair in tri[:2]:
                    if pair is None:
                        zs.append(0)
                    else:
                        zs.append(1)
                        fs += [int(pair[0], 16), int(pair[1], 16)]
            zs.append(len(links))
            for l in links:
                zs += l
            zs.append(len(steered))
            zs += steered
            i, f = dump_split(d)
            zs += i
            fs += f
    inp = "(%s%s : Z * float * float * list cop)" % (head, vplib.coq_list(ops) + ")")
    return inp, "(%s, %s)" % (vplib.coq_list([vplib.zlit(x) for x in zs]), vplib.coq_list([flit(x) for x in fs]))


# ---------------------------------------------------------------- the property on one run
def monitor(case, out):
    """(1) the controller's frequency query equals the filter's frequency estimate of that clock;
    (2) every frequency handed to set_frequency lies within +-max_frequency of that clock (NaN only in the
    'wild' stream, where NaN/infinite estimates are injected);
    (3) a steer without time progression changes the filter's estimate of each steered clock by exactly the
    applied change: frequency += (set - get), offset += step (system clock: the Duration handed to the clock,
    other clocks: -offset, with the Duration handed to the clock = trunc(-offset * 2^64))."""
    if out and out[0] == "PANIC":
        return ("the harness case panicked outside an operation: %s" % " ".join(out[:3]), {})
    W = walk(case, out)
    if W is None:
        return None
    for idx, (rop, g, ev, snap) in enumerate(W):
        k = rop[0]
        where = "operation %d (%s)" % (idx, " ".join(str(x) for x in rop)[:120])
        if k == "Q" and g[0] == "0":
            per, _links, _st, _d = parse_q(g, snap["nclocks"])
            for c, tri in enumerate(per):
                if tri[1] != tri[2]:
                    return ("%s: KalmanController::clock_frequency of clock %d reports %s, the filter's frequency estimate "
                            "is %s (its offset estimate is %s)" % (where, c, tri[1], tri[2], tri[0]),
                            {"class": "C43_frequency_query"})
        if k in ("M", "S"):
            for c, x in ev["sf"].items():
                mx = ev["mf"].get(c)
                if mx is None:
                    return ("%s: set_frequency on clock %d without reading its max_frequency" % (where, c), {})
                xv, mv = fl(x), fl(mx)
                if math.isnan(xv):
                    if case.get("style") != "wild":
                        return ("%s: set_frequency(NaN) on clock %d" % (where, c), {})
                elif not (-mv <= xv <= mv):
                    return ("%s: set_frequency(%r) on clock %d exceeds its maximum frequency %r" % (where, xv, c, mv), {})
        if k == "S" and g[0] == "0" and snap["static"]:
            for c in snap["steered"]:
                if c not in ev["pre"] or c not in ev["post"]:
                    continue
                po, pf = ev["pre"][c]
                qo, qf = ev["post"][c]
                if "-" in (po, pf, qo, qf):
                    continue
                po, pf, qo, qf = fl(po), fl(pf), fl(qo), fl(qf)

                def same(a, b):
                    return (math.isnan(a) and math.isnan(b)) or struct.pack(">d", a) == struct.pack(">d", b)
                if c in ev["sf"]:
                    want = pf + (fl(ev["sf"][c]) - fl(ev["gf"][c]))
                    if not same(qf, want) or not same(qo, po):
                        return ("%s: clock %d frequency changed by %r, the filter estimate went from %r to %r (expected %r)"
                                % (where, c, fl(ev["sf"][c]) - fl(ev["gf"][c]), pf, qf, want), {})
                elif c in ev["st"]:
                    d = ev["st"][c]
                    if c == snap["steered"][0]:
                        want = po + float(d) / 18446744073709551616.0
                    else:
                        want = po + (-po)
                    if not same(qo, want) or not same(qf, pf):
                        return ("%s: clock %d stepped by %d/2^64 s, the filter offset estimate went from %r to %r (expected %r)"
                                % (where, c, d, po, qo, want), {})
                    if not math.isnan(po) and not math.isinf(po):
                        exp = int(-po * 18446744073709551616.0) if abs(po) < 2.0 ** 62 else None
                        if exp is not None and exp != d:
                            return ("%s: clock %d has offset estimate %r but was stepped by %d/2^64 s" % (where, c, po, d), {})
                else:
                    return ("%s: steered clock %d was neither stepped nor had its frequency set" % (where, c), {})
    return None


def gen_cases(c):
    rng = c.rng
    quick = c.tier == "quick"
    cases = []
    import glob
    import json
    import os
    for p in sorted(glob.glob(os.path.join(vplib.VERIF, "corpus", "C43", "*.json"))):
        cases.append(json.load(open(p)))
    for style, n in (("kalman", 420 if quick else 5000), ("wild", 130 if quick else 1500)):
        for _ in range(n):
            cases.append(gen_case(rng, style))
    return cases


def main():
    c = vplib.Check("C43")
    c.run_gate()
    cases = vplib.replay_cases() or gen_cases(c)
    dist = {"ops": {}, "codes": {}, "set_frequency": 0, "clamped": 0, "steps": 0, "static_steers": 0,
            "oracle": {}, "queries": 0}

    def note(case, out):
        W = walk(case, out)
        if W is None:
            return False
        good = 0
        for rop, g, ev, snap in W:
            k = rop[0]
            dist["ops"][k] = dist["ops"].get(k, 0) + 1
            key = k + ":" + g[0]
            dist["codes"][key] = dist["codes"].get(key, 0) + 1
            if k in ("M", "S") and g[0] == "0":
                good += 1
                dist["set_frequency"] += len(ev["sf"])
                dist["steps"] += len(ev["st"])
                for cc, x in ev["sf"].items():
                    if cc in ev["mf"] and x[1:] == ev["mf"][cc][1:] and int(x, 16) != 0:
                        dist["clamped"] += 1
                if k == "S" and snap["static"]:
                    dist["static_steers"] += 1
            if k == "M" and ev["or"]:
                o = "est=%s cons=%s" % ("some" if ev["or"][0] != "-" else "none", ev["or"][2])
                dist["oracle"][o] = dist["oracle"].get(o, 0) + 1
            if k == "Q":
                dist["queries"] += 1
        return good >= 1

    vplib.correspondence(
        c, "statime-algo", cases,
        line_of=line_of,
        coq_case_of=coq_case,
        preamble="From V Require Import Model.PtpControllerRun.\nLocal Open Scope float_scope.\n",
        checker="mismatches out_eqb c43_run",
        monitor=monitor,
        nontrivial=note,
        shard=50 if c.tier == "quick" else 150,
        sample_of=lambda case, out: {"history": line_of(case)[:400], "output_head": " ".join(out[:40])},
    )
    c.cov["rule"] = ("random controller histories on the real KalmanController with recording mock clocks: clocks with chosen "
                     "initial estimates (offsets around the 10 s and 5-sigma decision boundaries), default clocks, external "
                     "clocks, tracked/untracked links, external_data_update, measurements through KalmanLink::measurement "
                     "(time progression + filter measurement + steer_clocks), direct steer_clocks calls with and without "
                     "time progression, mock get_frequency/max_frequency values at +-max, 0, tiny and (wild stream) NaN/"
                     "negative/infinite; the model is compared on the result class of every operation, every set_frequency/"
                     "step_clock call (bit patterns), and at every query point on the controller's queries, the link list, "
                     "the steered-clock list and the complete raw estimator state.  non-trivial = at least one successful "
                     "measurement or steer; distinct = distinct histories")
    c.cov["distribution"] = dist
    c.assumptions += [
        "hand-written model coq/Model/PtpController.v of filter.rs/lib.rs over coq/Model/Estimator.v (tied bit for bit by the histories above)",
        "oracles (function arguments of the model, taken from the implementation run): fresh identifiers, the link-noise estimate "
        "(delay, noise) of tracked links and the consensus decision for links with an external clock (derived by "
        "harness/statime-algo/c43f.rs with the crate's own functions), the clocks' now/get_frequency/max_frequency answers",
        "clock calls do not fail in the model; with a failing clock call the real steer_clocks returns early (reported as an observation)",
        "storage: StdKalmanStorage (Vec/Box); NaN payloads are not compared",
    ]
    return c.finish()


MANIFEST = {
    "claimed": True,
    "text": "Theorems (Coq, binary64 = Coq primitive floats, for every controller state satisfying the invariant, which "
            "C43_invariant proves for every history of controller operations from KalmanController::new with arbitrary oracle "
            "values): C43_frequency_query (+_unknown): the frequency query returns the frequency entry (row base_index+1) and "
            "the square root of its variance, the offset query the offset entry; C43_clamped: every frequency a completed "
            "steer_clocks hands to set_frequency is NaN exactly when the wanted value cur - freq - offset/8 is NaN and otherwise "
            "lies in [-max, max] for that clock's max_frequency (which is then not NaN); C43_clamp_range: f64::clamp for all "
            "binary64 values; C43_absorbed + C43_decision: a completed steer_clocks first progresses the filter to now, makes "
            "exactly one call per steered clock in order, and the controller's own estimate of each steered clock moves by exactly "
            "the applied change with one binary64 addition (frequency + (set - get); offset + the stepped Duration as seconds for "
            "the system clock; offset + (-offset) with the clock stepped by trunc(-offset*2^64) for other clocks), everything "
            "else reported unchanged. The model is the code AFTER the repair of KalmanController::clock_frequency (branch "
            "fix-c43); it is tied bit for bit to the real KalmanController/steer_clocks with recording mock clocks on every run.",
    "note": "Confirmed defect (DESIGN.md 4 row 12): on the unrepaired tree KalmanController::clock_frequency returns the offset "
            "estimate; ./check C43 reports it with a concrete replay (monitor: controller query vs the filter's own frequency "
            "query). Trusted: Coq kernel + vm_compute; hand-written model coq/Model/PtpController.v on coq/Model/Estimator.v; "
            "harness + python driver. Oracles (function arguments, all values quantified in the theorems, taken from the "
            "implementation run in the tie): fresh identifiers, the link-noise estimate of tracked links and the consensus "
            "decision for links with an external clock (link_noise.rs and the window selection of filter.rs are not modelled), "
            "the clocks' now/get_frequency/max_frequency answers. Clock calls do not fail in the model: when a clock call fails "
            "the real steer_clocks returns early after earlier clocks were already steered and the filter is not updated "
            "(observation, outside the property's quantifier). The offset that decides step-vs-slew is read from the filter "
            "before the time progression of the same call (as in the code). A NaN or negative max_frequency makes f64::clamp "
            "panic inside the controller's RwLock (model: Panic; the lock is poisoned afterwards). 'Within floating-point "
            "rounding' is stated exactly: one addition; for non-system clocks the clock receives the Duration truncation of the "
            "value the filter absorbs. Print Assumptions: only the primitive float/int operations and their specification "
            "axioms of the Coq standard library (through Flocq's PrimFloat correspondence for the comparisons).",
    "design_ref": "DESIGN.md 3 C43, 4 row 12",
}
