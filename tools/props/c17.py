"""C17: a request-sized buffer always suffices for the answer (known finding: class C17-short-uid-or-nonce).
Model: coq/Model/Response.v; theorems: coq/Props/C17.v; tie: Server::handle and the response builders
through harness/ntp-proto/c17.rs (shared code p2b.rs), driver code shared in tools/p2b.py."""
from tools import p2b


def monitor(case, out):
    return p2b.monitor_c17(case, out)


def main():
    return p2b.run_property(
        "C17", monitor,
        "grammar-generated request datagrams (NTPv3/v4/v5, 0-10 extension fields of every kind and size class, MACs, NTS layouts "
        "with cookie/placeholders/unique identifiers in untrusted, authenticated and encrypted position, nonce lengths 0-32, wrong keys, "
        "rotated server keys, truncations and byte damage), each through NtpPacket::deserialize, Server::handle with a request-sized, a "
        "1024-byte and sometimes a third small buffer, or through one of the seven response builders + serialize; compared with the model: "
        "statistics, every clear byte of the answer (server cookie masked), authenticator sizes, decrypted fresh-cookie lengths, request "
        "length formula and well-formedness; non-trivial = the decoder accepted the datagram (Ok or DecryptError); distinct = distinct input lines")


MANIFEST = {
    "claimed": True,
    "text": 'KNOWN FINDING (the documented contract is false). Theorems (Coq, closed): C17_fits - for every decoder-reported request (wf_request) of NTPv3/4/5, plain or NTS, every answer kind, cookie/placeholder/unique-identifier layout, reference-id request, server state and both shapes of the cookie loop, OUTSIDE known_class_C17 the answer the policy decided on is sent when handle gets a buffer exactly as long as the request; C17_refuted_uid, C17_refuted_uid2, C17_refuted_nonce, C17_refuted_v5_nak: witnesses inside the class (73, 84, 224 and 56 bytes) that are answered with 1024 bytes of buffer and dropped with a request-sized one. The monitor reports a request answered with the large buffer but dropped with the request-sized one; inside the class (computed independently in python) it is the known finding, outside it a violation.',
    "note": 'Class: (a) echoed unique-identifier field shorter than the re-encode minimum (16; 28 last untrusted NTPv4 field), (b) NTS nonce shorter than 16, (c) NEW: NTPv5 request without draft identification whose authenticator fails (NAK/DENY adds the draft field; the decoder skips the draft check on the DecryptError path). Needs known_findings.json entries C17-short-uid-or-nonce and C17-v5-nak-without-draft. Trusted: as C16; wf_request (what the decoder guarantees: field length bounds, authenticator sizes, ciphertext = encrypted fields + 16-byte tag under ideal AEAD, draft id present in accepted NTPv5 packets, the cookie is an authenticated field at least as long as a fresh one, datagram <= 65535 bytes) is evaluated on every correspondence case together with the request-length formula. Print Assumptions: closed under the global context.',
    "design_ref": "DESIGN.md 3 C17",
}
