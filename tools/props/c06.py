"""C06: Kalman clock filter output stays finite and well-formed.
Model: coq/Model/Kalman.v (generic over a numeric interface), coq/Model/KalmanRun.v (binary64 instance);
theorems over the reals: coq/Proofs/Kalman.v, coq/Props/C06.v;
tie: harness/ntp-proto/c06.rs (KalmanState operations and whole source-controller histories, bit for bit),
harness/ntp-proto/c06_system.rs (real clock controller + sources + mock clock: run-time monitor only)."""
import math
import struct

from tools import vplib

NAN = 0x7FF8000000000000
U64 = 1 << 64


def f2b(x):
    if x != x:
        return NAN
    return struct.unpack("<Q", struct.pack("<d", x))[0]


def b2f(b):
    return struct.unpack("<d", struct.pack("<Q", b))[0]


def fixed(sec):
    """seconds -> NtpDuration raw (2^-32 s units)"""
    return int(round(sec * 4294967296.0))


DEFAULT_CFG = [f2b(1. / 3.), f2b(2. / 3.), 16, f2b(0.1), f2b(0.4), f2b(0.6), 16, f2b(1e-6), f2b(5.0),
               f2b(1e-8), f2b(100e-6), 5 << 32, 4, 10, 4]
MIN_DELAY = 1 << 14


class Gen:
    def __init__(self, rng):
        self.r = rng

    def logu(self, lo, hi):
        return math.exp(self.r.uniform(math.log(lo), math.log(hi)))

    def special(self):
        return self.r.choice([0.0, -0.0, 1.0, -1.0, float("inf"), float("-inf"), float("nan"), 5e-324, -5e-324,
                              2.2250738585072014e-308, 1.7976931348623157e308, 1e-200, 1e200, 0.5, 2.0 ** 31,
                              -2.0 ** 31, 2.0 ** 32, 4294967295.0, 2.0 ** 63, -2.0 ** 63, 1e-18])

    def anyfloat(self):
        k = self.r.random()
        if k < 0.15:
            return self.special()
        if k < 0.3:
            return b2f(self.r.getrandbits(64))
        s = self.r.choice([1, -1])
        return s * self.logu(1e-12, 1e6)

    def cov(self):
        k = self.r.random()
        if k < 0.08:
            return [self.anyfloat() for _ in range(4)]
        a = self.logu(1e-20, 1e4)
        c = self.logu(1e-24, 1e2)
        if k < 0.2:
            a = self.r.choice([0.0, a])
            c = self.r.choice([0.0, c])
        rho = self.r.uniform(-1, 1) if self.r.random() < 0.8 else self.r.choice([-1.0, 0.0, 1.0])
        b = rho * math.sqrt(a * c)
        if self.r.random() < 0.1:   # slightly asymmetric, as a rounded product would be
            return [a, b, b * (1 + 2 ** -52), c]
        return [a, b, b, c]

    def kstate(self, time=None, near=0.0):
        s0 = near + self.r.gauss(0, 1) * self.logu(1e-9, 1e2) if self.r.random() < 0.9 else self.anyfloat()
        s1 = self.r.gauss(0, 1) * self.logu(1e-12, 1e-3) if self.r.random() < 0.9 else self.anyfloat()
        t = self.r.getrandbits(64) if time is None else time
        if self.r.random() < 0.05:
            t = self.r.choice([0, U64 - 1, 1 << 63, (1 << 63) - 1])
        return [f2b(s0), f2b(s1)] + [f2b(x) for x in self.cov()] + [t]

    def dt(self):
        k = self.r.random()
        if k < 0.1:
            return self.r.choice([0, 1, -1, fixed(1e-3), fixed(2 ** 17), (1 << 63) - 1, -(1 << 63), fixed(1.0)])
        if k < 0.2:
            return -fixed(self.logu(1e-6, 1e6))
        return fixed(self.logu(1e-3, 2.0 ** 17))

    def wander(self):
        k = self.r.random()
        if k < 0.1:
            return self.r.choice([0.0, 5e-324, 1e-310, 1e-16 / 4 ** 400, float("nan"), -1e-16])
        return self.logu(1e-30, 1e-6)

    def period(self, scale=None):
        if self.r.random() < 0.7:
            return -1
        return f2b(self.r.choice([1.0, 0.5, 1e-3, 2.0, 10.0, 1.0 / 3.0]) if scale is None else scale)

    def bounded_state(self, per):
        """a state whose offset is within a few periods of 0 (the periodicity loops stay short)"""
        st = self.kstate()
        if per >= 0:
            p = b2f(per)
            st[0] = f2b(self.r.uniform(-40, 40) * p)
            st[1] = f2b(self.r.gauss(0, 1) * 1e-6)      # keep the periodicity loops short (they are unbounded in the code)
            c = [self.logu(1e-12, 1e-2), 0.0, 0.0, self.logu(1e-14, 1e-8)]
            st[2:6] = [f2b(x) for x in c]
        return st

    # ---- operation-level cases -------------------------------------------------------
    def op_cases(self, n):
        cases = []
        for _ in range(n):
            k = self.r.randrange(12)
            if k == 0:
                per = self.period()
                st = self.bounded_state(per)
                t = (st[6] + (self.dt() if per < 0 else fixed(self.logu(1e-3, 1e3)))) % U64
                cases.append({"op": 1, "args": st + [t, f2b(self.wander()), per]})
            elif k == 1:
                per = self.period()
                st = self.bounded_state(per)
                h = [1.0, 0.0] if self.r.random() < 0.7 else [self.anyfloat(), self.anyfloat()]
                value = b2f(st[0]) + self.r.gauss(0, 1) * self.logu(1e-9, 1.0)
                if per >= 0:
                    value = self.r.uniform(-40, 40) * b2f(per)
                if self.r.random() < 0.05 and per < 0:
                    value = self.anyfloat()
                nz = self.r.choice([0.0, self.logu(1e-20, 1e2), self.logu(1e-12, 1e-4)])
                if self.r.random() < 0.03 and per < 0:
                    nz = self.anyfloat()
                if per >= 0:
                    h = [1.0, 0.0]
                cases.append({"op": 2, "args": st + [f2b(h[0]), f2b(h[1]), f2b(value), f2b(nz), per]})
            elif k == 2:
                a = self.kstate()
                b = self.kstate(time=a[6], near=b2f(a[0]) if b2f(a[0]) == b2f(a[0]) else 0.0)
                if self.r.random() < 0.1:
                    b = list(a)
                cases.append({"op": 4, "args": a + b})
            elif k == 3:
                cases.append({"op": 5, "args": self.kstate() + [f2b(self.anyfloat() if self.r.random() < 0.3 else self.logu(1e-9, 10))]})
            elif k == 4:
                per = self.period()
                st = self.bounded_state(per)
                steer = self.r.gauss(0, 1) * self.logu(1e-9, 1e3) if per < 0 else self.r.uniform(-30, 30) * b2f(per)
                if self.r.random() < 0.1 and per < 0:
                    steer = self.anyfloat()
                cases.append({"op": 6, "args": st + [f2b(steer), per]})
            elif k == 5:
                per = self.period()
                st = self.bounded_state(per)
                t = (st[6] + (self.dt() if per < 0 else fixed(self.logu(1e-3, 1e3)))) % U64
                steer = self.r.gauss(0, 1) * self.logu(1e-12, 1e-3)
                cases.append({"op": 7, "args": st + [t, f2b(steer), f2b(self.wander()), per]})
            elif k == 6:
                chi = self.r.choice([0.0, self.logu(1e-12, 1e4), self.logu(1e-3, 50), self.anyfloat()])
                cases.append({"op": 8, "args": [f2b(chi)]})
            elif k == 7:
                x = self.r.choice([self.anyfloat(), self.r.uniform(-3, 3), self.r.uniform(-2 ** 31 - 2, 2 ** 31 + 2),
                                   float(self.r.randrange(-2 ** 31 - 2, 2 ** 31 + 2)), -self.logu(1e-30, 1e-9)])
                cases.append({"op": 9, "args": [f2b(x)]})
            elif k == 8:
                d = self.r.choice([self.r.randrange(-(1 << 63), 1 << 63), self.r.randrange(-(1 << 34), 1 << 34),
                                   (1 << 63) - 1, -(1 << 63), 0, 1, -1, (1 << 53) + 1, -(1 << 53) - 1,
                                   (1 << 62) + (1 << 9), self.r.randrange(1 << 53, 1 << 63)])
                cases.append({"op": 10, "args": [d]})
            elif k == 9:
                c = self.cov()
                t0 = self.r.getrandbits(64)
                cases.append({"op": 11, "args": [f2b(c[0]), f2b(c[1]), f2b(c[3]), f2b(self.wander()), t0, (t0 + self.dt()) % U64]})
            elif k == 10:
                base = self.r.uniform(-1, 1) * self.logu(1e-6, 1e3)
                sc = self.r.choice([0.0, self.logu(1e-12, 1.0)])
                d = [base + self.r.gauss(0, sc) for _ in range(8)]
                if self.r.random() < 0.1:
                    d[self.r.randrange(8)] = self.anyfloat()
                cases.append({"op": 12, "args": [f2b(x) for x in d]})
            else:
                x = self.anyfloat()
                y = self.r.choice([self.anyfloat(), 1.0, 1e-3, 0.5, 1.0 / 3.0, self.logu(1e-300, 1e300)])
                cases.append({"op": 13, "args": [f2b(x), f2b(y)]})
        return cases

    # ---- histories of one source controller ---------------------------------------------
    def config(self):
        c = list(DEFAULT_CFG)
        if self.r.random() < 0.4:
            c[2] = self.r.choice([1, 2, 4, 16])
            c[6] = self.r.choice([1, 2, 4, 16])
            c[8] = f2b(self.r.choice([5.0, 0.0, 1.0, 3.0]))
            c[9] = f2b(self.r.choice([1e-8, 1e-6, 1e-12, 1e-150]))
            c[10] = f2b(self.r.choice([100e-6, 1e-3, 0.0]))
            c[12] = self.r.choice([4, 0, -3])
            c[13] = self.r.choice([10, 6, 17])
            c[14] = self.r.choice([c[12], c[12] + 1])
        return c

    def history(self, n, style=None, stride=1):
        r = self.r
        cfg = self.config()
        oneway = r.random() < 0.25
        per = -1
        if oneway:
            noise = [1, f2b(self.logu(1e-14, 1e-4) if r.random() < 0.9 else 0.0), f2b(self.logu(1e-9, 1e-2))]
            if r.random() < 0.4:
                per = f2b(r.choice([1.0, 0.5, 2.0]))
        else:
            noise = [0]
        style = style or r.choice(["smooth", "smooth", "r0", "alternate", "walk", "extreme_dt", "jumps"])
        t = r.getrandbits(64) if r.random() < 0.8 else (U64 - fixed(30.0))
        theta = r.gauss(0, 1) * self.logu(1e-6, 10.0)
        freq = r.gauss(0, 1) * 1e-5
        base_delay = self.logu(1e-5, 0.3)
        spacing = self.logu(1e-3, 2.0 ** 17) if style == "extreme_dt" else self.logu(0.5, 2000.0)
        events = []
        for i in range(n):
            k = r.random()
            if i > 3 and k < 0.06:
                steer = r.gauss(0, 1) * self.logu(1e-6, 1.0)
                if per >= 0:
                    steer = r.uniform(-20, 20) * b2f(per)
                events.append([2, f2b(steer)])
                theta -= steer
                t = (t + fixed(steer)) % U64
                continue
            if i > 3 and k < 0.12:
                steer = r.gauss(0, 1) * self.logu(1e-9, 1e-4)
                back = r.random() < 0.1
                events.append([3, f2b(steer), (t - fixed(1.0)) % U64 if back else t])
                freq -= steer
                continue
            if style == "extreme_dt":
                dt = r.choice([1e-3, 2.0 ** 17, spacing, self.logu(1e-3, 2.0 ** 17)])
            else:
                dt = spacing * r.uniform(0.8, 1.25)
            dtf = max(1, fixed(dt))
            t = (t + dtf) % U64
            theta += freq * dt
            if style == "walk":
                freq += r.gauss(0, 1e-7) * math.sqrt(dt)
            if style == "r0":
                delay = r.choice([0, MIN_DELAY, 5, fixed(base_delay)]) if i % 17 == 16 else 0
                off = fixed(theta)
            elif style == "alternate":
                delay = fixed(base_delay * r.uniform(0.9, 1.5))
                off = fixed(theta) + (1 if i % 2 else -1) * fixed(r.choice([2.0 ** 30, 1e3, 1.0, 2.0 ** 31 - 1]))
            elif style == "jumps":
                delay = fixed(base_delay * r.uniform(0.9, 1.1))
                if r.random() < 0.1:
                    theta += r.gauss(0, 1) * self.logu(1e-3, 100.0)
                off = fixed(theta + r.gauss(0, base_delay / 10))
            else:
                delay = fixed(base_delay * r.uniform(0.9, 1.1) + (base_delay * 20 if r.random() < 0.05 else 0))
                off = fixed(theta + r.gauss(0, base_delay / 10))
            if per >= 0:
                p = b2f(per)
                off = fixed(math.fmod(theta, p) + r.gauss(0, 1e-6) + r.randrange(-3, 4) * p)
            off = max(-(1 << 62), min((1 << 62), off))
            adv = int(dt * 1e9)
            if r.random() < 0.03:
                adv = int(adv * r.choice([0.0, 0.5, 2.0])) + r.choice([0, 10 ** 10])   # clock meddling
            if r.random() < 0.03:
                # a measurement from the past or at the very same instant
                events.append([1, 0 if oneway else delay, off, (t - r.choice([0, fixed(5.0)])) % U64,
                               fixed(self.logu(1e-4, 0.1)), fixed(self.logu(1e-5, 0.1)), 0])
            events.append([1, 0 if oneway else delay, off, t, fixed(self.logu(1e-4, 0.1)), fixed(self.logu(1e-5, 0.1)), adv])
        return {"op": 20, "cfg": cfg, "noise": noise, "period": per, "stride": stride, "events": events,
                "style": style, "oneway": oneway}

    def long_history(self, n, kind):
        """the adversarial noise-free runs of DESIGN.md C06 (observation O-1)"""
        t = 1 << 40
        events = []
        off = fixed(0.25) if kind == "const025" else 0
        dt = fixed(1.0) if kind != "ms" else fixed(1e-3)
        for i in range(n):
            t = (t + dt) % U64
            events.append([1, 0, off, t, 0, 0, 10 ** 9 if kind != "ms" else 10 ** 6])
        return {"op": 20, "cfg": list(DEFAULT_CFG), "noise": [0], "period": -1, "stride": 500, "events": events,
                "style": "long_" + kind, "oneway": False, "regular": [1 << 40, dt, 0, off, 0, 0]}

    # ---- whole system (monitor only) ----------------------------------------------------------
    def system(self, n, style=None):
        r = self.r
        nsrc = r.choice([1, 2, 3, 3, 4, 5])
        min_agree = r.choice([1, 1, 2, 3])
        style = style or r.choice(["smooth", "r0", "alternate", "extreme_dt", "bigoffset", "dispersion"])
        theta0 = fixed(r.gauss(0, 1) * self.logu(1e-4, 100.0)) if style != "bigoffset" else r.choice([1, -1]) * fixed(2.0 ** 30)
        drift = r.gauss(0, 1) * self.logu(1e-9, 3e-4)
        ev = []
        base_delay = [self.logu(1e-5, 0.2) for _ in range(nsrc)]
        bias = [r.gauss(0, 1) * 1e-4 for _ in range(nsrc)]
        spacing = self.logu(0.5, 300.0)
        for i in range(n):
            s = i % nsrc if r.random() < 0.8 else r.randrange(nsrc)
            if style == "extreme_dt":
                dt = r.choice([1e-3, 2.0 ** 17, self.logu(1e-3, 2.0 ** 17)])
            else:
                dt = spacing * r.uniform(0.7, 1.3) / nsrc
            rd, rp = fixed(self.logu(1e-4, 0.05)), fixed(self.logu(1e-6, 0.05))
            if style == "r0":
                noise, delay = 0, 0
            elif style == "alternate":
                noise = (1 if i % 2 else -1) * fixed(r.choice([2.0 ** 30, 100.0, 1.0]))
                delay = fixed(base_delay[s])
            elif style == "dispersion":
                noise, delay = fixed(bias[s] + r.gauss(0, base_delay[s] / 20)), fixed(base_delay[s] * r.uniform(0.9, 1.2))
                rp = r.choice([0, fixed(2.0 ** 14), (1 << 47), fixed(1.0)])
            else:
                noise, delay = fixed(bias[s] + r.gauss(0, base_delay[s] / 20)), fixed(base_delay[s] * r.uniform(0.9, 1.2))
            ev.append([s, max(1, fixed(dt)), noise, delay, rd, rp])
        return {"op": 30, "nsrc": nsrc, "min_agree": min_agree, "theta0": theta0, "drift": f2b(drift), "events": ev,
                "style": style}

    def long_system(self, n, nsrc):
        ev = [[i % nsrc, fixed(1.0), 0, 0, 0, 0] for i in range(n)]
        return {"op": 30, "nsrc": nsrc, "min_agree": 1, "theta0": fixed(0.25), "drift": f2b(0.0), "events": ev,
                "style": "long_noise_free"}


def line_of(case):
    op = case["op"]
    if op in (20, 21):
        toks = [op] + case["cfg"] + case["noise"] + [case["period"], case["stride"]]
        for e in case["events"]:
            toks += e
        return " ".join(map(str, toks))
    if op == 30:
        toks = [30, case["nsrc"], case["min_agree"], case["theta0"], case["drift"]]
        for e in case["events"]:
            toks += e
        return " ".join(map(str, toks))
    return " ".join(map(str, [op] + case["args"]))


def zl(xs):
    return vplib.coq_list([vplib.zlit(int(x)) for x in xs])


def coq_case(case, out):
    op = case["op"]
    if op == 30:
        return None
    if out and out[0] == "PANIC":
        return "(%d%%Z, %s)" % (op, zl([])), zl([-2])
    o = [int(x) for x in out]
    if op == 2:
        return "(2%%Z, %s)" % zl(case["args"] + [o[-1]]), zl(o[:-1])
    if op == 8:
        return "(8%%Z, %s)" % zl(case["args"] + [o[1]]), zl(o[:1])
    if op in (20, 21):
        n = len(case["events"])
        orc, dumps = o[:2 * n], o[2 * n:]
        if "regular" in case:    # compact encoding (model op 22): the events are rebuilt inside Coq
            dumps = [x for j, x in enumerate(dumps) if j % 4 != 3]
            return "(22%%Z, %s)" % zl(case["cfg"] + [case["period"], case["stride"]] + case["regular"] + orc), zl(dumps)
        inp = case["cfg"] + case["noise"] + [case["period"], case["stride"]]
        for i, e in enumerate(case["events"]):
            if e[0] == 1:
                inp += e[:6] + [orc[2 * i], orc[2 * i + 1]]
            else:
                inp += e
        if op == 20:      # per dump: hash unc kind nan -- the nan flag is for the monitor only
            dumps = [x for j, x in enumerate(dumps) if j % 4 != 3]
        return "(%d%%Z, %s)" % (op, zl(inp)), zl(dumps)
    return "(%d%%Z, %s)" % (op, zl(case["args"])), zl(o)


def history_stats(case, out):
    """(dumps in the Kalman stage, number of dumps, negative uncertainties, NaN filter states)"""
    n = len(case["events"])
    d = [int(x) for x in out[2 * n:]]
    stable = neg = nan_state = dumps = 0
    for i in range(0, len(d) - 3, 4):
        dumps += 1
        neg += d[i + 1] < 0
        stable += d[i + 2]
        nan_state += d[i + 3]
    return stable, dumps, neg, nan_state


def main():
    try:      # the cases files contain long list literals: give coqc a deep stack
        import resource
        resource.setrlimit(resource.RLIMIT_STACK, (resource.RLIM_INFINITY, resource.RLIM_INFINITY))
    except Exception:
        pass
    c = vplib.Check("C06")
    c.run_gate()
    g = Gen(c.rng)
    quick = c.tier == "quick"
    shard = 100 if quick else 60
    normal = g.op_cases(1500 if quick else 6000)
    for _ in range(60 if quick else 300):
        normal.append(g.history(c.rng.choice([20, 40, 60, 90])))
    for _ in range(20 if quick else 150):
        normal.append(g.system(c.rng.choice([60, 150, 400])))
    big = []          # long cases: one per shard of the model evaluation
    if quick:
        big.append(g.long_history(1500, "const0"))
        big.append(g.long_system(2000, 2))
    else:
        for kind in ("const0", "const025", "ms"):
            big.append(g.long_history(10000, kind))
        for st in ("r0", "alternate", "extreme_dt"):
            big.append(g.history(3000, style=st, stride=100))
        big.append(g.long_system(10000, 2))
        big.append(g.long_system(10000, 1))
        for st in ("r0", "alternate", "extreme_dt", "bigoffset", "dispersion"):
            big.append(g.system(5000, style=st))
    cases = []
    for i in range(0, len(normal), shard - 1):
        if big:
            cases.append(big.pop())
        cases += normal[i:i + shard - 1]
    cases += big

    notes = {"internal_nan_histories": 0, "internal_nan_system_sources": 0, "system_cases": 0, "system_events": 0,
             "system_steps": 0, "system_freq_sets": 0, "system_used_nonempty": 0, "system_resets": 0}
    dist = {}

    def monitor(case, out):
        op = case["op"]
        dist["op%d" % op] = dist.get("op%d" % op, 0) + 1
        if out and out[0] == "PANIC":
            if op in (20, 30):
                return ("the clock filter panics on a history of finite measurements at increasing times (%s): %s"
                        % (case.get("style"), " ".join(out[1:])), {"case": line_of(case)[:4000]})
            return None
        if op == 20:
            stable, dumps, neg, nan_state = history_stats(case, out)
            dist["hist_" + case["style"]] = dist.get("hist_" + case["style"], 0) + 1
            if nan_state:
                notes["internal_nan_histories"] += 1
            if neg:
                return ("a source reports a negative uncertainty (history style %s)" % case["style"],
                        {"case": line_of(case)[:4000]})
        if op == 30:
            ev, nonfin, bad_snap, neg_unc, nan_int, steps, fsets, used, resets, first = [int(x) for x in out]
            notes["system_cases"] += 1
            notes["system_events"] += ev
            notes["system_steps"] += steps
            notes["system_freq_sets"] += fsets
            notes["system_used_nonempty"] += used
            notes["system_resets"] += resets
            notes["internal_nan_system_sources"] += nan_int
            dist["sys_" + case["style"]] = dist.get("sys_" + case["style"], 0) + 1
            if nonfin or bad_snap or neg_unc:
                return ("non-finite value reaches the clock or the published snapshot, or negative uncertainty: "
                        "set_frequency non-finite %d times, TimeSnapshot non-finite %d times, negative uncertainty %d times, "
                        "first at event %d (system style %s, %d sources)" % (nonfin, bad_snap, neg_unc, first, case["style"], case["nsrc"]),
                        {"case": line_of(case)[:4000]})
        return None

    def nontrivial(case, out):
        if out and out[0] == "PANIC":
            return False
        if case["op"] == 20:
            return history_stats(case, out)[0] >= 2
        if case["op"] == 30:
            return int(out[7]) > 0
        return True

    def sample_of(case, out):
        if case["op"] in (20, 30):
            return {"op": case["op"], "style": case["style"], "events": len(case["events"]), "output_head": out[:12]}
        return {"op": case["op"], "args": case["args"], "implementation": out}

    vplib.correspondence(
        c, "ntp-proto", cases,
        line_of=line_of,
        coq_case_of=coq_case,
        preamble="From V Require Import Model.KalmanRun.\n",
        checker="mismatches list_eqb run",
        monitor=monitor,
        nontrivial=nontrivial,
        key_of=lambda case: line_of(case)[:600],
        shard=shard,
        sample_of=sample_of,
    )
    c.cov["rule"] = ("operation cases (KalmanState::progress_time/absorb_measurement/merge/add_server_dispersion/steering, chi_1, "
                     "AveragingBuffer, from_seconds/to_seconds, root_dispersion, f64 %) on structured + boundary + garbage bit patterns, "
                     "compared bit for bit; histories of one source controller (two-way and one-way, periodic and not, steering messages, "
                     "clock meddling, measurements from the past) with the full internal state compared after every event; "
                     "whole-system histories (real KalmanClockController + sources + mock clock with steering fed back) are monitored only. "
                     "Non-trivial = operation case, or a history that reached the Kalman stage at least twice, or a system history in which "
                     "the clock was steered from a non-empty selection.")
    c.cov["distribution"] = dist
    c.cov["observations"] = dict(notes)
    if notes["internal_nan_histories"] or notes["internal_nan_system_sources"]:
        c.notes.append("O-1: the internal filter state became NaN/inf in %d source histories and %d system sources (noise-free long runs); "
                       "no non-finite value reached an observable, so this is recorded, not reported"
                       % (notes["internal_nan_histories"], notes["internal_nan_system_sources"]))
    c.assumptions += [
        "hand-written model coq/Model/Kalman.v, tied bit for bit to the code by the correspondence above",
        "the theorems are about the model instantiated at the real numbers; rounding (binary64) is the named partial gap, "
        "attacked at run time by the adversarial histories and the system monitor",
        "libm exp (chi_1) and the monotonic clock difference are oracle inputs read from the implementation",
        "the clock controller (mod.rs: select/combine/steer) is not modelled here (C01-C03); its float outputs are monitored only",
    ]
    return c.finish()


MANIFEST = {
    "claimed": True,
    "text": "Theorems (Coq, over the SAME generic Kalman model instantiated at the real numbers; all histories, no bounds): "
            "C06_welldefined_exact_partial / _from: for every configuration with initial_wander != 0, every source controller (two-way "
            "delay buffer or one-way fixed noise >= 0, periodic or not) and every list of events (measurements with arbitrary offsets/delays/"
            "times, Step and FreqChange steering messages fed back) in which no measurement is taken at exactly the filter's current instant, "
            "every divisor met is non-zero and every sqrt argument is non-negative in every step and in every observe() report, and the "
            "invariant (covariance symmetric positive semidefinite, wander > 0, delay buffer >= 0) holds in every reached state; "
            "C06_reported_uncertainty_exact: the reported uncertainty is the sqrt of a variance >= 0; operation lemmas "
            "C06_progress/absorb/merge/dispersion/offset_steering/frequency_steering/root_dispersion_exact (merge under det(P1+P2) > 0; "
            "root_dispersion for now >= base time). The model is executed at binary64 with Coq primitive floats and compared BIT FOR BIT "
            "with the Rust code on every run: KalmanState operations, chi_1, AveragingBuffer, from/to_seconds, root_dispersion, f64 %, and "
            "whole source-controller histories (full internal state hashed after every event). The property itself (every reported "
            "number and clock argument finite, uncertainty >= 0) is monitored on adversarial source histories and on whole-system "
            "histories with the real KalmanClockController and a mock clock whose steering is fed back.",
    "note": "PARTIAL: the theorems are in exact (real) arithmetic; that the rounded binary64 computation keeps the observables finite for "
            "every history is not proved (run-time search only: constant noise-free runs of 10^4 samples, R=0, alternating +-2^30 s offsets, "
            "1 ms / 2^17 s spacing, huge root dispersion). Observation O-1 (internal NaN state after ~7800 noise-free samples, masked by "
            "from_seconds(NaN)=0 in release) is recorded in the evidence, not reported. The clock controller (select/combine/steer in mod.rs) "
            "is not modelled here (C01-C03); its float outputs (set_frequency argument, TimeSnapshot floats) are covered by the monitor only. "
            "Oracles: libm exp in chi_1 and the monotonic-clock difference of the meddling check are read from the implementation and are "
            "universally quantified in the theorems. The periodicity loops are modelled with fuel 300 (the code's loops are unbounded). "
            "debug!-only sqrt calls are not modelled. Trusted: Coq kernel + vm_compute incl. primitive floats/ints, hand-written model "
            "coq/Model/Kalman.v + KalmanRun.v + Base/KFloat.v, harness + driver, that every division/sqrt of the model goes through "
            "divM/sqrtM (by construction of the file; census of sites tied in Proofs/KalmanTie.v). Print Assumptions: stdlib real axioms "
            "(sig_forall_dec, sig_not_dec, functional_extensionality_dep) and the primitive float/int constants used to evaluate literals "
            "(float, int, opp, abs, div, ltb, eqb, of_uint63, normfr_mantissa, frshiftexp, ldshiftexp, PrimInt63 sub/lsl/lsr/lor/land/eqb).",
    "design_ref": "DESIGN.md 3 C06",
}
