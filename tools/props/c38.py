"""C38: ntp-ctl reads exactly what the daemon publishes.
Model: coq/Model/Framing.v (+ Base/D3Float.v for the duration codec); theorems: coq/Props/C38.v;
tie: the real write_json / read_json over in-memory streams with a byte-counting reader, generated
ObservableState values, raw durations and floats, through harness/ntpd/c38.rs."""
import json
import math
import struct

from tools import vplib

LIMIT = 1 << 20
U64 = (1 << 64) - 1
I64_MAX = (1 << 63) - 1
I64_MIN = -(1 << 63)


def bits_of(f):
    return struct.unpack("<Q", struct.pack("<d", f))[0]


def float_of(b):
    return struct.unpack("<d", struct.pack("<Q", b))[0]


def jfloat(f):
    r = repr(f)
    return r if ("." in r or "e" in r or "inf" in r or "nan" in r) else r + ".0"


# ---- generators ----------------------------------------------------------------------------------

def rand_seconds(rng):
    """a finite float number of seconds, as it may appear for a duration"""
    k = rng.random()
    if k < 0.15:
        return rng.choice([0.0, -0.0, 1.0, -1.0, 0.5, 1e-9, -1e-9, 2.0 ** -32, 2.0 ** -33, 1e10, -1e10, 2147483647.0, 2147483648.0,
                           -2147483648.0, -2147483649.0, 2147483647.9999998, 1e300, -1e300, 5e-324, 16.0, 1000.0, 86400.0,
                           4294967295.0 / 4294967296.0, 0.9999999999999999, -0.9999999999999999])
    if k < 0.6:
        return rng.uniform(-1, 1) * 10 ** rng.randint(-9, 3)
    if k < 0.85:
        return rng.uniform(-1, 1) * 2.0 ** rng.randint(-40, 34)
    while True:
        f = float_of(rng.getrandbits(64))
        if math.isfinite(f):
            return f


def rand_raw(rng):
    k = rng.random()
    if k < 0.2:
        return rng.choice([0, 1, -1, I64_MAX, I64_MIN, I64_MAX - 1, I64_MIN + 1, 1 << 32, -(1 << 32), (1 << 32) - 1, (1 << 53), (1 << 53) + 1,
                           -(1 << 53) - 1, (1 << 62) + 1, -(1 << 62) - 1, 0xFFFFFFFF, 0x100000001, 1 << 31, (1 << 63) - (1 << 10),
                           (1 << 63) - (1 << 9) - 1, 4294967295 * 3, -4294967295])
    if k < 0.5:
        return rng.randint(-(1 << rng.randint(1, 63)), 1 << rng.randint(1, 63)) if True else 0
    if k < 0.8:
        e = rng.randint(0, 62)
        return rng.choice([1, -1]) * ((1 << e) + rng.choice([-1, 0, 1]))
    return rng.randint(I64_MIN, I64_MAX)


def clamp_raw(x):
    return max(I64_MIN, min(I64_MAX, x))


def rand_state(rng, nsrc, nsrv):
    durs = []

    def d():
        f = rand_seconds(rng)
        durs.append(bits_of(f))
        return f

    def tsj():
        return {"timestamp": rng.choice([0, 1, U64, 1 << 63, rng.getrandbits(64)])}

    def ff():
        return rng.choice([0.0, 1e-12, rng.random(), rng.uniform(0, 1e6), 2.0 ** -60]) if rng.random() < 0.9 else rand_seconds(rng)

    system = {"precision": d(), "root_delay": d(), "root_variance_base_time": tsj(), "root_variance_base": ff(),
              "root_variance_linear": ff(), "root_variance_quadratic": ff(), "root_variance_cubic": ff(),
              "leap_indicator": rng.choice(["NoWarning", "Leap61", "Leap59", "Unknown", "Unsynchronized"]),
              "accumulated_steps": d()}
    system["accumulated_steps_threshold"] = d() if rng.random() < 0.5 else None
    system["stratum"] = rng.choice([0, 1, 2, 15, 16, 255])
    system["reference_id"] = rng.choice([0, 1, 0xFFFFFFFF, rng.getrandbits(32)])
    sources = []
    for i in range(nsrc):
        src = {"offset": d(), "uncertainty": d(), "delay": d(), "remote_delay": d(), "remote_uncertainty": d(),
               "last_update": tsj(), "unanswered_polls": rng.choice([0, 1, 8, 0xFFFFFFFF]),
               "poll_interval": rng.choice([-128, 0, 4, 10, 17, 127]),
               "nts_cookies": rng.choice([None, 0, 8, U64]),
               "name": rng.choice(["time.example.com", "", "GPSd socket", "ntp.éxample \"quoted\" \\ \n tab\t", "x" * rng.randint(0, 300)]),
               "address": rng.choice(["127.0.0.1:123", "[2001:db8::1]:123", "/run/chrony.sock", ""]),
               "id": rng.choice([0, 1, U64, rng.getrandbits(64)])}
        sources.append(src)
    servers = []
    for i in range(nsrv):
        stats = {k: rng.choice([0, 1, U64, rng.getrandbits(64), rng.getrandbits(20)]) for k in
                 ["received_packets", "accepted_packets", "denied_packets", "ignored_packets", "rate_limited_packets",
                  "response_send_errors", "nts_received_packets", "nts_accepted_packets", "nts_denied_packets",
                  "nts_rate_limited_packets", "nts_nak_packets"]}
        servers.append({"address": rng.choice(["0.0.0.0:123", "[::]:123", "192.0.2.7:65535"]), "stats": stats})
    state = {"program": {"version": "2.0.0", "build_commit": "abc", "build_commit_date": "2026-01-01",
                         "uptime_seconds": abs(ff()), "now": tsj()},
             "system": system, "sources": sources, "servers": servers}
    return state, durs


def dump_state(state):
    """JSON text with floats printed by repr (shortest round trip)"""
    def enc(o):
        if isinstance(o, dict):
            return "{" + ",".join(json.dumps(k) + ":" + enc(v) for k, v in o.items()) + "}"
        if isinstance(o, list):
            return "[" + ",".join(enc(v) for v in o) + "]"
        if isinstance(o, float):
            return jfloat(o)
        return json.dumps(o)
    return enc(state)


def gen_cases(c):
    rng = c.rng
    thorough = c.tier == "thorough"
    cases = []
    hdr = lambda n: n.to_bytes(8, "big")
    # --- R: framing on raw streams -----------------------------------------------------------------
    # announced lengths around the limit and up to 2^64-1, with nothing / a little / the announced amount following
    for n in [LIMIT - 1, LIMIT, LIMIT + 1, LIMIT + 2, 2 * LIMIT, (1 << 24), (1 << 31), (1 << 32) - 1, 1 << 32, (1 << 32) + 7, 1 << 40,
              (1 << 63) - 1, 1 << 63, (1 << 63) + 1, U64 - 1, U64, 0x0000100000000000, 0x0010000000000001, 0x0100000000000000]:
        for kind, ln in (("j", 0), ("j", 5), ("g", 100)):
            cases.append(("R", hdr(n), kind, ln))
    for n in (LIMIT - 1, LIMIT, LIMIT + 1):
        for kind in ("j", "g"):
            cases.append(("R", hdr(n), kind, n))          # exactly the announced amount
            cases.append(("R", hdr(n), kind, n + 3))      # more follows
            cases.append(("R", hdr(n), kind, n - 1))      # one byte short
    # byte order / header corruptions: the limit value in little endian, each header byte set
    cases.append(("R", (LIMIT + 1).to_bytes(8, "little"), "j", 10))
    cases.append(("R", (5).to_bytes(8, "little"), "j", 10))
    for i in range(8):
        b = bytearray(8)
        b[i] = 1
        cases.append(("R", bytes(b), "j", 300))
        b[i] = 0x10
        cases.append(("R", bytes(b), "g", 40))
    # short headers, small messages valid / invalid / truncated / followed by more
    for k in range(0, 8):
        cases.append(("R", hdr(2)[:k], "j", 0))
    for n in list(range(0, 12)) + [100, 255, 256, 257, 4096, 65535, 65536]:
        for kind in ("j", "g"):
            for ln in {n, max(0, n - 1), n + 1, n + 50, 0}:
                cases.append(("R", hdr(n), kind, ln))
    for _ in range(300 if not thorough else 3000):
        n = rng.choice([rng.randint(0, 2000)] * 5 + [rng.randint(0, 1 << 21)] + [rng.getrandbits(64), rng.getrandbits(rng.randint(1, 64))] * 2)
        ln = rng.choice([n, n, n + rng.randint(0, 20), max(0, n - rng.randint(1, 20)), rng.randint(0, 3000)])
        cases.append(("R", hdr(n), rng.choice("jjg"), min(ln, 3 * LIMIT)))
    # --- S: ObservableState round trips ------------------------------------------------------------------
    for nsrc, nsrv in [(0, 0), (1, 0), (0, 1), (1, 1), (2, 3), (50, 4)]:
        cases.append(("S",) + rand_state(rng, nsrc, nsrv))
    for _ in range(120 if not thorough else 1000):
        cases.append(("S",) + rand_state(rng, rng.choice([0, 1, 2, 3, 5, 10, 25, 50]), rng.choice([0, 1, 2, 6])))
    # --- D: raw durations ---------------------------------------------------------------------------------------
    cases.append(("D", []))
    edge = [0, 1, -1, 2, -2, I64_MAX, I64_MIN, I64_MAX - 1, I64_MIN + 1]
    for e in range(0, 63):
        for s in (1, -1):
            for dlt in (-1, 0, 1):
                edge.append(clamp_raw(s * ((1 << e) + dlt)))
    for m in (1, 2, 3, 1000, -1000, 1 << 20, (1 << 31) - 1, -(1 << 31)):       # multiples of u32::MAX and of 2^32
        edge += [clamp_raw(m * 4294967295), clamp_raw(m * 4294967296), clamp_raw(m * 4294967295 + 1), clamp_raw(m * 4294967296 - 1)]
    for i in range(0, len(edge), 40):
        cases.append(("D", edge[i:i + 40]))
    for _ in range(150 if not thorough else 3000):
        cases.append(("D", [rand_raw(rng) for _ in range(rng.randint(1, 40))]))
    # --- X: plain f64 fields (uptime, variance polynomial): does the JSON text give the same float back? ------------
    for _ in range(60 if not thorough else 1500):
        cases.append(("X", [bits_of(rand_seconds(rng)) if rng.random() < 0.7 else bits_of(rng.random() * 10 ** rng.randint(-20, 20))
                            for _ in range(rng.randint(1, 50))]))
    return cases


# ---- the property statement on one run --------------------------------------------------------------------------

def dur_ok(before, after):
    """within one part per billion plus one 2^-32 s unit (exact integer arithmetic)"""
    return abs(after - before) * 10 ** 9 <= abs(before) + 10 ** 9


def dur_verdict(pairs, case):
    """the duration clause of the property on (written, read) pairs; failures inside the known class of C32
    (KnownClass_C32_roundtrip d := -10^9 < d <= -2^21, coq/Proofs/FloatConv.v: the round trip loses 2 units there) are
    reported with that class, any other failure first"""
    bad = [(b, a) for b, a in pairs if not dur_ok(b, a)]
    other = [(b, a) for b, a in bad if not (-10 ** 9 < b <= -(1 << 21))]
    if other:
        b, a = other[0]
        return ("duration %d is read back as %d (beyond 1 ppb + 1 unit)" % (b, a), {"case": describe(case)[:4000], "raw": b, "read": a})
    if bad:
        b, a = bad[0]
        return ("duration %d is read back as %d (beyond 1 ppb + 1 unit; inside KnownClass_C32_roundtrip)" % (b, a),
                {"case": describe(case)[:4000], "raw": b, "read": a, "class": "KnownClass_C32_roundtrip"})
    return None


def monitor(case, out):
    op = case[0]
    if out and out[0] == "PANIC":
        return ("%s panics: %s" % ("read_json" if op == "R" else "write_json/read_json", " ".join(out[1:2])), {"case": describe(case)})
    if op == "R":
        announced = int.from_bytes(case[1], "big") if len(case[1]) == 8 else None
        if announced is not None and announced > LIMIT:
            if out[0] != "2" or out[1] != "8":
                return ("a message announcing %d bytes (> 1 MiB) is not rejected before any payload is read: class %s, %s bytes consumed"
                        % (announced, out[0], out[1]), {"case": describe(case), "announced": announced})
        if announced is not None and announced <= LIMIT and case[3] == announced and case[2] == "j" and announced > 0:
            if out[0] != "0" or out[3] != "1":
                return ("a well-formed %d-byte message is not read back (class %s)" % (announced, out[0]), {"case": describe(case)})
        return None
    if out[0] == "generr":
        return None
    if out[0] != "0":
        if op == "X" and any(not math.isfinite(float_of(b)) for b in case[1]):
            return None
        return ("a written value (%s) is not read back: error class %s" % (op, out[0]), {"case": describe(case)[:2000]})
    if out[3] != "1":
        return ("write_json does not write header+serde_json payload", {"case": describe(case)[:2000]})
    if op == "S":
        if out[4] != "1":
            return ("a field other than a duration differs after the round trip", {"case": describe(case)[:4000]})
        vals = list(map(int, out[5:]))
        return dur_verdict(list(zip(vals[0::2], vals[1::2])), case)
    elif op == "D":
        vals = list(map(int, out[4:]))
        if len(vals) != len(case[1]):
            return ("duration list length changed", {"case": describe(case)})
        return dur_verdict(list(zip(case[1], vals)), case)
    elif op == "X":
        vals = [int(x, 16) for x in out[4:]]
        for b, a in zip(case[1], vals):
            if b != a:
                return ("the f64 %r (bits %016x) is read back as %r (bits %016x)" % (float_of(b), b, float_of(a), a),
                        {"case": "X %016x" % b, "f64_bits_written": "%016x" % b, "f64_bits_read": "%016x" % a})
    return None


def describe(case):
    if case[0] == "R":
        return "R header=%s payload=%s*%d" % (case[1].hex(), case[2], case[3])
    if case[0] == "S":
        return "S " + dump_state(case[1])
    if case[0] == "D":
        return "D " + " ".join(map(str, case[1]))
    return "X " + " ".join("%016x" % b for b in case[1])


def main():
    c = vplib.Check("C38")
    c.run_gate()
    cases = gen_cases(c)
    outcome = {}

    def line_of(case):
        op = case[0]
        if op == "R":
            return "R %s %s %d" % (case[1].hex() or "-", case[2], case[3])
        if op == "S":
            return "S " + dump_state(case[1]).encode().hex()
        if op == "D":
            return "D " + " ".join(map(str, case[1]))
        return "X " + " ".join("%016x" % b for b in case[1])

    def coq_case(case, out):
        op = case[0]
        key = op + ":" + (out[0] if out else "?")
        outcome[key] = outcome.get(key, 0) + 1
        if out[0] in ("PANIC", "generr", "badop"):
            if out[0] == "generr":
                c.not_shown_because("generator produced an ObservableState the implementation cannot parse: " + " ".join(out)[:300])
            return ("(CFloats 0%Z)", "[(-1)%Z]")
        if op == "R":
            ok = out[3] == "1"
            inp = "(CRead %s %d%%Z %s)" % (vplib.coq_list(["%d%%Z" % b for b in case[1]]), case[3], vplib.blit(ok))
            return inp, vplib.coq_list([vplib.zlit(int(x)) for x in out[:3]])
        if out[0] != "0":
            return None      # NaN/inf floats (X) are written as null: outside the property ("finite numbers"); others: monitor
        total = int(out[2])
        if op == "S":
            inp = "(CStateDurations %d%%Z %s)" % (total - 8, vplib.coq_list(["%d%%Z" % b for b in case[2]]))
            o = [out[1], out[2]] + out[5:]
        elif op == "D":
            inp = "(CDurations %d%%Z %s)" % (total - 8, vplib.coq_list([vplib.zlit(x) for x in case[1]]))
            o = [out[1], out[2]] + out[4:]
        else:
            inp = "(CFloats %d%%Z)" % (total - 8)
            o = [out[1], out[2]]
        return inp, vplib.coq_list([vplib.zlit(int(x)) for x in o])

    vplib.correspondence(
        c, "ntpd", cases,
        line_of=line_of,
        coq_case_of=coq_case,
        preamble="From V Require Import Model.Framing.\n",
        checker="mismatches frm_list_eqb run_c38",
        monitor=monitor,
        nontrivial=lambda case, out: not (case[0] == "R" and len(case[1]) < 8),
        key_of=lambda case: describe(case)[:5000],
        sample_of=lambda case, out: {"case": describe(case)[:300], "implementation": " ".join(out)[:200]},
        shard=60,
    )
    c.cov["distribution"] = {"by_op": {op: sum(1 for x in cases if x[0] == op) for op in "RSDX"},
                             "state_sizes(sources,servers)": sorted({(len(x[1]["sources"]), len(x[1]["servers"])) for x in cases if x[0] == "S"}),
                             "durations_in_states": sum(len(x[2]) for x in cases if x[0] == "S"),
                             "raw_durations": sum(len(x[1]) for x in cases if x[0] == "D"),
                             "outcomes(op:class 0 ok 1 eof 2 too-large 4 decode)": outcome}
    c.cov["rule"] = ("R: read_json::<serde_json::Value> over in-memory streams with a byte-counting reader: announced lengths 2^20-1, 2^20, 2^20+1 ... "
                     "2^64-1 with nothing / a few / exactly / more than the announced bytes following, header byte-order and single-byte corruptions, "
                     "short headers, small valid/invalid/truncated messages; compared: error class, bytes consumed, caller buffer length.  "
                     "S: generated ObservableState values (0-50 sources, 0-6 servers, extreme durations, timestamps, counters to 2^64-1, cookie counts, "
                     "odd strings) written by write_json and read by read_json; compared: header value, bytes written, and the exact raw value of every "
                     "duration before and after (model: from_seconds(to_seconds d)), all other fields must be identical.  D: raw i64 durations "
                     "(every power of two +-1, multiples of 2^32 and of u32::MAX, limits).  X: plain f64 fields (monitor only).  "
                     "non-trivial = all but the short-header cases")
    c.assumptions += [
        "serde_json (to_vec / from_slice) is not modelled: payload codec is an oracle in the theorems; in the correspondence the harness evaluates it independently",
        "hand-written model coq/Model/Framing.v of write_json/read_json over byte lists; tokio's AsyncRead/AsyncWrite on in-memory buffers stands for the Unix stream",
        "the duration bound (1 ppb + 1 unit) is C32's theorem; here it is evaluated by the monitor on every duration of every run and the exact read-back value is "
        "compared with the model's from_seconds(to_seconds d)",
    ]
    return c.finish()


MANIFEST = {
    "claimed": True,
    "text": "Theorems (Coq, closed under the global context; for every payload type and codec, every value, every stream continuation): "
            "read_json(write_json v ++ rest) returns v, consumes exactly the written bytes and leaves rest, provided the codec round-trips v and the "
            "encoding is at most 1 MiB (C38_framing); an announced length in (2^20, 2^64) is rejected with exactly 8 bytes consumed and an empty "
            "buffer whatever follows (C38_size_guard, C38_size_guard_stream); 2^20 itself is not refused for size (C38_limit_exact); the reader never "
            "panics nor over-consumes on any byte stream (C38_read_total).",
    "note": "PARTIAL: the payload level is not a theorem here. serde_json is an oracle (hypothesis of C38_framing); the duration bound is C32's theorem "
            "(this check compares the implementation's read-back duration bit for bit with the model from_seconds(to_seconds d) and evaluates the 1 ppb + 1 unit "
            "bound in the monitor: durations in (-10^9, -2^21] units come back 2 units lower = open known finding KnownClass_C32_roundtrip); equality of "
            "plain f64 fields depends on serde_json's float parsing (X cases, monitor only): found inexact by 1 ulp with serde_json's default features, "
            "repaired by commit 'fix: parse JSON floats with round-trip precision' (float_roundtrip feature). Reading chosen: snapshots "
            "whose JSON exceeds 1 MiB (about 2,700+ sources) are written but refused by the reader; C38_framing carries the size hypothesis. "
            "Trusted: Coq kernel+vm_compute, hand-written model, harness, driver.",
    "design_ref": "DESIGN.md 3 C38",
}
