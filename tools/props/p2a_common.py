"""Shared generators, parsers, model-term printers and monitors of the NTP-server-policy
properties C15, C20, C21, C22 (builder P2a).  The harness side is
harness/ntp-proto/p2a_common.rs (scenario format documented there); the model is
coq/Model/Server.v + coq/Model/RateCache.v.

A scenario (python dict):
  cfg:  deny_action/allow_action 'i'|'d', deny/allow: list of subnet strings, cache: int, cutoff: ns,
        require_nts 'n'|'i'|'d', accepted: string of digits, stratum, root_delay (fixed i64), clock_fail 0|1
  ops:  list of dicts ip, base, premode, muts (list of strings), buf ('=' or int), age (ns), tags
"""
import ipaddress

from tools import vplib

MIN = 60 * 10 ** 9          # one minute in ns
VALID_NTS = ("n4:", "n5:", "n4b:", "n5b:")

# ----------------------------------------------------------------------------
# addresses and lists

POOL = [
    "1.2.3.4", "1.2.3.5", "1.2.4.4", "10.0.0.1", "10.255.255.254", "127.0.0.1", "128.0.0.1", "192.168.1.77",
    "255.255.255.255", "0.0.0.0", "203.0.113.9",
    "::1", "::", "2001:db8::1", "2001:db8::2", "2001:db8:1::1", "fe80::1", "ffff:ffff:ffff:ffff:ffff:ffff:ffff:ffff",
    "::ffff:1.2.3.4", "::ffff:10.0.0.1", "::ffff:192.168.1.77", "::ffff:128.0.0.1", "64:ff9b::102:304",
]
SUBNETS = [
    "0.0.0.0/0", "::/0", "1.2.3.0/24", "1.2.3.4/32", "1.2.0.0/16", "10.0.0.0/8", "128.0.0.0/1", "0.0.0.0/1",
    "192.168.1.64/26", "127.0.0.0/24", "255.255.255.255/32", "1.2.3.4/31", "203.0.113.0/24", "1.2.3.5/24",
    "2001:db8::/32", "2001:db8::/64", "2001:db8::1/128", "fe80::/10", "::/1", "8000::/1", "::1/128", "::/128",
    "::ffff:1.2.3.0/120", "::ffff:10.0.0.0/104", "::ffff:0.0.0.0/96", "64:ff9b::/96",
]


def canon_addr(s):
    a = ipaddress.ip_address(s)
    if a.version == 6 and a.ipv4_mapped is not None:
        return a.ipv4_mapped
    return a


def canon_net(s):
    n = ipaddress.ip_network(s, strict=False)
    if n.version == 6 and n.network_address.ipv4_mapped is not None and n.prefixlen >= 96:
        return ipaddress.ip_network("%s/%d" % (n.network_address.ipv4_mapped, n.prefixlen - 96), strict=False)
    return n


def member(ip, nets):
    """the property's notion of `on the list`, computed without the implementation"""
    a = canon_addr(ip)
    for s in nets:
        n = canon_net(s)
        if n.version == a.version and a in n:
            return True
    return False


def addr_id(ip):
    """injective numbering of IpAddr values (the cache keys on the address as given, not canonicalised)"""
    a = ipaddress.ip_address(ip)
    return int(a) * 2 + (1 if a.version == 6 else 0)


# ----------------------------------------------------------------------------
# generators

def gen_cfg(rng, cache=None, cutoff=None):
    k = rng.random()
    if k < 0.25:
        deny, allow = [], ["0.0.0.0/0", "::/0"]
    elif k < 0.4:
        deny, allow = rng.sample(SUBNETS, rng.randint(1, 3)), ["0.0.0.0/0", "::/0"]
    else:
        deny = rng.sample(SUBNETS[2:], rng.randint(0, 3))
        allow = rng.sample(SUBNETS, rng.randint(0, 4))
    acc = rng.choice(["34", "34", "345", "4", "45", "5", "3", "35", "-", "543", "44"])
    return {
        "deny_action": rng.choice("id"), "allow_action": rng.choice("id"), "deny": deny, "allow": allow,
        "cache": rng.choice([0, 0, 0, 1, 2, 3, 8]) if cache is None else cache,
        "cutoff": rng.choice([0, MIN, 60 * MIN]) if cutoff is None else cutoff,
        "require_nts": rng.choice("nnnid"), "accepted": acc,
        "stratum": rng.choice([1, 2, 3, 15, 16]), "root_delay": rng.choice([0, 0, 1, 65536, 1 << 32, (1 << 48) + 5]),
        "clock_fail": 0,
    }


def rand_hex(rng, n):
    return "".join("%02x" % rng.randrange(256) for _ in range(n))


def ext_field(rng, typ, body_len, lie=0):
    body = [rng.randrange(256) for _ in range(body_len)]
    ln = (4 + body_len + lie) & 0xFFFF
    return bytes([typ >> 8, typ & 0xFF, ln >> 8, ln & 0xFF] + body)


EF_TYPES = [0x0104, 0x0204, 0x0304, 0x0404, 0xF5FF, 0xF503, 0xF504, 0xF506, 0x0000, 0x1234, 0x8104]
DRAFT = b"draft-ietf-ntp-ntpv5-09"


def raw_packet(rng, version=None, mode=None):
    """a plain packet built field by field in python: header of the given version/mode, 0-4
    extension fields of assorted types and sizes, optional trailing bytes (MAC-like)"""
    v = rng.choice([3, 4, 4, 5, 5]) if version is None else version
    m = 3 if mode is None else mode
    hdr = bytearray(rng.randrange(256) for _ in range(48))
    hdr[0] = (rng.randrange(4) << 6) | (v << 3) | m
    if v == 5:
        hdr[12] = rng.choice([0, 0, 0, 1, 2, 3, 9])         # timescale
        hdr[14] = 0 if rng.random() < 0.9 else 1
        hdr[15] = rng.choice([0, 0, 1, 2, 4, 7, 8])          # flags
    out = bytes(hdr)
    if v >= 4 and rng.random() < 0.8:
        for _ in range(rng.randint(0, 4)):
            t = rng.choice(EF_TYPES)
            ln = rng.choice([0, 4, 12, 16, 24, 28, 32, 36, 100, 5, 13, 30])
            out += ext_field(rng, t, ln, lie=rng.choice([0, 0, 0, 0, 1, -1, 4, -4, 400]))
        if v == 5 and rng.random() < 0.8:
            body = DRAFT + b"\x00" * ((4 - len(DRAFT) % 4) % 4)
            out += bytes([0xF5, 0xFF, 0, 4 + len(body)]) + body
    if rng.random() < 0.25:
        out += bytes(rng.randrange(256) for _ in range(rng.choice([4, 16, 20, 24, 28, 3, 40])))
    return out


def gen_mutations(rng, est_len):
    muts = []
    k = rng.random()
    if k < 0.25:
        muts.append("s0:%02x" % rng.randrange(256))                        # any leap/version/mode byte
    elif k < 0.45:
        muts.append("x%d:%02x" % (rng.randrange(max(1, est_len)), 1 << rng.randrange(8)))   # single bit flip
    elif k < 0.6:
        muts.append("t%d" % rng.randrange(est_len + 1))                     # truncation at any offset
    elif k < 0.7:
        muts.append("a" + rand_hex(rng, rng.choice([1, 3, 4, 16, 20, 24, 28, 64])))
    elif k < 0.8:
        muts.append("x%d:%02x" % (rng.choice([50, 51, 2, 3, 86, 87]), rng.randrange(1, 256)))   # length-field lies
    elif k < 0.9:
        muts.append("s0:%02x" % ((rng.randrange(4) << 6) | (rng.choice([3, 4, 5]) << 3) | rng.randrange(8)))
    else:
        for _ in range(rng.randint(2, 4)):
            muts.append("x%d:%02x" % (rng.randrange(max(1, est_len)), rng.randrange(1, 256)))
    return muts


BASE_LEN = {"p3": 48, "p4": 48, "p4u": 48, "p5": 76}


def est_len(base):
    if base in BASE_LEN:
        return BASE_LEN[base]
    if base.startswith("raw:"):
        return (len(base) - 4) // 2
    return 232 if base[1] == "4" else 260


def gen_base(rng, kind=None):
    k = kind or rng.choice(["plain", "plain", "nts", "nts", "badnts", "raw"])
    if k == "plain":
        return rng.choice(["p3", "p4", "p4", "p5", "p5", "p4u"])
    if k == "nts":
        return "%s:%d" % (rng.choice(["n4", "n4", "n5", "n5", "n4b", "n5b"]), rng.choice([1, 1, 2, 3, 8]))
    if k == "badnts":
        return rng.choice(["n4k", "n5k", "n4w", "n5w"])
    return "raw:" + raw_packet(rng).hex()


def gen_op(rng, ip=None, base=None, clean=False, age=0):
    base = base or gen_base(rng)
    ip = ip or rng.choice(POOL)
    premode, muts = "-", []
    if not clean:
        r = rng.random()
        if r < 0.2:
            # the mode is set before serialisation (and authentication): v5 packets have two modes only
            premode = str(rng.choice([3, 4]) if "5" in base[:2] else rng.randrange(8))
            if base.startswith("raw:"):
                premode = "-"
        elif r < 0.6:
            muts = gen_mutations(rng, est_len(base))
    b = rng.random()
    if clean or b < 0.55:
        buf = "="
    elif b < 0.7:
        buf = 1024
    else:
        buf = rng.choice([0, 1, 3, 4, 5, 47, 48, 49, 75, 76, 80, 100, 228, 232, 236, 256, 260, 2048])
    return {"ip": ip, "base": base, "premode": premode, "muts": muts, "buf": buf, "age": age}


def line_of(sc):
    c = sc["cfg"]
    t = ["srv", c["deny_action"], c["allow_action"], ",".join(c["deny"]) or "-", ",".join(c["allow"]) or "-",
         str(c["cache"]), str(c["cutoff"]), c["require_nts"], c["accepted"], str(c["stratum"]), str(c["root_delay"]),
         str(c["clock_fail"]), str(len(sc["ops"]))]
    for o in sc["ops"]:
        t += [o["ip"], o["base"], o["premode"], ",".join(o["muts"]) or "-", str(o["buf"]), str(o["age"])]
    return " ".join(t)


# ----------------------------------------------------------------------------
# harness output

def parse_ops(out):
    """token list of one scenario -> list of per-op dicts, or None for PANIC"""
    if out and out[0] == "PANIC":
        return None
    res, i = [], 0
    while i < len(out):
        assert out[i] == "|", out[i:i + 3]
        f = out[i + 1:i + 15]
        d = dict(zip(["len", "b0", "parse", "ver", "client", "cookie", "fbv", "in_deny", "in_allow", "slot", "probe",
                      "act", "kind", "nregs"], map(int, f)))
        i += 15
        regs = []
        for _ in range(d["nregs"]):
            regs.append(tuple(int(x) for x in out[i:i + 4]))
            i += 4
        d["regs"] = regs
        d["answer"] = bytes.fromhex(out[i]) if out[i] != "-" else None
        i += 1
        res.append(d)
    return res


def answer_kind_py(ans):
    """independent decode of an answer datagram: 'none' | 'time' | 'deny' | 'nak' | 'rate' | 'other'"""
    if ans is None:
        return "none"
    if len(ans) < 48:
        return "other"
    v, mode, stratum = (ans[0] >> 3) & 7, ans[0] & 7, ans[1]
    if mode != 4:
        return "other"
    if stratum != 0:
        return "time"
    if v in (3, 4):
        return {b"DENY": "deny", b"NTSN": "nak", b"RATE": "rate"}.get(bytes(ans[12:16]), "other")
    if v == 5:
        if ans[2] == 0x7F:
            return "deny"
        if ans[15] & 0x04:
            return "nak"
        return "rate"
    return "other"


RESP_KIND = {0: "nak", 1: "deny", 2: "none", 3: "time"}


# ----------------------------------------------------------------------------
# Coq terms

def model_terms(sc, ops_out):
    """(input term, implementation-output term) for Model.Server.scenario_run"""
    c = sc["cfg"]
    z = vplib.zlit
    cfgl = [z({"i": 0, "d": 1}[c["deny_action"]]), z({"i": 0, "d": 1}[c["allow_action"]]),
            z({"n": 0, "i": 1, "d": 2}[c["require_nts"]]), z(c["cache"]), z(c["cutoff"]),
            z(0 if c["clock_fail"] else 1), z(1 if c["root_delay"] >= 0 else 0)]
    acc = [z(int(ch)) for ch in c["accepted"] if ch != "-"]
    if ops_out is None:
        # the implementation panicked: the model must panic on the same scenario.  The per-op observations are
        # lost with the panic, so a panicking scenario is only comparable when it has a single op whose
        # summary can be reconstructed: those are generated with known summaries (see panic_scenarios)
        return None
    tbl, ops, outs, now = {}, [], [], 0
    for o, d in zip(sc["ops"], ops_out):
        now += o["age"]
        a = addr_id(o["ip"])
        if d["slot"] >= 0:
            tbl[a] = d["slot"]
        buflen = d["len"] if o["buf"] == "=" else int(o["buf"])
        ser_ok = 1 if (0 <= d["probe"] <= buflen) else 0
        ops.append(vplib.coq_list([z(d["fbv"]), z(d["parse"]), z(d["ver"]), z(d["client"]), z(d["cookie"]), z(a),
                                   z(d["in_deny"]), z(d["in_allow"]), z(now), z(ser_ok), z(1 if buflen >= 4 else 0)]))
        o_ = [z(d["kind"] if d["act"] else 0), z(d["nregs"])]
        for g in d["regs"]:
            o_ += [z(x) for x in g]
        outs.append(vplib.coq_list(o_))
    tblt = vplib.coq_list(["(%s, %s)" % (z(a), z(s)) for a, s in sorted(tbl.items())])
    inp = "(sc_in %s %s %s %s)" % (vplib.coq_list(cfgl), vplib.coq_list(acc), tblt, vplib.coq_list(ops))
    return inp, "(sc_out %s)" % vplib.coq_list(outs)


def panic_terms(sc, summaries):
    """scenario known to panic in the implementation: the model input is built from summaries the
    generator knows (clean bases), the expected output is the model's panic marker [[-2]]"""
    c = sc["cfg"]
    z = vplib.zlit
    cfgl = [z({"i": 0, "d": 1}[c["deny_action"]]), z({"i": 0, "d": 1}[c["allow_action"]]),
            z({"n": 0, "i": 1, "d": 2}[c["require_nts"]]), z(c["cache"]), z(c["cutoff"]),
            z(0 if c["clock_fail"] else 1), z(1 if c["root_delay"] >= 0 else 0)]
    acc = [z(int(ch)) for ch in c["accepted"] if ch != "-"]
    ops = []
    for o, s in zip(sc["ops"], summaries):
        ops.append(vplib.coq_list([z(x) for x in s]))
    inp = "(sc_in %s %s [] %s)" % (vplib.coq_list(cfgl), vplib.coq_list(acc), vplib.coq_list(ops))
    return inp, "(sc_out [[(-2)%Z]])"


PREAMBLE = ("From V Require Import Model.Server.\n"
            "Definition sc_in (c a : list Z) (t : list (Z * Z)) (o : list (list Z)) := (c, a, t, o).\n"
            "Definition sc_out (x : list (list Z)) := x.\n")
CHECKER = "mismatches zll_eqb scenario_run"


def in_c15_class(sc, ops_out):
    """datagrams whose NTS field fails to authenticate and whose mode is not `client`: the
    unrepaired server answers them with a NAK/DENY (C15's finding); only C15 compares them"""
    return ops_out is not None and any(d["parse"] == 1 and d["client"] == 0 for d in ops_out)


# ----------------------------------------------------------------------------
# monitors: the property statements evaluated on one implementation run

def clean_request(o):
    return not o["muts"] and o["premode"] in ("-", "3") and not o["base"].startswith("raw:") and o["base"][-1] not in "kw"


def base_version(o):
    return {"3": 3, "4": 4, "5": 5}[o["base"][1]]


def monitor_c15(sc, out):
    ops = parse_ops(out)
    if ops is None:
        return None
    c = sc["cfg"]
    for k, (o, d) in enumerate(zip(sc["ops"], ops)):
        kind = answer_kind_py(d["answer"])
        ind, inal = member(o["ip"], c["deny"]), member(o["ip"], c["allow"])
        where = "op %d (%s from %s)" % (k, o["base"][:40], o["ip"])
        pay = {"scenario": line_of(sc), "op": k}
        if ind or not inal:
            act = c["deny_action"] if ind else c["allow_action"]
            lst = "deny" if ind else "allow"
            if kind == "time":
                return ("%s: client %s the %s list received time" % (where, "on" if ind else "not on", lst), pay)
            if act == "i" and kind != "none":
                return ("%s: %s-list action is ignore but a %s answer was sent" % (where, lst, kind), pay)
            if act == "d" and kind not in ("none", "deny"):
                return ("%s: %s-list action is deny but the answer is %s, not a DENY kiss" % (where, lst, kind), pay)
        if d["len"] < 48 and kind != "none":
            return ("%s: a %d-byte datagram (malformed) was answered (%s)" % (where, d["len"], kind), pay)
        if d["len"] >= 1:
            ver, mode = (d["b0"] >> 3) & 7, d["b0"] & 7
            if mode != 3 and kind != "none":
                pay["class"] = "C15_nonclient_auth_failure" if d["parse"] == 1 else "C15_nonclient"
                return ("%s: a non-client packet (mode %d, version %d, %d bytes) was answered with %s" % (
                    where, mode, ver, d["len"], kind), pay)
            if str(ver) not in c["accepted"] and kind != "none":
                return ("%s: a version-%d request was answered (%s) although accepted versions are {%s}" % (
                    where, ver, kind, c["accepted"]), pay)
        if c["require_nts"] != "n" and not o["base"].startswith(VALID_NTS) and kind == "time":
            return ("%s: NTS is required but a request without a valid cookie received time" % where, pay)
        if (clean_request(o) and not ind and inal and str(base_version(o)) in c["accepted"]
                and (c["cache"] == 0 or c["cutoff"] == 0)
                and (c["require_nts"] == "n" or o["base"].startswith(VALID_NTS))
                and (o["buf"] == "=" or int(o["buf"]) >= max(1024, d["len"])) and not c["clock_fail"] and c["root_delay"] >= 0):
            if kind != "time":
                return ("%s: well-formed accepted-version request from an allowed, not rate-limited client got %s instead of time"
                        % (where, kind), pay)
    return None


def expected_rate_verdicts(calls, n, cutoff):
    """the property on a history of list-passing calls (addr, slot, t): refused iff the most recent earlier call
    on the same slot was the same address less than the cutoff before; independent of the model"""
    res = []
    for k, (a, s, t) in enumerate(calls):
        ref = False
        if n > 0:
            for j in range(k - 1, -1, -1):
                if calls[j][1] == s:
                    ref = calls[j][0] == a and max(0, t - calls[j][2]) < cutoff
                    break
        res.append(ref)
    return res


def monitor_c20_server(sc, out):
    ops = parse_ops(out)
    if ops is None:
        return None
    c = sc["cfg"]
    calls, idx, now = [], [], 0
    for k, (o, d) in enumerate(zip(sc["ops"], ops)):
        now += o["age"]
        passes = (not member(o["ip"], c["deny"])) and member(o["ip"], c["allow"])
        limited = any(g[2] == 0 for g in d["regs"])
        if limited and not passes:
            return ("op %d: a client that did not pass the access lists was rate-limited" % k, {"scenario": line_of(sc), "op": k})
        if limited and d["act"]:
            return ("op %d: rate-limited but an answer was sent" % k, {"scenario": line_of(sc), "op": k})
        if passes:
            calls.append((addr_id(o["ip"]), d["slot"], now))
            idx.append((k, limited))
    want = expected_rate_verdicts(calls, c["cache"], c["cutoff"])
    for (k, limited), w, call in zip(idx, want, calls):
        if limited != w:
            return ("op %d (%s): %s, but its own previous list-passing request on that slot says %s (cache %d, cutoff %d ns)" % (
                k, sc["ops"][k]["ip"], "rate-limited" if limited else "not rate-limited",
                "refuse" if w else "allow", c["cache"], c["cutoff"]), {"scenario": line_of(sc), "op": k})
    return None


def monitor_c21(sc, out):
    ops = parse_ops(out)
    if ops is None:
        return None
    for k, (o, d) in enumerate(zip(sc["ops"], ops)):
        pay = {"scenario": line_of(sc), "op": k}
        if d["nregs"] != 1:
            return ("op %d: %d statistics registrations for one datagram" % (k, d["nregs"]), pay)
        ver, nts, reason, resp = d["regs"][0]
        kind = answer_kind_py(d["answer"])
        if RESP_KIND[resp] != kind:
            return ("op %d: registered response %s but what was done is %s" % (k, RESP_KIND[resp], kind), pay)
        if kind == "nak" and not nts:
            return ("op %d: an NTS NAK was sent but the datagram is registered without the NTS flag" % k, pay)
        plain = o["base"] in ("p3", "p4", "p5", "p4u") and not any(m[0] == "a" for m in o["muts"])
        if plain and nts:
            return ("op %d: NTS flag set for a plain request" % k, pay)
        if clean_request(o) and o["base"].startswith(VALID_NTS) and kind != "none" and not nts:
            return ("op %d: an authenticating NTS request was answered (%s) without the NTS flag" % (k, kind), pay)
    return None


def monitor_c22(sc, out):
    if out and out[0] == "PANIC":
        c = sc["cfg"]
        if not c["clock_fail"] and c["root_delay"] >= 0:
            return ("Server::handle panicked: %s" % " ".join(out[1:])[:200], {"scenario": line_of(sc)})
    return None


# ----------------------------------------------------------------------------
# the common correspondence flow of the scenario-based checks

def clean_summary(sc, o):
    """model input of a datagram whose decoder summary is known by construction (clean bases only)"""
    c = sc["cfg"]
    v = base_version(o)
    cookie = 1 if o["base"].startswith(VALID_NTS) else 0
    buflen = est_len(o["base"]) if o["buf"] == "=" else int(o["buf"])
    return [v, 0, v, 1, cookie, addr_id(o["ip"]), 1 if member(o["ip"], c["deny"]) else 0,
            1 if member(o["ip"], c["allow"]) else 0, 0, 1, 1 if buflen >= 4 else 0]


def run_scenarios(c, scenarios, monitor, compare_c15_class, shard=250, preamble=None, checker=None, wrap_terms=None):
    """preamble/checker/wrap_terms: a property may evaluate a richer run function than scenario_run on the same
    scenarios (C22: also the decoder summary recomputed from the bytes); wrap_terms(sc, ops_out or None, (inp, out))
    returns the terms for that function.  Defaults: Model.Server.scenario_run on the plain terms."""
    stats = {"scenarios": 0, "datagrams": 0, "panics": 0, "skipped_c15_class": 0,
             "parse": {"ok": 0, "decrypt_error": 0, "error": 0}, "answers": {}, "registrations": {},
             "with_cookie": 0, "non_client": 0, "denied_or_not_allowed": 0, "rate_limited": 0,
             "serialization_failures": 0, "request_len": {"<48": 0, "48": 0, "49-255": 0, "256-1024": 0, ">1024": 0}}

    def coq_case(sc, out):
        stats["scenarios"] += 1
        ops = parse_ops(out)
        if ops is None:
            stats["panics"] += 1
            if len(sc["ops"]) == 1 and clean_request(sc["ops"][0]) and sc["cfg"]["cache"] == 0:
                t = panic_terms(sc, [clean_summary(sc, sc["ops"][0])])
                return wrap_terms(sc, None, t) if wrap_terms else t
            return None
        for d in ops:
            stats["datagrams"] += 1
            stats["parse"][["ok", "decrypt_error", "error"][d["parse"]]] += 1
            k = answer_kind_py(d["answer"])
            stats["answers"][k] = stats["answers"].get(k, 0) + 1
            for g in d["regs"]:
                key = "%s/%s%s" % (["RateLimit", "ParseError", "InvalidCrypto", "InternalError", "Policy"][g[2]],
                                   ["NTSNak", "Deny", "Ignore", "ProvideTime"][g[3]], "/nts" if g[1] else "")
                stats["registrations"][key] = stats["registrations"].get(key, 0) + 1
                if g[2] == 0:
                    stats["rate_limited"] += 1
                if g[2] == 3:
                    stats["serialization_failures"] += 1
            stats["with_cookie"] += d["cookie"]
            stats["non_client"] += 1 if (d["parse"] != 2 and not d["client"]) else 0
            stats["denied_or_not_allowed"] += 1 if (d["in_deny"] or not d["in_allow"]) else 0
            n = d["len"]
            stats["request_len"]["<48" if n < 48 else "48" if n == 48 else "49-255" if n < 256 else "256-1024" if n <= 1024 else ">1024"] += 1
        if not compare_c15_class and in_c15_class(sc, ops):
            stats["skipped_c15_class"] += 1
            return None
        t = model_terms(sc, ops)
        return wrap_terms(sc, ops, t) if (wrap_terms and t is not None) else t

    def nontrivial(sc, out):
        ops = parse_ops(out)
        return ops is not None and any(d["parse"] != 2 for d in ops)

    outs = vplib.correspondence(
        c, "ntp-proto", scenarios, line_of=line_of, coq_case_of=coq_case, preamble=preamble or PREAMBLE, checker=checker or CHECKER,
        monitor=monitor, nontrivial=nontrivial,
        sample_of=lambda sc, out: {"input": line_of(sc)[:500], "implementation": " ".join(out)[:400]}, shard=shard)
    c.cov["distribution"] = stats
    return outs, stats


COMMON_ASSUMPTIONS = [
    "hand-written decision model of Server::handle (coq/Model/Server.v) over the decoder's result summary; the summary "
    "(outcome class, version, mode, cookie) of every generated datagram is taken from the real NtpPacket::deserialize, "
    "list membership from the real IpFilter, the rate-limit slot from TimestampedCache::index",
    "whether the answer fits the caller's buffer is an input of the model: measured by a probe call of the same request "
    "with a 70000-byte buffer (cache state restored afterwards)",
    "answer kinds (time / DENY / NAK / RATE) are decoded twice: by the crate's own predicates in the harness (model comparison) "
    "and from the raw bytes in python (monitor)",
]


def policy_grid(bases=("p3", "p4", "p5", "n4:1", "n5:1", "n4k", "n5w")):
    """complete enumeration of the decision inputs of intended_action x handle_inner for clean requests:
    list actions x position of the client w.r.t. the two lists x require-nts x accepted versions x request kind"""
    res = []
    for da in "id":
        for aa in "id":
            for deny in (["1.2.3.0/24"], []):
                for allow in (["1.2.0.0/16", "::/0"], ["10.0.0.0/8"]):
                    for rn in "nid":
                        for acc in ("34", "5", "345", "-"):
                            for b in bases:
                                cfg = {"deny_action": da, "allow_action": aa, "deny": deny, "allow": allow, "cache": 0,
                                       "cutoff": 0, "require_nts": rn, "accepted": acc, "stratum": 2, "root_delay": 0,
                                       "clock_fail": 0}
                                res.append({"cfg": cfg, "ops": [{"ip": "1.2.3.4", "base": b, "premode": "-", "muts": [],
                                                                 "buf": "=", "age": 0}]})
    return res


# ----------------------------------------------------------------------------
# ./check Cxx --replay <file>: run only the input recorded in a replay file

def scenario_of_line(t):
    """inverse of line_of (tokens without the case index)"""
    cfg = {"deny_action": t[1], "allow_action": t[2], "deny": [] if t[3] == "-" else t[3].split(","),
           "allow": [] if t[4] == "-" else t[4].split(","), "cache": int(t[5]), "cutoff": int(t[6]), "require_nts": t[7],
           "accepted": t[8], "stratum": int(t[9]), "root_delay": int(t[10]), "clock_fail": int(t[11])}
    ops = []
    for k in range(int(t[12])):
        o = t[13 + 6 * k:19 + 6 * k]
        ops.append({"ip": o[0], "base": o[1], "premode": o[2], "muts": [] if o[3] == "-" else o[3].split(","),
                    "buf": o[4] if o[4] == "=" else int(o[4]), "age": int(o[5])})
    return {"kind": "srv", "cfg": cfg, "ops": ops}


def replay_tokens():
    """tokens of the harness input stored in the replay file named after --replay, or None"""
    import json
    import sys
    if "--replay" not in sys.argv:
        return None
    j = json.load(open(sys.argv[sys.argv.index("--replay") + 1]))
    line = j.get("replay", {}).get("harness_input")
    if not line:
        return []
    return line.split()[1:]
