"""C42: the multi-clock estimator keeps unrelated estimates intact.
Model: coq/Model/Estimator.v (generic bookkeeping + arithmetic record), coq/Model/FloatBits.v
(binary64 instance), coq/Model/EstimatorRun.v (encodings); theorems: coq/Props/C42.v;
tie: the real EstimatorState<StdKalmanStorage<()>> through harness/statime-algo/c42.rs,
raw state compared bit for bit."""
import struct

from tools import vplib

TWO128 = 1 << 128
SEC = 1 << 64


def bits(x):
    return struct.unpack(">Q", struct.pack(">d", x))[0]


def hx(b):
    return "%016x" % b


def signed128(z):
    z %= TWO128
    return z - TWO128 if z >= (1 << 127) else z


SPECIAL = [0x0, 0x8000000000000000, 0x7ff0000000000000, 0xfff0000000000000, 0x7ff8000000000000,
           0x1, 0x000fffffffffffff, 0x0010000000000000, 0x7fefffffffffffff, 0xffefffffffffffff,
           0x3ff0000000000000, 0xbff0000000000000, 0x7fe0000000000000, 0x5fefffffffffffff]


class Gen:
    """generator of one history; keeps its own view of which identifiers are present so that
    most operations are valid and a chosen share is invalid (unknown / duplicate)"""

    def __init__(self, rng, style):
        self.rng = rng
        self.style = style          # 'move' (any bit pattern), 'kalman' (realistic numbers), 'wild' (extreme numerics)
        self.counter = 0

    def val(self, scale=1.0):
        r = self.rng
        self.counter += 1
        if self.style == "move":
            k = r.random()
            if k < 0.15:
                return r.choice(SPECIAL)
            if k < 0.4:
                return r.getrandbits(64)
            return bits(self.counter + r.randint(1, 999) / 1000.0)      # distinguishable values
        if self.style == "wild":
            k = r.random()
            if k < 0.2:
                return r.choice(SPECIAL)
            if k < 0.4:
                return bits(r.choice([-1, 1]) * 10.0 ** r.uniform(-300, 300))
        return bits(r.uniform(-1, 1) * scale)

    def pos(self, lo, hi):
        r = self.rng
        if self.style in ("move", "wild") and r.random() < 0.25:
            return self.val()
        return bits(10.0 ** r.uniform(lo, hi))

    def time0(self):
        r = self.rng
        k = r.random()
        if k < 0.6:
            return r.randint(0, 2_000_000_000) * SEC + r.getrandbits(64)
        if k < 0.7:
            return r.randint(0, 5)
        if k < 0.8:
            return TWO128 - 1 - r.randint(0, 5 * SEC)
        if k < 0.9:
            return (1 << 127) + r.randint(-3, 3)
        return r.getrandbits(128)

    def history(self):
        r = self.rng
        nc = r.randint(2, 6)
        nl = r.randint(0, 5)
        links = []
        for _ in range(nl):
            a = r.randrange(nc)
            b = r.choice([x for x in range(nc) if x != a])
            links.append([a, b])
        t = self.time0()
        case = {"nc": nc, "links": links, "t0": t, "ops": [], "style": self.style}
        internal, external, present = [], [], []     # generator's view
        n = r.randint(3, 28) if self.style != "kalman" else r.randint(6, 24)
        for _ in range(n):
            k = r.random()
            ops = case["ops"]
            invalid = r.random() < 0.12
            if k < 0.22:
                free = [c for c in range(nc) if c not in internal and c not in external]
                if invalid or not free:
                    c = r.randrange(nc)
                else:
                    c = r.choice(free)
                ops.append(["AC", c, hx(self.val(1e-3)), hx(self.pos(-7, -2)), hx(self.val(1e-5)), hx(self.pos(-8, -4)), hx(self.pos(-12, -7))])
                if c not in internal and c not in external:
                    internal.append(c)
            elif k < 0.30:
                free = [c for c in range(nc) if c not in internal and c not in external]
                c = r.randrange(nc) if (invalid or not free) else r.choice(free)
                ops.append(["XE", c])
                if c not in internal and c not in external:
                    external.append(c)
            elif k < 0.38:
                c = r.randrange(nc) if (invalid or not internal) else r.choice(internal)
                ops.append(["RC", c])
                if c in internal:
                    internal.remove(c)
            elif k < 0.42:
                c = r.randrange(nc) if (invalid or not external) else r.choice(external)
                ops.append(["RE", c])
                if c in external:
                    external.remove(c)
            elif k < 0.54 and nl:
                ok = [l for l in range(nl) if l not in present and all(x in internal or x in external for x in links[l])]
                l = r.randrange(nl) if (invalid or not ok) else r.choice(ok)
                ops.append(["AL", l, hx(self.val(1e-4)), hx(self.pos(-7, -4)), hx(self.pos(-4, -1))])
                if l not in present and all(x in internal or x in external for x in links[l]):
                    present.append(l)
            elif k < 0.60 and nl:
                l = r.randrange(nl) if (invalid or not present) else r.choice(present)
                ops.append(["RL", l])
                if l in present:
                    present.remove(l)
            elif k < 0.72:
                kk = r.random()
                cur = t
                if kk < 0.55:
                    d = int(10.0 ** r.uniform(-3, 2.5) * SEC)
                elif kk < 0.65:
                    d = 0
                elif kk < 0.8:
                    d = -r.choice([1, 2, SEC, r.getrandbits(70)])
                elif kk < 0.9:
                    d = r.choice([1, (1 << 127) - 1, 1 << 127, (1 << 127) + 1, (1 << 127) - 2])
                else:
                    d = r.getrandbits(128)
                nt = (cur + d) % TWO128
                ops.append(["P", nt])
                if signed128(nt - cur) >= 0:
                    t = nt
            elif k < 0.84 and nl:
                ok = [l for l in range(nl) if all(x in internal or x in external for x in links[l])
                      and not all(x in external for x in links[l])]
                if not ok and not invalid and r.random() < 0.8:
                    continue
                l = r.randrange(nl) if (invalid or not ok) else r.choice(ok)
                delay = (1 if r.random() < 0.9 else 0) if l in present else (1 if r.random() < 0.1 else 0)
                ops.append(["M", l, r.randint(0, 1), hx(self.val(1e-3)), hx(self.pos(-7, -3)), delay])
            elif k < 0.90:
                c = r.randrange(nc) if (invalid or not internal) else r.choice(internal)
                which = r.choice(["AF", "AO"])
                ops.append([which, c, hx(self.val(1e-4))])
            elif k < 0.94:
                c = r.randrange(nc) if (invalid or not internal) else r.choice(internal)
                d = r.choice([r.randint(-SEC, SEC), r.randint(-1000, 1000), -r.getrandbits(100), r.getrandbits(126)])
                ops.append(["AS", c, d])
                if c in internal:
                    t = (t + d) % TWO128
            else:
                ops.append(["D"])
        return case


def line_of(case):
    toks = [str(case["nc"]), str(len(case["links"]))]
    for a, b in case["links"]:
        toks += [str(a), str(b)]
    toks.append(str(case["t0"]))
    for op in case["ops"]:
        toks += [str(x) for x in op]
    return " ".join(toks)


def split_out(case, out):
    """-> (list of (code, time, queries-token-list, dump or None), final dump) or None"""
    groups, cur = [], None
    for tok in out:
        if tok == ";":
            if cur is not None:
                groups.append(cur)
            cur = []
        elif cur is not None:
            cur.append(tok)
    if cur is not None:
        groups.append(cur)
    if len(groups) != len(case["ops"]) + 1 or not groups[-1] or groups[-1][0] != "F":
        return None
    res = []
    for g in groups[:-1]:
        d = None
        if "D" in g:
            k = g.index("D")
            d = g[k + 1:]
            g = g[:k]
        res.append((g[0], int(g[1]), g[2:], d))
    return res, groups[-1][1:]


def dump_split(d):
    """harness dump tokens -> (ints, floats as bit patterns) in the order of dump_ints / dump_floats"""
    ints, wander, decay = [], [], []
    i = 0

    def take():
        nonlocal i
        i += 1
        return d[i - 1]
    for _ in range(5):
        ints.append(int(take()))
    ncl = int(take())
    ints.append(ncl)
    for _ in range(ncl):
        ints.append(int(take()))
        ints.append(int(take()))
        wander.append(int(take(), 16))
    ne = int(take())
    ints.append(ne)
    for _ in range(ne):
        ints.append(int(take()))
    nli = int(take())
    ints.append(nli)
    for _ in range(nli):
        ints.append(int(take()))
        ints.append(int(take()))
        decay.append(int(take(), 16))
    rest = []
    while i < len(d):
        rest.append(int(take(), 16))
    return ints, wander + decay + rest


def code_z(c):
    if c == "0":
        return 0
    if c == "p":
        return -1
    return int(c[1:])


def flit(b):
    """Coq primitive-float literal of a 64-bit pattern (parsed natively, exact)"""
    e = (b >> 52) & 0x7ff
    m = b & ((1 << 52) - 1)
    if e == 0x7ff:
        if m:
            return "nan"
        return "neg_infinity" if b >> 63 else "infinity"
    x = struct.unpack(">d", struct.pack(">Q", b))[0]
    h = x.hex()
    return "(%s)" % h if h.startswith("-") else h


def fbz(h):
    return flit(int(h, 16))


def coq_op(case, op):
    L = case["links"]

    def lid(l):
        return "(%s, %s, %s)" % (vplib.zlit(L[l][0]), vplib.zlit(L[l][1]), vplib.zlit(l))
    k = op[0]
    if k == "P":
        return "Some (OpProgress %s)" % vplib.zlit(op[1])
    if k == "AF":
        return "Some (OpAbsorbFreq %s %s)" % (vplib.zlit(op[1]), fbz(op[2]))
    if k == "AO":
        return "Some (OpAbsorbOffset %s %s)" % (vplib.zlit(op[1]), fbz(op[2]))
    if k == "AS":
        return "Some (OpAbsorbSystem %s %s)" % (vplib.zlit(op[1]), vplib.zlit(op[2]))
    if k == "M":
        return "Some (OpMeasure %s %s %s %s %s)" % (lid(op[1]), vplib.blit(op[2] == 1), fbz(op[3]), fbz(op[4]), vplib.blit(op[5] == 1))
    if k == "XE":
        return "Some (OpAddExternal %s)" % vplib.zlit(op[1])
    if k == "RE":
        return "Some (OpRemoveExternal %s)" % vplib.zlit(op[1])
    if k == "AC":
        return "Some (OpAddClock %s %s)" % (vplib.zlit(op[1]), " ".join(fbz(x) for x in op[2:7]))
    if k == "RC":
        return "Some (OpRemoveClock %s)" % vplib.zlit(op[1])
    if k == "AL":
        return "Some (OpAddLink %s %s)" % (lid(op[1]), " ".join(fbz(x) for x in op[2:5]))
    if k == "RL":
        return "Some (OpRemoveLink %s)" % lid(op[1])
    if k == "D":
        return "None"
    raise ValueError(k)


def coq_case(case, out):
    inp = "((%s, %s) : Z * list (option fop))" % (vplib.zlit(case["t0"]), vplib.coq_list([coq_op(case, o) for o in case["ops"]]))
    if out and out[0] == "PANIC":
        return inp, "([(-99)%Z], [])"
    sp = split_out(case, out)
    if sp is None:
        return inp, "([(-98)%Z], [])"
    per, final = sp
    zs, fs = [], []
    for code, _t, _q, d in per:
        zs.append(code_z(code))
        if d is not None:
            i, f = dump_split(d)
            zs += i
            fs += f
    i, f = dump_split(final)
    zs += i
    fs += f
    return inp, "(%s, %s)" % (vplib.coq_list([vplib.zlit(z) for z in zs]), vplib.coq_list([flit(x) for x in fs]))


def monitor(case, out):
    """the property itself on one run of the real estimator, from the public queries only:
    (1) a successful addition/removal of a clock / external clock / link leaves the reported
    value and uncertainty of every other clock and link, and the time, unchanged;
    (2) an operation on an unknown or duplicate identifier fails, and a failed operation leaves
    everything reported unchanged;  (3) progress_time to an earlier time fails, a successful one
    reports exactly the requested time; no operation except the system clock step moves time backwards."""
    if out and out[0] == "PANIC":
        return ("the harness case panicked outside an operation: %s" % " ".join(out[:3]), {})
    sp = split_out(case, out)
    if sp is None:
        return None
    per, _final = sp
    nc, nl = case["nc"], len(case["links"])
    internal, external, present = set(), set(), set()

    def slots(q):
        # per clock: offset (2 tokens or '-'), frequency; per link: delay
        res, i = [], 0
        for _ in range(2 * nc + nl):
            if q[i] == "-":
                res.append(("-",))
                i += 1
            else:
                res.append((q[i], q[i + 1]))
                i += 2
        return res
    prev_t = case["t0"]
    prev = slots(["-"] * (2 * nc + nl))
    for idx, (op, (code, t, q, _d)) in enumerate(zip(case["ops"], per)):
        s = slots(q)
        k = op[0]
        where = "operation %d %s of the history" % (idx, " ".join(str(x) for x in op))
        if code == "p" and k in ("AC", "RC", "XE", "RE", "AL", "RL", "P", "D"):
            return ("%s panics" % where, {})
        if code != "0":
            if s != prev or t != prev_t:
                return ("%s fails (%s) but the reported estimates or the time changed" % (where, code), {})
        else:
            if k in ("AC", "RC"):
                own = {2 * op[1], 2 * op[1] + 1}
            elif k in ("AL", "RL"):
                own = {2 * nc + op[1]}
            else:
                own = set()
            if k in ("AC", "RC", "XE", "RE", "AL", "RL", "D"):
                for j in range(2 * nc + nl):
                    if j not in own and s[j] != prev[j]:
                        what = ("clock %d" % (j // 2)) if j < 2 * nc else ("link %d" % (j - 2 * nc))
                        return ("%s changes the reported estimate of %s from %s to %s" % (where, what, prev[j], s[j]), {})
                if t != prev_t:
                    return ("%s changes the estimator time" % where, {})
        # unknown / duplicate identifiers must fail
        known = internal | external
        must_fail = None
        if k == "AC" and op[1] in known:
            must_fail = "duplicate clock"
        if k == "XE" and op[1] in known:
            must_fail = "duplicate clock"
        if k == "RC" and op[1] not in internal:
            must_fail = "unknown clock"
        if k == "RE" and op[1] not in external:
            must_fail = "unknown external clock"
        if k == "AL" and (op[1] in present or any(x not in known for x in case["links"][op[1]])):
            must_fail = "duplicate link or unknown clock"
        if k == "RL" and op[1] not in present:
            must_fail = "unknown link"
        if k in ("AF", "AO", "AS") and op[1] not in internal:
            must_fail = "unknown clock"
        if must_fail and code == "0":
            return ("%s succeeds although it names a %s" % (where, must_fail), {})
        if k == "P":
            back = signed128(op[1] - prev_t) < 0
            if back and code == "0":
                return ("%s moves the time backwards from %d to %d" % (where, prev_t, op[1]), {})
            if not back and code == "0" and t != op[1]:
                return ("%s reports time %d instead of the requested one" % (where, t), {})
            if not back and code not in ("0", "p"):
                return ("%s to a later or equal time fails (%s)" % (where, code), {})
        elif k != "AS" and signed128(t - prev_t) < 0:
            return ("%s moves the time backwards" % where, {})
        if code == "0":
            if k == "AC":
                internal.add(op[1])
            if k == "XE":
                external.add(op[1])
            if k == "RC":
                internal.discard(op[1])
            if k == "RE":
                external.discard(op[1])
            if k == "AL":
                present.add(op[1])
            if k == "RL":
                present.discard(op[1])
        prev, prev_t = s, t
    return None


def gen_cases(c):
    rng = c.rng
    quick = c.tier == "quick"
    cases = []
    import glob
    import json
    import os
    for p in sorted(glob.glob(os.path.join(vplib.VERIF, "corpus", "C42", "*.json"))):
        cases.append(json.load(open(p)))
    for style, n in (("move", 260 if quick else 3000), ("kalman", 220 if quick else 2500), ("wild", 120 if quick else 1500)):
        for _ in range(n):
            cases.append(Gen(rng, style).history())
    return cases


def main():
    c = vplib.Check("C42")
    c.run_gate()
    cases = vplib.replay_cases() or gen_cases(c)
    dist = {"ops": {}, "codes": {}, "styles": {}, "max_dim": 0}

    def note(case, out):
        sp = split_out(case, out)
        dist["styles"][case.get("style", "corpus")] = dist["styles"].get(case.get("style", "corpus"), 0) + 1
        if sp is None:
            return False
        per, final = sp
        for op, (code, _t, _q, _d) in zip(case["ops"], per):
            dist["ops"][op[0]] = dist["ops"].get(op[0], 0) + 1
            key = op[0] + ":" + code
            dist["codes"][key] = dist["codes"].get(key, 0) + 1
        dist["max_dim"] = max(dist["max_dim"], int(final[1]))
        return sum(1 for (code, _t, _q, _d) in per if code == "0") >= 3

    vplib.correspondence(
        c, "statime-algo", cases,
        line_of=line_of,
        coq_case_of=coq_case,
        preamble="From V Require Import Model.EstimatorRun.\nLocal Open Scope float_scope.\n",
        checker="mismatches out_eqb c42_run",
        monitor=monitor,
        nontrivial=note,
        shard=60 if c.tier == "quick" else 200,
        sample_of=lambda case, out: {"history": line_of(case)[:400], "output_head": " ".join(out[:40])},
    )
    c.cov["rule"] = ("random histories of 3-28 estimator operations (add/remove clock, external clock, link; progress_time; "
                     "measurement; the three absorb operations) over a pool of 2-6 clock ids and 0-5 link ids on the real "
                     "EstimatorState, each applied clone-then-replace as lib.rs does; three value streams: 'move' (arbitrary "
                     "and special bit patterns, distinguishable values), 'kalman' (realistic magnitudes), 'wild' (extreme "
                     "magnitudes, NaN, infinities); about 12% of the operations name an unknown or duplicate identifier; time "
                     "steps include 0, -1, +-2^127 and wrap-around.  The model is compared on the result class of every "
                     "operation and on the complete raw state (time, dimensions, index lists, every vector and matrix entry as "
                     "a 64-bit pattern) at checkpoints and at the end.  non-trivial = at least 3 successful operations; "
                     "distinct = distinct histories")
    c.cov["distribution"] = dist
    c.assumptions += [
        "hand-written model of estimator.rs/matrix.rs (coq/Model/Estimator.v) with the Vec/Box storage; tied bit for bit to the real "
        "EstimatorState by the histories above (all arithmetic through Coq's primitive binary64 floats)",
        "NaN payloads are not compared (every NaN is printed as 7ff8000000000000)",
        "the controller applies every estimator operation as clone-then-replace (lib.rs:167-228, 404-470); C43's harness drives "
        "the real KalmanController the same way",
    ]
    return c.finish()


MANIFEST = {
    "claimed": True,
    "text": "Theorems (Coq, generic in the element type and its arithmetic, so valid for binary64 with every NaN/rounding "
            "behaviour; for every history = list of estimator operations applied clone-then-replace to the empty estimator): "
            "C42_invariant (state n x 1, covariance n x n, unique identifiers, index blocks of 2 rows per clock and 1 per link "
            "inside 0..n, pairwise disjoint, sizes adding up to n); C42_unrelated_kept (a successful add/remove of a clock, "
            "external clock or link leaves the offset, frequency and delay queries - value and uncertainty - of every other "
            "clock and link exactly as they were) with the per-operation forms C42_add_clock_preserves, "
            "C42_remove_clock_preserves, C42_add_link_preserves, C42_remove_link_preserves, C42_external_preserves (also: what "
            "the operation reports for its own identifier, time and external clocks unchanged); C42_success_conditions (exact "
            "success condition of each add/remove); C42_errors_leave_state (an operation naming an unknown identifier or adding "
            "a duplicate fails with an error and the handle keeps its state) and C42_failed_keeps_state; C42_time_monotone "
            "(progress_time to an earlier time - negative wrapping 128-bit difference - fails, otherwise succeeds and sets "
            "exactly that time; all other operations keep the time except the absorption of a system clock step, which shifts "
            "the time scale by the step) with C42_time_difference (the wrapping difference is the ordinary one below 2^127). "
            "The model, including progress_time and measurement arithmetic, is tied bit for bit to the real EstimatorState on "
            "random histories on every run.",
    "note": "Trusted: Coq kernel + vm_compute; the hand-written model coq/Model/Estimator.v (+ FloatBits.v instance) of "
            "estimator.rs/matrix.rs with Vec/Box storage (the fixed-capacity NoAllocKalmanStorage additionally panics when its "
            "capacity N is exceeded: not modelled); harness + python driver. Index assertions and matrix dimension assertions are "
            "explicit Panic results guarded up front (unreachable under the invariant). Indices are nat: `base_index -= delta` "
            "cannot underflow on a well-formed state. 'Time never moves backwards' is read as DESIGN.md does (progress_time); "
            "absorb_system_clock_offset_change moves the estimator time by the step on purpose. Controller level: "
            "KalmanLink::measurement commits the time progression before the measurement, so a measurement that then fails (e.g. "
            "on a link whose external clock was removed - remove_external_clock does not check for links, FIXME in filter.rs) "
            "leaves the estimator progressed to `now` (modelled in Model/PtpController.v, exercised by C43). Print Assumptions: "
            "closed under the global context for every theorem.",
    "design_ref": "DESIGN.md 3 C42",
}
