"""Shared driver code of builder S2 (C07 C08 C09 C10 C12 C14): case generators for event
histories of the NTP source state machine, the token language of harness/ntp-proto/s2_source.rs,
parsing of its output, Coq terms for coq/Model/Source.v, and helpers for the monitors.

A case is a dict {min,max,nts,ver,stash:[(tag,len)],events:[str]} (event strings as in s2_source.rs).
The generators use a small python mirror of the state machine (Sim) ONLY to make histories
interesting (answer with the version the source expects, hit the reset threshold, ...); no
verdict depends on it."""
from tools import vplib

KISS = {"none": 0, "DENY": 1, "RATE": 2, "RSTR": 3, "NTSN": 4, "XXXX": 5}

# NTPv5 packets that are an NTS NAK (authnak flag) and a RATE/DENY request (poll field) at once are the
# C07/C09 defect class of the unrepaired tree; only the C07 and C09 drivers generate them, so that the other
# properties' checks do not depend on that repair.
COMBO = False


# --------------------------------------------------------------------------
# token language
# --------------------------------------------------------------------------

def ev_timer(dt, desired):
    return "T:%d:%d" % (dt, desired)


def ev_in(dt, ver=4, mode=4, stratum=2, poll=4, kiss=0, flags=None, origin="0", upg=0, efs="-"):
    if flags is None:
        flags = 1 if (ver == 5 and stratum not in (0,) and stratum < 16) else 0
    return "I:%d:%d:%d:%d:%d:%d:%d:%s:%d:%s" % (dt, ver, mode, stratum, poll & 255, kiss, flags, origin, upg, efs)


def ev_replay(dt):
    return "P:%d" % dt


def line_of(case):
    stash = ",".join("%d.%d" % c for c in case["stash"]) or "-"
    return "cfg:%d:%d nts:%d ver:%d stash:%s %s" % (case["min"], case["max"], 1 if case["nts"] else 0, case["ver"],
                                                    stash, " ".join(case["events"]))


# --------------------------------------------------------------------------
# output parsing
# --------------------------------------------------------------------------

def _ilist(s):
    return [] if s == "-" else [int(x) for x in s.split(",")]


def _clist(s):
    return [] if s == "-" else [tuple(int(y) for y in x.split(".")) for x in s.split(",")]


def parse_out(tokens):
    """-> list of events: dict(kind, now, desired | pkt..., decoded, chk, actions, dump, panic)"""
    if tokens and tokens[0] == "PANIC":
        return [{"kind": "X", "panic": True, "actions": ["PANIC"], "dump": [], "msg": " ".join(tokens[1:])}]
    evs = []
    cur = []
    for t in tokens + ["|"]:
        if t == "|":
            if cur:
                evs.append(_parse_event(cur))
            cur = []
        else:
            cur.append(t)
    return evs


def _parse_event(t):
    ai = t.index("A")
    di = t.index("D")
    acts = t[ai + 1:di]
    e = {"kind": t[0], "now": int(t[1]), "actions": [] if acts == ["-"] else acts,
         "dump": [] if t[di + 1:] == ["-"] else [int(x) for x in t[di + 1:]],
         "panic": acts == ["PANIC"]}
    if t[0] == "T":
        e["desired"] = int(t[2])
    else:
        (e["decoded"], e["ver"], e["mode"], e["stratum"], e["poll"], e["kiss"], e["authnak"], e["origin"],
         e["upg"], e["sealed"]) = [int(x) for x in t[2:12]]
        e["ua"], e["ue"] = _ilist(t[12]), _ilist(t[13])
        e["ce"], e["ca"] = _clist(t[14]), _clist(t[15])
        e["uu"], e["cu"] = _ilist(t[16]), _clist(t[17])
        e["chk"] = int(t[18])
    return e


def sends(ev):
    return [a for a in ev["actions"] if a.startswith("S,")]


def send_fields(a):
    """S,ver,upg,poll,ctag,clen,placeholders,len"""
    return [int(x) for x in a.split(",")[1:]]


def timers(ev):
    return [int(a.split(",")[1]) for a in ev["actions"] if a.startswith("T,")]


def measures(ev):
    return [a for a in ev["actions"] if a.startswith("X,")]


def init_dump(case):
    return [len(case["stash"]) if case["nts"] else 0, case["min"], case["min"], 0, 0, 0, 16, 0, 0, case["ver"]]


# dump indices
D_STASH, D_LAST, D_RMIN, D_PEND, D_DEADLINE, D_DENY, D_STRATUM, D_REACH, D_TRIES, D_VER = range(10)


# --------------------------------------------------------------------------
# Coq terms
# --------------------------------------------------------------------------

Z = vplib.zlit


def zl(l):
    return vplib.coq_list([Z(x) for x in l])


def cl(l):
    return vplib.coq_list(["(%s, %s)" % (Z(a), Z(b)) for a, b in l])


def coq_pkt(e):
    if not e["decoded"]:
        return "None"
    sealed = "None"
    if e["sealed"]:
        sealed = "(Some (mkSealed %s %s %s %s))" % (zl(e["ua"]), zl(e["ue"]), cl(e["ce"]), cl(e["ca"]))
    return "(Some (mkPkt %s %s %s %s %s %s %s %s %s %s %s))" % (
        Z(e["ver"]), Z(e["mode"]), Z(e["stratum"]), Z(e["poll"]), Z(e["kiss"]), vplib.blit(e["authnak"] == 1),
        Z(e["origin"]), vplib.blit(e["upg"] == 1), sealed, zl(e["uu"]), cl(e["cu"]))


def coq_obs(a):
    if a == "PANIC":
        return "OPanic"
    if a == "R":
        return "OReset"
    if a == "M":
        return "ODemob"
    f = a.split(",")
    if f[0] == "S":
        return "(OSend %s)" % " ".join(Z(int(x)) for x in f[1:])
    if f[0] == "T":
        return "(OTimer %s)" % Z(int(f[1]))
    if f[0] == "X":
        return "(OMeasure %s)" % Z(int(f[1]))
    raise ValueError(a)


def coq_case_of(case, out):
    evs = parse_out(out)
    if evs and evs[0]["kind"] == "X":
        return None     # the harness itself panicked (bad specification): reported by the caller
    events, outs = [], []
    for e in evs:
        if e["kind"] == "T":
            events.append("Timer %s %s" % (Z(e["now"]), Z(e["desired"])))
        else:
            events.append("Incoming %s %s" % (Z(e["now"]), coq_pkt(e)))
        outs.append("mkOut %s %s" % (vplib.coq_list([coq_obs(a) for a in e["actions"]]), zl(e["dump"])))
    inp = "(mkCase (mkCfg %s %s) %s %s %s %s)" % (Z(case["min"]), Z(case["max"]), vplib.blit(case["nts"]),
                                                cl(case["stash"] if case["nts"] else []), Z(case["ver"]),
                                                vplib.coq_list(events))
    return inp, vplib.coq_list(outs)


PREAMBLE = "From V Require Import Model.Source.\n"
CHECKER = "mismatches outs_eqb run_case"


# --------------------------------------------------------------------------
# python mirror used by the generators only
# --------------------------------------------------------------------------

class Sim:
    def __init__(self, case):
        self.nts = case["nts"]
        self.ver = case["ver"]          # 0 V4, 1 Upgraded, 2 V5, 100+n
        self.min, self.max = case["min"], case["max"]
        self.stash = list(case["stash"]) if case["nts"] else []
        self.reach = 0
        self.tries = 0
        self.pending = False
        self.deadline = 0
        self.now = 0
        self.last_poll = self.rmin = case["min"]
        self.nsent = 0
        self.deny = False

    def expects(self):
        """packet versions the source currently accepts"""
        if self.ver == 0:
            return [4, 3]
        if self.ver >= 100:
            return [4]
        return [5]

    def timer(self, dt, desired):
        self.now += dt
        if self.reach == 0 and self.tries >= 3:
            return "reset"
        if self.ver == 1 and self.reach % 4 == 0:
            self.ver = 0
        self.reach = (self.reach * 2) % 256
        self.tries += 1
        if self.nts:
            if not self.stash:
                return "reset"
            k = self.stash.pop(0)
            n = min(8 - len(self.stash), 724 // max(k[1], 1), 255)
            if n == 0:
                return "reset"
        self.pending = True
        self.deadline = self.now + 5000
        self.last_poll = max(desired, self.rmin)
        self.nsent += 1
        return "send"

    def accept(self, dt, ver, upgrade=False, kind="answer", poll=0, cookies=()):
        """a valid response of the given kind arrives"""
        self.now += dt
        if not self.pending or self.now > self.deadline or ver not in self.expects():
            return
        if self.ver >= 100:
            t = max(0, self.ver - 100 - 1)
            self.ver = 1 if (upgrade and ver == 4) else (0 if t == 0 else 100 + t)
        elif self.ver == 1:
            self.ver = 2
        if kind == "answer":
            self.pending = False
            self.reach |= 1
            self.deny = False
            if ver == 5 and poll > self.rmin:
                self.rmin = poll
            for c in cookies:
                self.stash.append(c)
                self.stash = self.stash[-8:]
        elif kind == "rate":
            inc = min(self.rmin + 1, self.max)
            self.rmin = max(inc, self.last_poll)
        elif kind == "deny" and not self.nts:
            self.deny = True

    def idle(self, dt):
        self.now += dt


def answer_efs(sim, ver, rng, cookies=None, uid="u0", key="A0", extra_untrusted="", extra_auth=""):
    """extension fields of a well-formed answer for the source's mode"""
    items = []
    if sim.nts:
        items.append(uid)
        if ver == 5:
            items.append("d")
        if extra_auth:
            items.append(extra_auth)
        inner = ";".join("c%d.%d" % c for c in (cookies or []))
        items.append("%s[%s]" % (key, inner))
        if extra_untrusted:
            items.append(extra_untrusted)
    else:
        if ver == 5:
            items.append("d")
        if extra_untrusted:
            items.append(extra_untrusted)
    return ",".join(items) or "-"


def new_cookies(rng, n=None, length=None):
    n = rng.choice([0, 1, 1, 2, 3, 8, 9]) if n is None else n
    res = []
    for _ in range(n):
        l = length if length is not None else rng.choice([24, 28, 64, 100, 104, 200, 360, 724, 728])
        res.append((rng.randint(1, 255), l))
    return res


def random_case_header(rng, nts=None, ver=None, cfg=None):
    if nts is None:
        nts = rng.random() < 0.4
    if cfg is None:
        lo = rng.choice([0, 2, 4, 4, 4, 6, 10])
        hi = rng.choice([x for x in (4, 6, 10, 10, 10, 14, 17) if x >= lo])
        cfg = (lo, hi)
    if ver is None:
        ver = rng.choice([0, 2]) if nts else rng.choice([0, 2, 108, 108, 102, 101, 1])
    stash = []
    if nts:
        ln = rng.choice([100, 100, 104, 64, 28, 200, 360, 724, 728, 0, 1])
        stash = [(rng.randint(1, 255) if ln else 0, ln) for _ in range(rng.choice([1, 2, 3, 8, 8, 8]))]
    return {"min": cfg[0], "max": cfg[1], "nts": nts, "ver": ver, "stash": stash, "events": []}


def poll_dt(rng, poll):
    """a plausible delay until the next timer (ms): the source's timer runs about 2^poll s after the request"""
    return rng.choice([0, 1, 4999, 5000, 5001, 16500, 1000 * (1 << min(max(poll, 0), 12))])


def gen_history(rng, case, rounds, weights=None, desired_fn=None):
    """append `rounds` rounds (a timer and what comes back) to the case; returns the case.
    scenario weights: answer, silence, kiss, garbage, late, replay, unauth (nts), dup"""
    w = {"answer": 6, "silence": 2, "rate": 1, "deny": 1, "rstr": 0.5, "ntsn": 0.7, "xkiss": 0.5, "badorigin": 1,
         "oldorigin": 0.7, "wrongver": 1, "late": 1, "edge": 0.6, "replay": 1, "stratum": 1, "mode": 0.7,
         "unauth": 1.5, "baduid": 1, "badauth": 1, "planted": 1, "v5poll": 1, "dup": 0.7, "nodraft": 0.3}
    if weights:
        w.update(weights)
    names = list(w)
    sim = Sim(case)
    ev = case["events"]
    for _ in range(rounds):
        desired = desired_fn(rng, sim) if desired_fn else rng.randint(sim.min, sim.max)
        dt = poll_dt(rng, sim.last_poll) if ev else 0
        r = sim.timer(dt, desired)
        ev.append(ev_timer(dt, desired))
        if r == "reset":
            if rng.random() < 0.7:
                break
            continue
        nreplies = rng.choice([1, 1, 1, 2, 3])
        for _ in range(nreplies):
            sc = rng.choices(names, weights=[w[n] for n in names])[0]
            emit_scenario(rng, sim, ev, sc)
    return case


def emit_scenario(rng, sim, ev, sc):
    exp = sim.expects()
    ver = exp[0] if rng.random() < 0.85 else rng.choice(exp)
    dt = rng.choice([0, 1, 10, 100, 2500, 4000])
    stratum = rng.choice([1, 1, 2, 3, 15, 16])
    poll = rng.choice([sim.last_poll, sim.last_poll, 4, 6, 10, 0])
    upg = 1 if (sim.ver >= 100 and rng.random() < 0.4) else (1 if rng.random() < 0.05 else 0)
    if sc == "silence":
        return
    if sc == "answer":
        ck = new_cookies(rng) if sim.nts else []
        ev.append(ev_in(dt, ver, 4, stratum, poll, 0, None, "0", upg, answer_efs(sim, ver, rng, ck)))
        sim.accept(dt, ver, upg == 1, "answer", poll_i8(poll), ck)
    elif sc == "dup":
        ck = new_cookies(rng, 1) if sim.nts else []
        e = ev_in(dt, ver, 4, stratum, poll, 0, None, "0", upg, answer_efs(sim, ver, rng, ck))
        ev.append(e)
        sim.accept(dt, ver, upg == 1, "answer", poll_i8(poll), ck)
        ev.append(e.replace("I:%d:" % dt, "I:1:", 1))
        sim.idle(1)
    elif sc == "replay":
        ev.append(ev_replay(rng.choice([0, 1, 100])))
        sim.idle(0)
    elif sc in ("rate", "deny", "rstr", "ntsn", "xkiss"):
        authentic = rng.random() < 0.7
        if ver == 5:
            flags = 0
            p = poll
            if sc == "rate":
                p = sim.last_poll + rng.choice([1, 1, 2, 5, 100 - sim.last_poll])
                p = min(p, 126)
            elif sc in ("deny", "rstr"):
                p = 127
            elif sc == "ntsn":
                flags = 4
                p = rng.choice([poll, 127, min(sim.last_poll + 3, 126)]) if COMBO else sim.min
            kiss = 0
        else:
            flags = 0
            p = poll
            kiss = {"rate": 2, "deny": 1, "rstr": 3, "ntsn": 4, "xkiss": 5}[sc]
        if sim.nts and sc == "ntsn":
            # NAKs come without authenticator, the unique identifier in the clear
            efs = ",".join((["u0"] if rng.random() < 0.9 else ["ux"]) + (["d"] if ver == 5 else []))
        elif sim.nts and not authentic:
            efs = ",".join(["u0"] + (["d"] if ver == 5 else []))
        else:
            efs = answer_efs(sim, ver, rng, [])
        ev.append(ev_in(dt, ver, 4, 0, p, kiss, flags, "0", upg, efs))
        ok = (not sim.nts) or sc == "ntsn" or authentic
        if ok and not (sim.nts and sc == "ntsn" and not efs.startswith("u0")):
            kind = {"rate": "rate", "deny": "deny", "rstr": "deny"}.get(sc, "other")
            if ver == 5 and sc == "ntsn":
                kind = "other"
            if ver == 5 and sc == "xkiss":
                kind = "other"
            sim.accept(dt, ver, upg == 1, kind)
        else:
            sim.idle(dt)
    elif sc == "badorigin":
        ev.append(ev_in(dt, ver, 4, stratum, poll, 0, None, "x", upg, answer_efs(sim, ver, rng, new_cookies(rng, 1) if sim.nts else [])))
        sim.idle(dt)
    elif sc == "oldorigin":
        k = rng.choice(["1", "1", "2"])
        ev.append(ev_in(dt, ver, 4, stratum, poll, 0, None, k, upg,
                        answer_efs(sim, ver, rng, new_cookies(rng, 1) if sim.nts else [], uid="u" + k)))
        sim.idle(dt)
    elif sc == "wrongver":
        wv = rng.choice([v for v in (3, 4, 5) if v not in exp] or [3])
        ev.append(ev_in(dt, wv, 4, stratum, poll, 0, None, "0", upg, answer_efs(sim, wv, rng, [])))
        if wv in exp:
            sim.accept(dt, wv, upg == 1, "answer", poll_i8(poll))
        else:
            sim.idle(dt)
    elif sc == "late":
        d = max(0, sim.deadline - sim.now) + rng.choice([1, 2, 1000, 60000])
        ev.append(ev_in(d, ver, 4, stratum, poll, 0, None, "0", upg, answer_efs(sim, ver, rng, [])))
        sim.idle(d)
    elif sc == "edge":
        d = max(0, sim.deadline - sim.now)
        ck = new_cookies(rng, 1) if sim.nts else []
        ev.append(ev_in(d, ver, 4, stratum, poll, 0, None, "0", upg, answer_efs(sim, ver, rng, ck)))
        sim.accept(d, ver, upg == 1, "answer", poll_i8(poll), ck)
    elif sc == "stratum":
        s = rng.choice([0, 16, 17, 18, 255])
        ev.append(ev_in(dt, ver, 4, s, poll, 0, None, "0", upg, answer_efs(sim, ver, rng, [])))
        if s == 16:
            sim.accept(dt, ver, upg == 1, "answer", poll_i8(poll))
        elif s == 0:
            kind = "other"
            if ver == 5:
                pp = poll_i8(poll)
                kind = "deny" if pp == 127 else ("rate" if pp > sim.last_poll else "other")
            sim.accept(dt, ver, upg == 1, kind)
        else:
            sim.accept(dt, ver, upg == 1, "other")
    elif sc == "mode":
        m = rng.choice([3, 3, 1, 2, 5, 0, 6, 7])
        ev.append(ev_in(dt, ver, m, stratum, poll, 0, None, "0", upg, answer_efs(sim, ver, rng, [])))
        if ver == 5 and m != 3:
            sim.idle(dt)      # the v5 decoder rejects other modes
        else:
            sim.accept(dt, ver, upg == 1, "other")
    elif sc == "v5poll":
        p = rng.choice([sim.rmin + 1, sim.rmin + 3, 17, 20, 126, 127, 128, 200, 255, sim.rmin, sim.rmin - 1])
        ck = new_cookies(rng, 1) if sim.nts else []
        ev.append(ev_in(dt, ver, 4, stratum, p, 0, None, "0", upg, answer_efs(sim, ver, rng, ck)))
        sim.accept(dt, ver, upg == 1, "answer", poll_i8(p), ck)
    elif sc == "nodraft":
        efs = answer_efs(sim, ver, rng, []).replace(",d", "").replace("d,", "")
        if efs == "d":
            efs = "-"
        if rng.random() < 0.5:
            efs = answer_efs(sim, ver, rng, []).replace("d", "dx", 1) if ver == 5 else efs
        ev.append(ev_in(dt, ver, 4, stratum, poll, 0, None, "0", upg, efs))
        if ver == 5:
            sim.idle(dt)
        else:
            sim.accept(dt, ver, upg == 1, "answer", poll_i8(poll))
    elif sc in ("unauth", "baduid", "badauth", "planted"):
        if not sim.nts:
            # unsolicited unique identifiers / cookies / authenticators for a plain source
            efs = rng.choice(["ux", "u0", "c9.64", "ux,c9.64", "A2[]", "A0[c9.64]", "c9.28"])
            if ver == 5:
                efs = "d," + efs
            ev.append(ev_in(dt, ver, 4, stratum, poll, 0, None, "0", upg, efs))
            if "A" in efs:
                sim.idle(dt)
            else:
                sim.accept(dt, ver, upg == 1, "answer", poll_i8(poll))
            return
        d5 = ["d"] if ver == 5 else []
        ck = new_cookies(rng, rng.choice([1, 2]))
        cki = ";".join("c%d.%d" % c for c in ck)
        ckc = ",".join("c%d.%d" % c for c in ck)
        if sc == "unauth":
            # everything a genuine answer has, except a valid authenticator
            efs = rng.choice([
                ",".join(["u0"] + d5),
                ",".join(["u0"] + d5 + [ckc]),
                ",".join(d5) or "-",
                ",".join(["ul0"] + d5),
            ])
            st, fl, pl, ks = stratum, None, poll, 0
            r = rng.random()
            if r < 0.6:
                # unauthenticated kiss codes of every kind
                st = 0
                if ver == 5:
                    fl = rng.choice([0, 4, 4, 4])
                    pl = rng.choice([127, 127, min(sim.last_poll + 2, 126), sim.last_poll, 20])
                    if fl == 4 and not COMBO:
                        pl = sim.min
                else:
                    ks = rng.choice([1, 2, 3, 4, 4, 5])
            ev.append(ev_in(dt, ver, 4, st, pl, ks, fl, "0", upg, efs))
            if st == 0 and efs.startswith("u") and ((ver == 5 and fl == 4) or (ver != 5 and ks == 4)):
                sim.accept(dt, ver, upg == 1, "other")
            else:
                sim.idle(dt)
        elif sc == "badauth":
            key, fl = rng.choice([("A1", None), ("A2", None), ("A0b", None), ("A0n", None), ("A0", 8 + (1 if ver == 5 else 0))])
            efs = ",".join(["u0"] + d5 + ["%s[%s]" % (key, cki)])
            ev.append(ev_in(dt, ver, 4, stratum, poll, 0, fl, "0", upg, efs))
            sim.idle(dt)
        elif sc == "baduid":
            choice = rng.choice(["ux", "us0", "u1", "none", "contradict_enc", "contradict_untr", "enc_only", "long", "untr_only"])
            good = False
            stored = ck
            if choice in ("ux", "us0", "u1"):
                efs = ",".join([choice] + d5 + ["A0[%s]" % cki])
            elif choice == "none":
                efs = ",".join(d5 + ["A0[%s]" % cki])
            elif choice == "contradict_enc":
                efs = ",".join(["u0"] + d5 + ["A0[ux;%s]" % cki])
            elif choice == "contradict_untr":
                efs = ",".join(["u0"] + d5 + ["A0[%s]" % cki, "ux"])
                good = True     # an untrusted contradiction is ignored on NTS sources
            elif choice == "enc_only":
                efs = ",".join(d5 + ["A0[u0;%s]" % cki])
                good = True
            elif choice == "long":
                efs = ",".join(["ul0"] + d5 + ["A0[%s]" % cki])
                good = True
            else:
                efs = ",".join(d5 + ["A0[%s]" % cki, "u0"])
            ev.append(ev_in(dt, ver, 4, stratum, poll, 0, None, "0", upg, efs))
            if good:
                sim.accept(dt, ver, upg == 1, "answer", poll_i8(poll), stored)
            else:
                sim.idle(dt)
        else:   # planted: genuine answer with extra cookies in authenticated and untrusted position
            pa = "c%d.%d" % (rng.randint(1, 255), rng.choice([28, 64]))
            pu = "c%d.%d" % (rng.randint(1, 255), rng.choice([28, 64]))
            efs = answer_efs(sim, ver, rng, ck, extra_untrusted=pu, extra_auth=pa)
            ev.append(ev_in(dt, ver, 4, stratum, poll, 0, None, "0", upg, efs))
            sim.accept(dt, ver, upg == 1, "answer", poll_i8(poll), ck)


def poll_i8(p):
    p &= 255
    return p - 256 if p > 127 else p


# --------------------------------------------------------------------------
# bookkeeping shared by the drivers
# --------------------------------------------------------------------------

def op_mix(cases):
    mix = {}
    for c in cases:
        for e in c["events"]:
            mix[e[0]] = mix.get(e[0], 0) + 1
    return mix


def outcome_classes(outs_parsed):
    cls = {"send": 0, "reset": 0, "demobilize": 0, "measure": 0, "ignored_incoming": 0, "state_change_no_action": 0,
           "decoder_rejected": 0}
    for evs, init in outs_parsed:
        prev = init
        for e in evs:
            for a in e["actions"]:
                if a.startswith("S,"):
                    cls["send"] += 1
                elif a == "R":
                    cls["reset"] += 1
                elif a == "M":
                    cls["demobilize"] += 1
                elif a.startswith("X,"):
                    cls["measure"] += 1
            if e["kind"] == "I":
                if not e["decoded"]:
                    cls["decoder_rejected"] += 1
                if not e["actions"] and e["dump"] == prev:
                    cls["ignored_incoming"] += 1
                elif not e["actions"]:
                    cls["state_change_no_action"] += 1
            if e["dump"]:
                prev = e["dump"]
    return cls


def tie_problems(case, evs):
    """problems of the harness itself (not of the property): bad specification, abstraction != decoder"""
    if evs and evs[0]["kind"] == "X":
        return "harness panicked on the case: %s" % evs[0].get("msg", "")
    for e in evs:
        if e["kind"] == "I" and e.get("chk") != 0:
            return ("the real decoder's view of a datagram differs from the harness's specification-level abstraction "
                    "(component mask %d, at t=%d)" % (e["chk"], e["now"]))
    return None


def standard_run(c, cases, monitor, nontrivial=None, shard=300):
    """run the history correspondence; returns parsed outputs per case index"""
    parsed = {}

    def mon(case, out):
        evs = parse_out(out)
        return monitor(case, evs)

    def nt(case, out):
        evs = parse_out(out)
        if nontrivial:
            return nontrivial(case, evs)
        # the sequence changed the state at least twice
        prev, changes = init_dump(case), 0
        for e in evs:
            if e["dump"] and e["dump"] != prev:
                changes += 1
                prev = e["dump"]
        return changes >= 2

    outs = vplib.correspondence(
        c, "ntp-proto", cases,
        line_of=line_of,
        coq_case_of=coq_case_of,
        preamble=PREAMBLE,
        checker=CHECKER,
        monitor=mon,
        nontrivial=nt,
        shard=shard,
        sample_of=lambda case, out: {"case": line_of(case)[:400], "implementation": " ".join(out)[:400]},
    )
    if outs is None:
        return None
    res = []
    bad = 0
    for i, case in enumerate(cases):
        o = outs.get(i)
        if o is None:
            continue
        evs = parse_out(o)
        p = tie_problems(case, evs)
        if p:
            bad += 1
            if bad <= 3:
                c.not_shown_because("correspondence %s: case %d: %s: `%s`" % (c.prop, i, p, line_of(case)[:300]))
        res.append((evs, init_dump(case)))
    return res


# --------------------------------------------------------------------------
# python evaluation of "valid answer" (for the monitors; independent of the Coq model)
# --------------------------------------------------------------------------

def expected_versions(code):
    if code == 0:
        return (3, 4)
    if code >= 100:
        return (4,)
    return (5,)


def pkt_is_ntsn(e):
    return e["stratum"] == 0 and ((e["ver"] == 5 and e["authnak"] == 1) or (e["ver"] != 5 and e["kiss"] == 4))


def pkt_is_deny(e):
    return e["stratum"] == 0 and ((e["ver"] == 5 and e["poll"] == 127) or (e["ver"] != 5 and e["kiss"] in (1, 3)))


def pkt_is_rate(e, own):
    return e["stratum"] == 0 and ((e["ver"] == 5 and e["poll"] > own and e["poll"] != 127) or (e["ver"] != 5 and e["kiss"] == 2))


def bound_answer(case, e, prev, cur):
    """the datagram decodes, answers the pending request `cur` inside its window with the expected version,
    echoes its origin and (NTS) carries its unique identifier under a valid authenticator"""
    if not e["decoded"] or prev[D_PEND] != 1 or e["now"] > prev[D_DEADLINE]:
        return False
    if e["ver"] not in expected_versions(prev[D_VER]) or e["origin"] != cur:
        return False
    if case["nts"]:
        u = e["ua"] + e["ue"]
        if not e["sealed"] or not u or any(x != cur for x in u):
            return False
    return True


def walk(case, evs):
    """yield (k, event, prev_dump, cur_request_number) over a parsed run"""
    prev = init_dump(case)
    nsent = 0
    for k, e in enumerate(evs):
        if e.get("panic") or not e["dump"]:
            return
        yield k, e, prev, nsent - 1
        if e["kind"] == "T" and sends(e):
            nsent += 1
        prev = e["dump"]
