"""C32: time arithmetic is exact, era-safe and never panics.
Model: coq/Model/TimeTypes.v, Model/FloatConv.v (dispatcher Model/TimeRun.v); theorems: coq/Props/C32.v;
tie: every operator/method of NtpTimestamp, NtpDuration, PollInterval (harness/ntp-proto/c32.rs) and of
statime_base::Timestamp/Duration (harness/statime-base/c32.rs) on raw integer / bit-pattern inputs."""
import glob
import json
import os
import struct

from tools import vplib

M64, H64 = 1 << 64, 1 << 63
M128, H128 = 1 << 128, 1 << 127
I64_MIN, I64_MAX = -H64, H64 - 1
I128_MIN, I128_MAX = -H128, H128 - 1

SCALARS = {"i8": (-128, 127), "i16": (-32768, 32767), "i32": (-2 ** 31, 2 ** 31 - 1), "i64": (I64_MIN, I64_MAX),
           "isize": (I64_MIN, I64_MAX), "u8": (0, 255), "u16": (0, 65535), "u32": (0, 2 ** 32 - 1), "u64": (0, M64 - 1)}
NTP_SCALARS = ["i8", "i16", "i32", "i64", "isize", "u8", "u16", "u32"]
PTP_SCALARS = ["i8", "i16", "i32", "i64", "u8", "u16", "u32", "u64"]

# operations that belong to the statime-base harness
PTP_OPS = set(range(50, 63))


def clamp(x, lo, hi):
    return max(lo, min(hi, x))


def tquot(a, k):
    q = abs(a) // abs(k)
    return q if (a >= 0) == (k > 0) else -q


def f64_of_bits(b):
    return struct.unpack("<d", struct.pack("<Q", b))[0]


def bits_of_f64(x):
    return struct.unpack("<Q", struct.pack("<d", x))[0]


# ---------------------------------------------------------------------------------------
# value pools
# ---------------------------------------------------------------------------------------

def signed_boundary(bits, ks):
    lo, hi = -(1 << (bits - 1)), (1 << (bits - 1)) - 1
    s = {0, lo, hi, lo + 1, hi - 1}
    for k in ks:
        for d in (-1, 0, 1):
            for sg in (1, -1):
                v = sg * (1 << k) + d
                if lo <= v <= hi:
                    s.add(v)
    return sorted(s)


def unsigned_boundary(bits, ks):
    hi = (1 << bits) - 1
    s = {0, 1, hi, hi - 1}
    for k in ks:
        for d in (-1, 0, 1):
            v = (1 << k) + d
            if 0 <= v <= hi:
                s.add(v)
    return sorted(s)


def rand_signed(rng, bits):
    k = rng.randint(0, bits - 1)
    v = rng.randrange(0, 1 << k) if k else 0
    if rng.random() < 0.1:
        v = (1 << (bits - 1)) - rng.choice([0, 1, 2]) if rng.random() < 0.5 else v
    v = -v if rng.random() < 0.5 else v
    return clamp(v, -(1 << (bits - 1)), (1 << (bits - 1)) - 1)


def rand_unsigned(rng, bits):
    c = rng.random()
    if c < 0.5:
        return rng.randrange(0, 1 << bits)
    if c < 0.75:
        return ((1 << bits) - rng.randrange(0, 1 << rng.choice([1, 8, 33, 40]))) % (1 << bits)
    return rng.randrange(0, 1 << rng.choice([1, 8, 33, 40, bits - 1]))


def scalar_pool(ty):
    lo, hi = SCALARS[ty]
    s = {0, 1, 2, 3, 7, 10, 1000000, lo, hi, lo + 1, hi - 1, -1, -2, -3, hi // 2, hi // 2 + 1}
    return sorted(v for v in s if lo <= v <= hi)


# ---------------------------------------------------------------------------------------
# the property, evaluated on one implementation run (independent of the Coq model)
# ---------------------------------------------------------------------------------------

def monitor(case, out):
    op, args = case["op"], case["args"]
    what = "%s(%s)" % (case["name"], ", ".join(str(a) for a in args) + ((" : " + case["ty"]) if case.get("ty") else ""))
    if out and out[0] == "PANIC":
        excused = (op in (16, 57) and args[1] == 0) or (op in (21, 23, 24, 25) and args[0] < 0)
        if excused:
            return None
        return ("%s panics: %s" % (what, " ".join(out[1:])[:120]), {"op": case["name"], "args": [str(a) for a in args], "ty": case.get("ty")})
    try:
        v = [int(x) for x in out]
    except ValueError:
        return ("%s: unreadable output %s" % (what, out), {"op": case["name"]})

    def bad(msg):
        return ("%s = %s: %s" % (what, " ".join(out), msg), {"op": case["name"], "args": [str(a) for a in args], "ty": case.get("ty")})

    if op in (1, 50):
        m, h = (M64, H64) if op == 1 else (M128, H128)
        r = v[0]
        if not (-h <= r < h and (r - (args[0] - args[1])) % m == 0):
            return bad("not the shortest signed difference of the two timestamps")
    elif op in (4, 53):
        m, h = (M64, H64) if op == 4 else (M128, H128)
        d, back, back2 = v
        if not (-h <= d < h and (d - (args[0] - args[1])) % m == 0):
            return bad("difference is not the shortest signed difference")
        if back != args[0] or back2 != args[1]:
            return bad("adding the difference back does not restore the timestamp")
    elif op in (10, 54, 11, 55, 15, 56):
        lo, hi = (I64_MIN, I64_MAX) if op < 50 else (I128_MIN, I128_MAX)
        exact = {10: lambda: args[0] + args[1], 54: lambda: args[0] + args[1], 11: lambda: args[0] - args[1],
                 55: lambda: args[0] - args[1], 15: lambda: args[0] * args[1], 56: lambda: args[0] * args[1]}[op]()
        if any(r != clamp(exact, lo, hi) for r in v):
            return bad("does not saturate: exact result %d, clamp %d" % (exact, clamp(exact, lo, hi)))
    elif op == 12:
        if v[0] != clamp(-args[0], I64_MIN, I64_MAX):
            return bad("negation does not saturate (expected %d)" % clamp(-args[0], I64_MIN, I64_MAX))
    elif op == 13:
        if v[0] != clamp(abs(args[0]), I64_MIN, I64_MAX):
            return bad("absolute value does not saturate (expected %d)" % clamp(abs(args[0]), I64_MIN, I64_MAX))
    elif op == 14:
        if v[0] != clamp(abs(args[0] - args[1]), I64_MIN, I64_MAX):
            return bad("absolute difference wraps (expected %d)" % clamp(abs(args[0] - args[1]), I64_MIN, I64_MAX))
    elif op in (16, 57):
        if args[1] != 0:
            lo, hi = (I64_MIN, I64_MAX) if op == 16 else (I128_MIN, I128_MAX)
            e = clamp(tquot(args[0], args[1]), lo, hi)
            if any(r != e for r in v):
                return bad("scaling down does not give the saturated quotient %d" % e)
    elif op in (24, 25):
        lim, unit = ((1 << 48), (1 << 16)) if op == 24 else ((1 << 36), (1 << 4))
        d = args[0]
        if 0 <= d < lim and not (v[1] <= d < v[1] + unit):
            return bad("encode/decode not within one unit (%d) of the wire format" % unit)
    elif op == 42:
        d, d2 = args[0], v[1]
        if not abs(d2 - d) * 10 ** 9 < abs(d) + 10 ** 9:
            what_, payload = bad("seconds round trip changes the duration by %d units (allowed: less than %.6f)"
                                 % (d2 - d, 1 + abs(d) * 1e-9))
            if -10 ** 9 < d <= -2 ** 21:
                # the class of C32_roundtrip_refuted (coq/Proofs/FloatConv.v KnownClass_C32_roundtrip)
                payload["class"] = "KnownClass_C32_roundtrip"
            return what_, payload
    elif op == 41:
        x = f64_of_bits(args[0])
        if x == x and x not in (float("inf"), float("-inf")):
            r = v[0]
            if (x > 0 and r < 0) or (x < 0 and r > 0) or (x == 0 and r != 0):
                return bad("conversion from %r seconds does not preserve the sign" % x)
            if x >= 2 ** 31 and r != I64_MAX:
                return bad("conversion from %r seconds does not saturate to i64::MAX" % x)
            if x <= -2 ** 31 and r != I64_MIN:
                return bad("conversion from %r seconds does not saturate to i64::MIN" % x)
            if -2 ** 31 < x < 2 ** 31 - 1:
                # inside the range it must not saturate: within 2 units of x * 2^32 (floor + truncation)
                from fractions import Fraction
                if abs(Fraction(r) - Fraction(x) * (1 << 32)) > 2 + abs(Fraction(x)) * 4:
                    return bad("conversion from %r seconds is not x * 2^32 within rounding" % x)
    return None


NAMES = {1: "ts-ts", 2: "ts+dur", 3: "ts-dur", 4: "ts-ts;+;-", 5: "is_before", 6: "truncated_second_bits",
         7: "from_seconds_nanos_since_ntp_era", 10: "dur+dur", 11: "dur-dur", 12: "-dur", 13: "dur.abs", 14: "abs_diff",
         15: "dur*k", 16: "dur/k", 17: "dur*ppm", 20: "from_bits_short", 21: "to_bits_short", 22: "from_bits_time32",
         23: "to_bits_time32", 24: "short_roundtrip", 25: "time32_roundtrip", 26: "as_seconds_nanos", 27: "from_exponent",
         28: "log2", 29: "from_system_duration", 30: "poll.inc", 31: "poll.dec", 32: "poll.force_inc",
         33: "poll.as_duration", 34: "poll.as_system_duration", 35: "poll.from_byte", 36: "poll.as_byte",
         40: "to_seconds", 41: "from_seconds", 42: "to_seconds;from_seconds",
         50: "ptp ts-ts", 51: "ptp ts+dur", 52: "ptp ts-dur", 53: "ptp ts-ts;+;-", 54: "ptp dur+dur", 55: "ptp dur-dur",
         56: "ptp dur*k", 57: "ptp dur/k", 58: "ptp ts from_seconds_nanos", 59: "ptp dur from_seconds_nanos",
         60: "ptp as_seconds", 61: "ptp from_f64_seconds", 62: "ptp as_seconds;from_f64_seconds"}


def mk(op, *args, ty=None):
    c = {"op": op, "args": list(args), "name": NAMES[op]}
    if ty:
        c["ty"] = ty
    return c


def line_of(case):
    return " ".join([str(case["op"])] + [str(a) for a in case["args"]] + ([case["ty"]] if case.get("ty") else []))


def coq_case(case, out):
    if out and out[0] == "PANIC":
        o = []
    else:
        o = [int(x) for x in out]
    return (vplib.coq_list([vplib.zlit(x) for x in [case["op"]] + case["args"]]),
            vplib.coq_list([vplib.zlit(x) for x in o]))


def float_patterns(rng, exps, n_random):
    """bit patterns: sign x exponent x mantissa sweep"""
    mants = [0, 1, 2, (1 << 51), (1 << 52) - 1, (1 << 52) - 2, 0x5555555555555, 0xAAAAAAAAAAAAA, (1 << 20), (1 << 32) - 1]
    pats = []
    for s in (0, 1):
        for e in exps:
            for m in mants + [rng.randrange(0, 1 << 52) for _ in range(n_random)]:
                pats.append((s << 63) | (e << 52) | m)
    return pats


def load_corpus():
    cases = []
    for f in sorted(glob.glob(os.path.join(vplib.VERIF, "corpus", "C32", "*.json"))):
        for c in json.load(open(f)):
            cases.append(mk(c["op"], *[int(a) for a in c["args"]], ty=c.get("ty")))
    return cases


def generate(c):
    rng = c.rng
    thorough = c.tier == "thorough"
    ks_q = [1, 2, 7, 8, 15, 16, 30, 31, 32, 33, 47, 48, 52, 53, 61, 62, 63]
    ks64 = list(range(0, 65)) if thorough else ks_q + [64]
    ks128 = list(range(0, 129, 8 if thorough else 16)) + [31, 33, 63, 65, 127]
    B64 = signed_boundary(64, ks64)
    U64 = unsigned_boundary(64, ks64)
    if thorough:
        # pairs over the full power-of-two grid would be ~150k per operator: cross the full set with the quick set
        B64b = signed_boundary(64, ks_q + [64])
        U64b = unsigned_boundary(64, ks_q + [64])
    else:
        B64b, U64b = B64, U64
    B128 = signed_boundary(128, ks128)
    U128 = unsigned_boundary(128, ks128)
    nrand = 8000 if thorough else 2500
    cases = load_corpus()
    dist = {"corpus": len(cases), "boundary_values_i64": len(B64), "boundary_values_u64": len(U64),
            "boundary_values_i128": len(B128)}

    # --- NTP timestamps
    for a in U64:
        for b in U64b:
            cases.append(mk(4, a, b))
    for t in U64b:
        for d in B64b:
            cases.append(mk(2, t, d))
            cases.append(mk(3, t, d))
    for _ in range(nrand):
        a, b = rand_unsigned(rng, 64), rand_unsigned(rng, 64)
        cases.append(mk(rng.choice([1, 4, 4, 5]), a, b))
        cases.append(mk(rng.choice([2, 3]), a, rand_signed(rng, 64)))
    for t in U64b[::3] + [rand_unsigned(rng, 64) for _ in range(50)]:
        for bits in (0, 1, 7, 8, 16, 30, 31, 32, 33, 255):
            cases.append(mk(6, t, bits))
    for s in (0, 1, 2 ** 31, 2 ** 32 - 1, 12345):
        for n in (0, 1, 500000000, 999999999, 10 ** 9, 2 ** 32 - 1):
            cases.append(mk(7, s, n))
    for a in U64b[::2]:
        for b in U64b[::2]:
            cases.append(mk(5, a, b))
    # --- NTP durations
    for a in B64:
        for b in B64b:
            cases.append(mk(10, a, b))
            cases.append(mk(11, a, b))
    for a in B64b:
        for b in B64b:
            cases.append(mk(14, a, b))
    for a in B64:
        cases.append(mk(12, a))
        cases.append(mk(13, a))
        for ty in NTP_SCALARS:
            for k in scalar_pool(ty):
                cases.append(mk(15, a, k, ty=ty))
                cases.append(mk(16, a, k, ty=ty))
        for ppm in (0, 1, 15, 100, 10 ** 6, 2 ** 32 - 1):
            cases.append(mk(17, a, ppm))
        cases.append(mk(26, a))
        cases.append(mk(28, a))
        cases.append(mk(21, a))
        cases.append(mk(23, a))
        cases.append(mk(24, a))
        cases.append(mk(25, a))
    for _ in range(nrand):
        a, b = rand_signed(rng, 64), rand_signed(rng, 64)
        cases.append(mk(rng.choice([10, 11, 14]), a, b))
        cases.append(mk(rng.choice([12, 13, 26, 28]), a))
        ty = rng.choice(NTP_SCALARS)
        lo, hi = SCALARS[ty]
        k = clamp(rand_signed(rng, 64), lo, hi)
        cases.append(mk(rng.choice([15, 16]), a, k, ty=ty))
        d = rng.randrange(0, 1 << rng.choice([4, 16, 17, 36, 37, 48, 49, 63]))
        cases.append(mk(rng.choice([21, 23, 24, 25]), d))
    W32 = unsigned_boundary(32, range(0, 33))
    for w in W32 + [rng.randrange(0, 1 << 32) for _ in range(200)]:
        cases.append(mk(20, w))
        cases.append(mk(22, w))
    for e in range(-128, 128):
        cases.append(mk(27, e))
        cases.append(mk(32, e))
        cases.append(mk(33, e))
        cases.append(mk(34, e))
        cases.append(mk(36, e))
        cases.append(mk(35, e + 128))
    for s in (0, 1, 2 ** 31 - 1, 2 ** 31, 2 ** 32 - 1, 2 ** 32, 2 ** 63, 2 ** 64 - 1, 86400):
        for n in (0, 1, 500000000, 999999999):
            cases.append(mk(29, s, n))
    # --- PollInterval inc/dec: exhaustive over p and a grid of limits
    lims = [-128, -127, -1, 0, 4, 10, 17, 126, 127] if thorough else [-128, 0, 4, 10, 127]
    for p in range(-128, 128):
        for lmin in lims:
            for lmax in lims:
                cases.append(mk(30, p, lmin, lmax))
                cases.append(mk(31, p, lmin, lmax))
    # --- NTP float conversions
    exps = sorted(set([0, 1, 2, 1022, 1023, 2045, 2046, 2047] + list(range(1023 - 36, 1023 + 36)) +
                      [1023 + 52, 1023 + 53, 1023 + 62, 1023 + 63, 1023 + 64, 1023 - 64, 1023 - 1000]))
    for b in float_patterns(rng, exps, 6 if thorough else 2):
        cases.append(mk(41, b))
    for x in (0.0, -0.0, 1.0, -1.0, 0.5, -0.5, 1.5, 2.0 ** 31, -(2.0 ** 31), 2.0 ** 31 - 1, 2.0 ** 31 - 0.5,
              -(2.0 ** 31) - 1, -(2.0 ** 31) + 0.5, 1e-10, -1e-10, 1e-300, -1e-300, 1e40, -1e40, 0.1, -0.1, 16.0, 1e9, -1e9):
        cases.append(mk(41, bits_of_f64(x)))
    for _ in range(nrand):
        x = rng.uniform(-1, 1) * 2.0 ** rng.randint(-40, 33)
        cases.append(mk(41, bits_of_f64(x)))
    for d in B64 + list(range(-3000, 3000, 7 if not thorough else 1)):
        cases.append(mk(42, d))
        cases.append(mk(40, d))
    for _ in range(nrand * 2):
        cases.append(mk(42, rand_signed(rng, 64)))
    # the neighbourhood of the known-finding class (-10^9, -2^21]: inside (about 4% of the values fail), and
    # the same magnitudes outside it (positive values, and negative values on both sides of the class limits)
    for _ in range(nrand):
        cases.append(mk(42, -rng.randrange(2 ** 21, 10 ** 9)))
        cases.append(mk(42, rng.randrange(0, 3 * 10 ** 9)))
        cases.append(mk(42, -rng.randrange(0, 2 ** 21)))
        cases.append(mk(42, -rng.randrange(10 ** 9, 2 ** 34)))
    for d in (-2100223, -2100222, -2097152, -2097151, -999999999, -10 ** 9, -10 ** 9 - 1, -999996415):
        cases.append(mk(42, d))
    n_ntp = len(cases)

    # --- PTP
    for a in U128:
        for b in U128:
            cases.append(mk(53, a, b))
    for t in U128:
        for d in B128:
            cases.append(mk(51, t, d))
            cases.append(mk(52, t, d))
    for a in B128:
        for b in B128:
            cases.append(mk(54, a, b))
            cases.append(mk(55, a, b))
        for ty in PTP_SCALARS:
            for k in scalar_pool(ty):
                cases.append(mk(56, a, k, ty=ty))
                cases.append(mk(57, a, k, ty=ty))
        cases.append(mk(60, a))
        cases.append(mk(62, a))
    for _ in range(nrand):
        a, b = rand_unsigned(rng, 128), rand_unsigned(rng, 128)
        cases.append(mk(rng.choice([50, 53]), a, b))
        cases.append(mk(rng.choice([51, 52]), a, rand_signed(rng, 128)))
        x, y = rand_signed(rng, 128), rand_signed(rng, 128)
        cases.append(mk(rng.choice([54, 55]), x, y))
        ty = rng.choice(PTP_SCALARS)
        lo, hi = SCALARS[ty]
        cases.append(mk(rng.choice([56, 57]), x, clamp(rand_signed(rng, 64) if ty != "u64" else rand_unsigned(rng, 64), lo, hi), ty=ty))
        cases.append(mk(62, x))
    for s in (0, 1, 2 ** 32, 2 ** 63, 2 ** 64 - 1):
        for n in (0, 1, 250000000, 999999999, 10 ** 9, 2 ** 32 - 1):
            cases.append(mk(58, s, n))
    for s in (0, 1, -1, -5, 2 ** 63 - 1, -2 ** 63):
        for n in (0, 1, 500000000, 999999999, 2 ** 32 - 1):
            cases.append(mk(59, s, n))
    pexps = sorted(set([0, 1, 1023, 2046, 2047] + list(range(1023 - 70, 1023 + 70, 3)) + [1023 + 61, 1023 + 62, 1023 + 63, 1023 + 64, 1023 - 64, 1023 - 65]))
    for b in float_patterns(rng, pexps, 2):
        cases.append(mk(61, b))
    if not thorough and not os.environ.get("VERIF_C32_LIGHT"):
        # quick tier: the corpus and every 3rd case of the grid below (the thorough tier runs the whole grid on
        # larger boundary sets); 3 is coprime with the periods of the generator loops, so every operation,
        # scalar type and boundary value stays represented
        nc = dist["corpus"]
        cases = cases[:nc] + cases[nc::3]
        n_ntp = sum(1 for x in cases if x["op"] not in PTP_OPS)
        dist["quick_stride"] = 3
    if os.environ.get("VERIF_C32_LIGHT"):
        # reduced run for mutation tests on an overloaded machine: the corpus and every 7th generated case
        nc = dist["corpus"]
        cases = cases[:nc] + cases[nc::7]   # 7: coprime with the periods of the generator loops
        n_ntp = sum(1 for x in cases if x["op"] not in PTP_OPS)
        dist["light"] = True
    dist["ntp_cases"] = n_ntp
    dist["ptp_cases"] = len(cases) - n_ntp
    per_op = {}
    for x in cases:
        per_op[x["name"]] = per_op.get(x["name"], 0) + 1
    dist["per_operation"] = per_op
    return cases, dist


def main():
    c = vplib.Check("C32")
    c.run_gate()
    cases, dist = generate(c)
    ntp = [x for x in cases if x["op"] not in PTP_OPS]
    ptp = [x for x in cases if x["op"] in PTP_OPS]
    c.cov["rule"] = ("every operator and method of NtpTimestamp/NtpDuration/PollInterval and of statime-base Timestamp/Duration on: "
                     "the cross product of the boundary sets {0, MIN, MAX, +-2^k + {-1,0,1}} (timestamps x timestamps, durations x "
                     "durations, durations x every scalar type's boundary values), PollInterval inc/dec exhaustively over all 256 "
                     "values x a grid of limit pairs, random values of every magnitude class, float conversions on a sign x exponent x "
                     "mantissa sweep of bit patterns and on boundary/small/random durations, with a dense stream around the known-finding "
                     "class of the seconds round trip. The quick tier runs the corpus and every 3rd case of this grid, the thorough "
                     "tier the whole grid on all powers of two. non-trivial = some argument non-zero")
    c.cov["exhaustive"] = False

    def nontrivial(case, out):
        return any(a != 0 for a in case["args"])

    common = dict(line_of=line_of, coq_case_of=coq_case,
                  preamble="From V Require Import Model.TimeRun.\n",
                  checker="mismatches zlist_eqb run_time", monitor=monitor, nontrivial=nontrivial, shard=2500,
                  sample_of=lambda case, out: {"operation": case["name"], "args": [str(a) for a in case["args"]],
                                               "scalar_type": case.get("ty"), "implementation": " ".join(out)[:160]})
    outs1 = vplib.correspondence(c, "ntp-proto", ntp, corr_name="correspondence C32 model <-> ntp-proto harness", **common)
    mm1, mc1 = c.cov.get("model_mismatches", 0), c.cov.get("model_cases", 0)
    outs2 = vplib.correspondence(c, "statime-base", ptp, corr_name="correspondence C32 model <-> statime-base harness", **common)
    c.cov["model_mismatches"] = mm1 + c.cov.get("model_mismatches", 0)
    c.cov["model_cases"] = mc1 + c.cov.get("model_cases", 0)
    # measured outcome classes
    sat = exact = panics = 0
    for group, outs in ((ntp, outs1), (ptp, outs2)):
        if not outs:
            continue
        for i, case in enumerate(group):
            o = outs.get(i)
            if not o:
                continue
            if o[0] == "PANIC":
                panics += 1
            elif case["op"] in (10, 11, 12, 13, 14, 15, 16, 54, 55, 56, 57):
                if o[0] in (str(I64_MIN), str(I64_MAX), str(I128_MIN), str(I128_MAX)):
                    sat += 1
                else:
                    exact += 1
    dist["duration_ops_saturated"] = sat
    dist["duration_ops_exact"] = exact
    dist["implementation_panics(all excused: /0 or negative wire encode)"] = panics
    c.cov["distribution"] = dist
    c.assumptions += [
        "hand-written model of the time types (coq/Model/TimeTypes.v, FloatConv.v), release semantics (no overflow checks, "
        "debug_assert inactive); tied to the code by the correspondence above on every run",
        "the model is that of the repaired code (branch fix-c32); on the unrepaired tree the check reports i64::MIN inputs",
        "float conversions: binary64 model on Coq's SpecFloat operations (no axioms), bit-exact against the code; sign and "
        "saturation of from_seconds are theorems on that model for all doubles; the 1e-9 round-trip bound is a theorem only "
        "for exact arithmetic and is evaluated by the monitor on every round-trip case",
        "reading: division by the scalar zero (panics, as in statime-base's saturating_div) is outside 'scaling never panics'; "
        "to_bits_short/to_bits_time32 assert!(d >= 0) is outside by the statement's 'non-negative durations'",
    ]
    return c.finish()


MANIFEST = {
    "claimed": True,
    "text": "Theorems (Coq, closed under the global context, all inputs): timestamp subtraction is the unique shortest signed "
            "representative of a-b mod 2^64 and era-safe on unbounded true instants (C32_sub_shortest, C32_sub_era); adding it back "
            "restores either timestamp (C32_add_back, C32_add_then_sub); duration +, -, * scalar equal the clamp of the exact result "
            "and never change sign (C32_dur_saturating); negation, abs, abs_diff saturate (C32_neg_abs, C32_abs_diff, repaired "
            "code; C32_unrepaired_refuted exhibits i64::MIN for the old code); division saturates and panics exactly for the scalar "
            "0 (C32_div); short/time32 wire formats round-trip within one format unit for non-negative in-range durations, saturate "
            "above, decode-encode is the identity, the only panic is the negative-duration assertion (C32_short_time32); "
            "PollInterval inc/dec/force_inc/as_duration stay in range (C32_poll); the same wrapping/saturating laws for the 128-bit "
            "PTP types incl. saturating_div (C32_ptp). On the bit-exact binary64 model, for every 64-bit pattern: from_seconds "
            "saturates to i64::MAX/MIN for |x| >= 2^31 s and +-inf (C32_from_seconds_saturates) and preserves the sign of every "
            "finite double, never leaving the i64 range (C32_from_seconds_sign). REFUTED / KNOWN FINDING: the seconds round-trip "
            "bound (< 1e-9 |d| + 1 unit) is false for the code: d = -2100223 comes back as d - 2 (C32_roundtrip_refuted, "
            "witness evaluated on the bit-exact model and replayed on the implementation every run); all failing durations "
            "found lie in KnownClass_C32_roundtrip = (-10^9, -2^21] units. PARTIAL: outside that class the bound is proved only "
            "for the exact-arithmetic version of to_seconds;from_seconds (C32_roundtrip_partial); for the binary64 model it is "
            "monitored at run time on the swept durations (a failure outside the class is a VIOLATION).",
    "note": "Trusted: Coq kernel+vm_compute; hand-written models coq/Model/TimeTypes.v, FloatConv.v (binary64 via Coq's SpecFloat "
            "functions, no axioms), TimeRun.v; harnesses in ntp-proto and statime-base + python driver; release semantics of the "
            "harness build. Requires the fix branch fix-c32 (saturating neg/abs/div, PollInterval inc/dec); on the tree without it "
            "the check reports VIOLATION with -NtpDuration(i64::MIN) etc. Division by zero is excluded (reading). Print "
            "Assumptions: closed under the global context for the integer theorems; C32_from_seconds_saturates/_sign use Flocq "
            "(rounding monotonicity, exactness of integer conversion) and so the standard-library axioms of the classical reals "
            "(classic, sig_forall_dec, sig_not_dec, functional_extensionality_dep).",
    "design_ref": "DESIGN.md 3 C32",
}
