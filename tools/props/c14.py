"""C14: building a poll request never fails.
Model: coq/Model/Source.v (step_timer, request_size); theorems: coq/Props/C14.v; tie: one handle_timer of the real
NtpSource per grid point through harness/ntp-proto/s2_source.rs (run_c14, c14.rs) -- exhaustive on every run."""
from tools import vplib


def monitor(case, out):
    nts, ver, clen, fill = case
    if out[0] == "PANIC" or out[0] == "2":
        return ("building the poll request panics: nts=%d version-state=%d cookie length %d, %d cookies in the stash"
                % (nts, ver, clen, fill), {"nts": nts, "ver": ver, "cookie_len": clen, "fill": fill})
    if out[0] == "0" and int(out[1]) > 1024:
        return ("poll request of %d bytes exceeds the 1024-byte send buffer" % int(out[1]),
                {"nts": nts, "ver": ver, "cookie_len": clen, "fill": fill})
    if out[0] == "3":
        return ("handle_timer of a fresh source yields neither a request nor a reset", {"nts": nts, "ver": ver, "cookie_len": clen, "fill": fill})
    return None


def build_cases(c):
    cases = []
    for ver in (0, 2):
        for fill in range(1, 9):
            for clen in range(0, 1101):
                cases.append((1, ver, clen, fill))
    # odd but constructible: NTS data with the automatic / upgraded version states; far oversize cookies
    for ver in (108, 1):
        for fill in (1, 8):
            for clen in list(range(0, 1101, 7)) + [2048, 65531, 65532, 70000]:
                cases.append((1, ver, clen, fill))
    for ver in (0, 2):
        for clen in (2048, 4096, 65531, 65532, 65536, 70000):
            cases.append((1, ver, clen, 2))
    for ver in (0, 2, 108, 1):
        cases.append((0, ver, 0, 0))
    return cases


def main():
    c = vplib.Check("C14")
    c.run_gate()
    cases = build_cases(c)
    longest = {"len": 0}

    def coq_case(case, out):
        if out[0] == "PANIC":
            o = "(2%Z, 0%Z)"
        else:
            o = "(%s, %s)" % (vplib.zlit(int(out[0])), vplib.zlit(int(out[1])))
            if out[0] == "0":
                longest["len"] = max(longest["len"], int(out[1]))
        return "(%s, %s, %s, %s)" % tuple(vplib.zlit(x) for x in case), o

    outs = vplib.correspondence(
        c, "ntp-proto", cases,
        line_of=lambda case: " ".join(map(str, case)),
        coq_case_of=coq_case,
        preamble="From V Require Import Model.Source.\n",
        checker="mismatches pair_eqb c14_case",
        monitor=monitor,
        nontrivial=lambda case, out: True,
        shard=1500,
        sample_of=lambda case, out: {"nts": case[0], "version_state": case[1], "cookie_len": case[2], "stash_fill": case[3],
                                     "outcome": out[0], "request_len": out[1] if len(out) > 1 else None},
    )
    c.cov["rule"] = ("exhaustive grid on every run: NTS sources in version states V4 and V5 x cookie lengths 0..1100 x stash fill 1..8 "
                     "(17616 points), plus NTS with the upgrading/upgraded states, cookies up to 70000 bytes and the four plain modes: "
                     "outcome (request / reset / panic) and exact request length against the model's closed size formula")
    c.cov["exhaustive"] = True
    if outs is not None:
        oc = {}
        for o in outs.values():
            oc[o[0]] = oc.get(o[0], 0) + 1
        c.cov["distribution"] = {"cases": len(cases), "outcomes(0 request,1 reset,2 panic)": oc, "longest_request": longest["len"]}
    c.assumptions += [
        "AES-SIV authenticator over an empty plaintext: 16-byte nonce and 16-byte tag (the ciphers of the code base)",
        "other panic sites on the path are not reachable from the source's inputs: RemoteBloomFilter::next_request's expect "
        "(chunk size 16 is fixed), ReferenceIdRequest::serialize's assert (payload 16), lock poisoning unwraps",
        "stash contents abstracted to a list of at most MAX_COOKIES cookies (CookieStash invariant, C13)",
    ]
    return c.finish()


MANIFEST = {
    "claimed": True,
    "text": "Theorems (Coq, model of handle_timer and of the size of the serialised request; all states, configurations, cookie lengths "
            ">= 0, stash fills <= 8, all four version states, NTS or not): handle_timer never reaches the `expect` on serialize -- it "
            "returns a request, Reset or Demobilize (C14_total), also along every history in which cookies of arbitrary length arrive "
            "(C14_run_total); every request sent fits the 1024-byte buffer (C14_fits, C14_run_fits); the request length equals a "
            "closed formula and is at most 952 bytes for every cookie length and placeholder count the margin computation admits "
            "(C14_size_formula, C14_size_bound). Tied to the real poll builder and encoder by an exhaustive grid on every run "
            "(cookie length 0..1100 x fill 1..8 x {V4,V5} NTS, plus plain modes and oversize cookies): outcome and exact length.",
    "note": "Trusted: Coq kernel+vm_compute; hand-written model incl. the size formula (48 + uid 36 + n*pad4(max(16,len+4)) + NTS field "
            "40, + draft id 28 + reference-id request 20 for NTPv5), checked point by point against the real encoder; the panic-site "
            "census of handle_timer (one expect on serialize; constants translator counts it); nonce/tag sizes of AES-SIV. "
            "Print Assumptions: closed under the global context.",
    "design_ref": "DESIGN.md 3 C14",
}
