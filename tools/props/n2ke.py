"""Shared by c28.py and c29.py: case builders, harness lines, Coq terms and output parsing for the
NTS-KE connection harness (harness/ntp-proto/ntske_common.rs) and the model coq/Model/NtsKe.v."""
from tools import vplib
from tools.props import c30 as g

PREAMBLE = ("From Coq Require Import String.\nFrom V Require Import Base.NtsHex Model.NtsKe.\n"
            "Open Scope string_scope.\nNotation hw := (flat_map hex_ints).\n")
CHECKER = "mismatches zlist_eqb run_ke"
TABLE_KEYS = [(0, 15), (0, 17), (0x8001, 15), (0x8001, 17)]
TOKENS = ["hi", "pool-token-123", "", "tökén", "HI", "h"]


def hx(s):
    return s.encode().hex() if isinstance(s, str) else bytes(s).hex()


# ------------------------------------------------------------------ request builders (bytes)
def req_ke(protos, algs, denied=()):
    return g.rec(1, g.u16list(protos)) + g.rec(4, g.u16list(algs)) + b"".join(g.rec(13, d) for d in denied) + g.rec(0, b"")


def req_fixed(auth, alg=15, proto=0, ka=False, keylen=None, rng=None):
    k = {15: 32, 17: 64}.get(alg, 32) if keylen is None else keylen
    keys = bytes((7 * i + 3) % 256 for i in range(2 * k)) if rng is None else g.rand_bytes(rng, 2 * k)
    return (g.rec(14, auth) + g.rec(12, keys) + g.rec(1, g.u16list([proto])) + g.rec(4, g.u16list([alg]))
            + (g.rec(8, b"") if ka else b"") + g.rec(0, b""))


def req_support(auth, wp=True, wa=True, ka=False):
    return (g.rec(14, auth) + (g.rec(9, b"") if wp else b"") + (g.rec(10, b"") if wa else b"")
            + (g.rec(8, b"") if ka else b"") + g.rec(0, b""))


def srv_case(versions, tokens, stream, permit, server=None, port=None, meta=None):
    return {"k": "srv", "versions": versions, "tokens": [hx(t) for t in tokens], "server": None if server is None else hx(server),
            "port": port, "permit": int(permit), "stream": bytes(stream).hex(), "meta": meta or {}}


def cli_case(protos, algs, denied, resp, meta=None):
    return {"k": "cli", "protos": list(protos), "algs": list(algs), "denied": [hx(d) for d in denied],
            "resp": bytes(resp).hex(), "meta": meta or {}}


# ------------------------------------------------------------------ harness lines
def hexlist(l):
    return ",".join(x if x else "e" for x in l) if l else "-"


def line_of(case):
    if case["k"] == "srv":
        return "srv %s %s %s %s %d %s" % (case["versions"] or "-", hexlist(case["tokens"]), case["server"] or "-",
                                          "-" if case["port"] is None else case["port"], case["permit"], case["stream"] or "-")
    if case["k"] == "cli":
        return "cli %s %s %s %s" % (",".join(map(str, case["protos"])) or "-", ",".join(map(str, case["algs"])) or "-",
                                    hexlist(case["denied"]), case["resp"] or "-")
    return "newcli %s" % case["v"]


# ------------------------------------------------------------------ Coq terms
def cstr(h):
    return '"%s"' % h


def chunks(h, n=6000):
    return vplib.coq_list([cstr(h[i:i + n]) for i in range(0, len(h), n)])


def copt(v, f):
    return "None" if v is None else "(Some %s)" % f(v)


def split_out(case, out):
    """(table tokens, ints) of an implementation output line"""
    if case["k"] == "newcli":
        return [], [int(x) for x in out]
    return out[:8], [int(x) for x in out[8:]]


def coq_case_of(case, out):
    bad = out and out[0] in ("PANIC", "TIMEOUT")
    if case["k"] == "newcli":
        inp = "(NewCliCase %d)" % {"V4": 4, "V5": 5}.get(case["v"], 0)
        return inp, ("[99999]" if bad else g.hexints([int(x) for x in out]))
    tbl = vplib.coq_list([cstr(x) for x in (out[:8] if not bad else [])])
    exp = "[99999]" if bad else g.hexints([int(x) for x in out[8:]])
    if case["k"] == "srv":
        inp = "(SrvCase %s %s %s %s %s %s %s)" % (
            vplib.coq_list([c for c in case["versions"] if c.isdigit()]), vplib.coq_list([cstr(t) for t in case["tokens"]]),
            copt(case["server"], cstr), copt(case["port"], lambda v: "%d" % v), vplib.blit(case["permit"]), tbl, chunks(case["stream"]))
    else:
        inp = "(CliCase %s %s %s %s %s)" % (
            vplib.coq_list(map(str, case["protos"])), vplib.coq_list(map(str, case["algs"])),
            vplib.coq_list([cstr(d) for d in case["denied"]]), tbl, chunks(case["resp"]))
    return inp, exp


# ------------------------------------------------------------------ reading a server-case output
def parse_items(ints):
    """[(kind, ...)] from the item encoding of the harness: ('rec', type16, body) | ('cookie', alg, c2s, s2c) |
    ('badcookie', bytes) | ('junk', bytes)"""
    items, i = [], 0
    while i < len(ints):
        t = ints[i]
        if t == 70000:
            a = ints[i + 1]
            n = ints[i + 2]
            c2s = ints[i + 3:i + 3 + n]
            m = ints[i + 3 + n]
            s2c = ints[i + 4 + n:i + 4 + n + m]
            items.append(("cookie", a, bytes(c2s), bytes(s2c)))
            i += 4 + n + m
        elif t in (70001, 70002):
            n = ints[i + 1]
            items.append(("badcookie" if t == 70001 else "junk", bytes(ints[i + 2:i + 2 + n])))
            i += 2 + n
        else:
            n = ints[i + 1]
            items.append(("rec", t, bytes(ints[i + 2:i + 2 + n])))
            i += 2 + n
    return items


def messages(items):
    """split the received items into messages at the end-of-message records"""
    msgs, cur = [], []
    for it in items:
        cur.append(it)
        if it[0] == "rec" and it[1] & 0x7FFF == 0:
            msgs.append(cur)
            cur = []
    if cur:
        msgs.append(cur)
    return msgs


def is_bad_request(msg):
    return (len(msg) == 2 and msg[0][0] == "rec" and msg[0][1] & 0x7FFF == 2 and msg[0][2] == b"\x00\x01"
            and msg[1][0] == "rec" and msg[1][1] & 0x7FFF == 0)


def has_cookie(msg):
    return any(it[0] in ("cookie", "badcookie") or (it[0] == "rec" and it[1] & 0x7FFF == 5) for it in msg)


def has_keep_alive(msg):
    return any(it[0] == "rec" and it[1] & 0x7FFF == 8 for it in msg)


def table(tokens):
    return {TABLE_KEYS[i]: (bytes.fromhex(tokens[2 * i]), bytes.fromhex(tokens[2 * i + 1])) for i in range(4)}


def server_protocols(versions):
    return [{"4": 0, "5": 0x8001}[c] for c in versions if c in "45"]
