"""C27: the key file.  Model: coq/Model/KeyFile.v (store, load, start); theorems: coq/Props/C27.v;
tie: KeySetProvider::{load, store} through harness/ntp-proto/c27.rs (every prefix of stored images,
header-field and byte corruption, garbage; whatever loads is used to issue and decode a cookie) and
nts_key_provider::spawn on prepared paths through harness/ntpd/c27.rs (restore / fallback to fresh
keys / mode bits of a newly created file).

The model is the repaired load (branch fix-c27).  On a tree without the repair the implementation
differs from the model and the monitor reports the concrete file."""
from tools import vplib

M32 = 1 << 32


def hx(b):
    return b.hex() if b else "-"


def B(b):
    return "(B %d 0x%s)" % (len(b), b.hex() if b else "0")


def Zb(b):
    return "0x%s%%Z" % b.hex() if b else "0%Z"


def rbytes(rng, n):
    return bytes(rng.getrandbits(8) for _ in range(n))


def image(t, off, prim, ln, keys):
    return t.to_bytes(8, "big") + off.to_bytes(4, "big") + prim.to_bytes(4, "big") + ln.to_bytes(4, "big") + b"".join(keys)


def healthy(rng, nkeys):
    keys = [rbytes(rng, 64) for _ in range(nkeys)]
    off = rng.choice([0, 1, rng.randrange(M32), M32 - 1])
    prim = nkeys - 1 if rng.random() < 0.6 else rng.randrange(nkeys)
    t = rng.choice([0, 1_700_000_000, rng.randrange(1 << 40), (1 << 63) - 1])
    return {"t": t, "off": off, "prim": prim, "keys": keys, "img": image(t, off, prim, nkeys, keys)}


def parse_load(tok):
    if tok == "p":
        return ("panic",)
    if tok.startswith("e:"):
        return ("err", tok[2:])
    f = tok.split(":")
    keys = [] if f[4] == "-" else [bytes.fromhex(k) for k in f[4].split(",")]
    return ("ok", int(f[1]), int(f[2]), int(f[3]), keys, int(f[5]))


# ---------------------------------------------------------------- ntp-proto part

def proto_line(case):
    if case["kind"] == "S":
        return "S %d %d %s" % (case["off"], case["prim"], ",".join(k.hex() for k in case["keys"]) or "-")
    return "L %s %s" % (hx(case["file"]), ",".join(map(str, case["lens"])))


def proto_monitor(case, out):
    if case["kind"] == "S":
        return None
    if out and out[0] == "PANIC":
        return ("the load harness itself panicked", {"file": hx(case["file"])})
    h = case.get("healthy")
    for n, tok in zip(case["lens"], out):
        r = parse_load(tok)
        where = {"file_hex": hx(case["file"][:n]), "file_len": min(n, len(case["file"])), "what": case.get("what", "")}
        if r[0] == "panic":
            return ("KeySetProvider::load panics on a %d-byte key file (the release daemon aborts on panic): %s"
                    % (where["file_len"], case.get("what", "")), where)
        if r[0] == "ok" and r[5] != 1:
            return ("a %d-byte key file loads (%d keys, primary %d) but %s"
                    % (where["file_len"], len(r[4]), r[3],
                       "issuing a cookie with the loaded key set panics" if r[5] == 0 else "its cookies do not decode back"), where)
        if h is not None:
            full = len(h["img"])
            if n < full and r[0] == "ok":
                return ("a proper prefix (%d of %d bytes) of a stored key file loads as a key set" % (n, full), where)
            if n >= full:
                if r[0] != "ok" or (r[1], r[2], r[3], r[4]) != (h["t"], h["off"], h["prim"], h["keys"]):
                    if h["t"] < (1 << 63):
                        return ("a stored key file is not restored exactly", where)
    return None


def proto_coq(case, out):
    if case["kind"] == "S":
        if not out or out[0] == "PANIC":
            return None
        b = bytes.fromhex(out[0]) if out[0] != "-" else b""
        t = int.from_bytes(b[:8], "big")
        ks = "{| keys := %s; id_offset := %d; primary := %d |}" % (
            vplib.coq_list([B(k) for k in case["keys"]]) if case["keys"] else "[]", case["off"], case["prim"])
        return "(CStore %s %d)" % (ks, t), "[[%d%%Z; %s]]" % (len(b), Zb(b))
    exp = []
    if len(out) != len(case["lens"]):
        exp = ["[(-99)%Z]"]
    else:
        for tok in out:
            r = parse_load(tok)
            if r[0] == "panic":
                exp.append("[(-2)%Z; 1%Z]")
            elif r[0] == "err":
                exp.append("[1%%Z; %d%%Z; 1%%Z]" % {"eof": 1, "other": 2}.get(r[1], 9))
            else:
                exp.append(vplib.coq_list(["0%Z"] + ["%d%%Z" % x for x in (r[1], r[2], r[3], len(r[4]))] + [Zb(k) for k in r[4]] + ["%d%%Z" % r[5]]))
    return "(CLoad %s %s)" % (B(case["file"]), vplib.coq_list(["%d%%nat" % n for n in case["lens"]])), vplib.coq_list(exp)


def proto_cases(rng, quick):
    cases = []
    # corpus: the witnesses of the two confirmed defects (DESIGN.md section 4 row 5, and the time field)
    cases.append({"kind": "L", "file": bytes(20), "lens": [20], "what": "20-byte file with len = 0, primary = 0"})
    k = rbytes(rng, 64)
    cases.append({"kind": "L", "file": image(5, 0, 2, 2, [k, k]), "lens": [148], "what": "primary = len = 2"})
    cases.append({"kind": "L", "file": image(1 << 63, 0, 0, 1, [k]), "lens": [84], "what": "time field 2^63"})
    cases.append({"kind": "L", "file": image((1 << 64) - 1, 0, 0, 1, [k]), "lens": [84], "what": "time field 2^64-1"})
    # every prefix of healthy images, and the image followed by trailing bytes
    for nk in ([1, 2, 3] if quick else [1, 2, 3, 4, 5, 8, 12]):
        for _ in range(1 if quick else 2):
            h = healthy(rng, nk)
            tail = rbytes(rng, rng.choice([0, 1, 7, 64]))
            f = h["img"] + tail
            cases.append({"kind": "L", "file": f, "lens": list(range(0, len(f) + 1)), "healthy": h, "what": "prefix of a stored file"})
    # single-field corruption of the header
    for _ in range(3 if quick else 25):
        nk = rng.randint(1, 5)
        h = healthy(rng, nk)
        for prim in sorted({0, 1, nk - 1, nk, nk + 1, M32 - 1, rng.randrange(M32)}):
            f = image(h["t"], h["off"], prim, nk, h["keys"])
            cases.append({"kind": "L", "file": f, "lens": [len(f)], "what": "primary field = %d with %d keys" % (prim, nk)})
        for ln in sorted({0, 1, max(nk - 1, 0), nk, nk + 1, M32 - 1, rng.randrange(M32)}):
            f = image(h["t"], h["off"], h["prim"], ln, h["keys"])
            cases.append({"kind": "L", "file": f, "lens": sorted({20, len(f), max(20, len(f) - 64)}), "what": "len field = %d with %d keys present" % (ln, nk)})
        for t in (0, (1 << 63) - 1, 1 << 63, (1 << 63) + 1, (1 << 64) - 1, rng.randrange(1 << 64)):
            f = image(t, h["off"], h["prim"], nk, h["keys"])
            cases.append({"kind": "L", "file": f, "lens": [len(f)], "what": "time field = %d" % t})
        for off in (0, M32 - 1, rng.randrange(M32)):
            f = image(h["t"], off, h["prim"], nk, h["keys"])
            cases.append({"kind": "L", "file": f, "lens": [len(f)], "what": "id_offset field"})
    # random byte corruption anywhere
    for _ in range(60 if quick else 1500):
        h = healthy(rng, rng.randint(1, 4))
        f = bytearray(h["img"])
        for _ in range(rng.randint(1, 3)):
            p = rng.randrange(len(f)) if rng.random() < 0.5 else rng.randrange(20)
            f[p] ^= 1 << rng.randrange(8)
        cut = len(f) if rng.random() < 0.7 else rng.randrange(len(f) + 1)
        cases.append({"kind": "L", "file": bytes(f), "lens": [cut], "what": "bit flips"})
    # garbage
    for _ in range(40 if quick else 600):
        n = rng.choice([0, 1, 19, 20, 21, 83, 84, 85, rng.randrange(300)])
        f = bytearray(rbytes(rng, n))
        if n >= 20 and rng.random() < 0.7:
            f[12:16] = rng.randrange(4).to_bytes(4, "big")
            f[16:20] = rng.randrange(5).to_bytes(4, "big")
            if rng.random() < 0.8:
                f[0] &= 0x7f
        cases.append({"kind": "L", "file": bytes(f), "lens": [n], "what": "random bytes"})
    # store
    for _ in range(10 if quick else 100):
        nk = rng.randint(0, 6)
        keys = [rbytes(rng, 64) for _ in range(nk)]
        cases.append({"kind": "S", "off": rng.choice([0, M32 - 1, rng.randrange(M32)]),
                      "prim": rng.choice([0, max(nk - 1, 0), rng.randrange(M32)]), "keys": keys})
    return cases


# ---------------------------------------------------------------- ntpd part

def spawn_line(case):
    return "%d %s %s" % (case["h"], case["spec"] if case["spec"] in ("none", "nodir") else hx(case["file"]), case["flag"])


def parse_spawn(out):
    mode, off, prim, keys, summary = out[0], out[1], out[2], out[3], out[4]
    ks = [] if keys == "-" else [bytes.fromhex(k) for k in keys.split(",")]
    return mode, off, prim, ks, summary


def spawn_monitor(case, out):
    if not out or out[0] == "PANIC":
        return ("the key provider panics at start: %s" % " ".join(out[:2]), {"file_hex": hx(case.get("file", b"")), "spec": case["spec"]})
    mode, off, prim, ks, summary = parse_spawn(out)
    where = {"file_hex": hx(case.get("file", b"")), "spec": case["spec"], "output": " ".join(out)[:600]}
    if case["spec"] == "nodir":
        return None if summary == "1:0:0" else ("without a usable storage path the daemon does not run on one fresh key", where)
    if mode in ("nofile",) or off == "short":
        return ("the key file was not written by the first store", where)
    if case["spec"] == "none" and mode != "600":
        return ("a newly created key file has mode %s, not 600" % mode, where)
    st = (int(off), int(prim), ks)
    if summary != "%d:%d:%d" % (len(ks), st[0], st[1]):
        return ("the published key set (%s) is not the stored one" % summary, where)
    fresh = st[0] == 0 and st[1] == 0 and len(ks) == 1
    h = case.get("healthy")
    if h is not None:
        exact = st == (h["off"], h["prim"], h["keys"])
        if case["complete"] and not exact:
            return ("a complete stored key file is not restored on start", where)
        if not case["complete"] and not (exact or fresh):
            return ("after a partial write the daemon starts with neither the stored key set nor fresh keys", where)
    if not (0 <= st[1] < len(ks)):
        return ("the daemon runs with a key set whose primary index %d is outside its %d keys" % (st[1], len(ks)), where)
    return None


def spawn_coq(case, out):
    if not out or out[0] == "PANIC" or case["spec"] == "nodir":
        return None
    mode, off, prim, ks, summary = parse_spawn(out)
    if mode == "nofile" or off == "short":
        return None
    fresh = ks[0] if (int(off) == 0 and int(prim) == 0 and len(ks) == 1) else b""
    if case["spec"] == "none":
        f = "None"
    else:
        b = bytearray(case["file"])
        if case["flag"] == "T" and len(b) >= 8:
            b[0:8] = (1_700_000_000).to_bytes(8, "big")
        f = "(Some %s)" % B(bytes(b))
    exp = vplib.coq_list(["%d%%Z" % int(off), "%d%%Z" % int(prim), "%d%%Z" % len(ks)] + [Zb(k) for k in ks])
    return "(%s, %s)" % (f, B(fresh)), exp


def spawn_cases(rng, quick):
    cases = [{"h": 3, "spec": "none", "flag": "K"}, {"h": 0, "spec": "none", "flag": "K"}, {"h": 2, "spec": "nodir", "flag": "K"},
             {"h": 3, "spec": "file", "file": bytes(20), "flag": "K"},
             {"h": 3, "spec": "file", "file": bytes(20), "flag": "T"}]
    for _ in range(6 if quick else 30):
        nk = rng.randint(1, 5)
        h = healthy(rng, nk)
        cases.append({"h": rng.randint(0, 6), "spec": "file", "file": h["img"], "flag": "T", "healthy": h, "complete": True})
        cases.append({"h": rng.randint(0, 6), "spec": "file", "file": h["img"] + rbytes(rng, 5), "flag": "T", "healthy": h, "complete": True})
        for _ in range(3):
            cut = rng.choice([0, 1, 8, 19, 20, 21, len(h["img"]) - 64, len(h["img"]) - 1, rng.randrange(len(h["img"]))])
            cases.append({"h": rng.randint(0, 6), "spec": "file", "file": h["img"][:max(0, cut)], "flag": "T", "healthy": h, "complete": False})
        # corrupted header fields
        f = image(h["t"], h["off"], rng.choice([nk, nk + 1, M32 - 1]), nk, h["keys"])
        cases.append({"h": 2, "spec": "file", "file": f, "flag": "T"})
        f = image(h["t"], h["off"], h["prim"], rng.choice([0, nk + 1, M32 - 1]), h["keys"])
        cases.append({"h": 2, "spec": "file", "file": f, "flag": "T"})
        f = image(rng.choice([1 << 62, (1 << 63) - 1, 1 << 63, (1 << 64) - 1]), h["off"], h["prim"], nk, h["keys"])
        cases.append({"h": 2, "spec": "file", "file": f, "flag": "K"})
    return cases


def main():
    c = vplib.Check("C27")
    c.run_gate()
    rng = c.rng
    quick = c.tier == "quick"

    pc = proto_cases(rng, quick)
    stats = {"loads": 0, "ok": 0, "eof": 0, "other": 0, "panic": 0, "unusable": 0, "store": 0}

    def p_nontrivial(case, out):
        if case["kind"] == "S":
            stats["store"] += 1
            return True
        for tok in out:
            r = parse_load(tok)
            stats["loads"] += 1
            if r[0] == "ok":
                stats["ok"] += 1
                if r[5] != 1:
                    stats["unusable"] += 1
            elif r[0] == "panic":
                stats["panic"] += 1
            else:
                stats[r[1]] = stats.get(r[1], 0) + 1
        return len(case["file"]) >= 20

    vplib.correspondence(
        c, "ntp-proto", pc, line_of=proto_line, coq_case_of=proto_coq,
        preamble="From V Require Import Model.KeyFile.\n",
        checker="mismatches llz_eqb run_c27", monitor=proto_monitor, nontrivial=p_nontrivial, shard=40,
        corr_name="correspondence C27 model load/store <-> KeySetProvider::{load, store}",
        sample_of=lambda case, out: {"what": case.get("what", case["kind"]), "file_len": len(case.get("file", b"")),
                                     "loads": len(case.get("lens", [])), "first_results": [t[:40] for t in out[:3]], "last_result": out[-1][:60] if out else None},
    )
    sc = spawn_cases(rng, quick)
    sstats = {"restored": 0, "fresh": 0, "mode": {}}

    def s_nontrivial(case, out):
        if out and out[0] not in ("PANIC", "nofile") and len(out) >= 5:
            sstats["mode"][out[0]] = sstats["mode"].get(out[0], 0) + 1
            if out[4] == "1:0:0":
                sstats["fresh"] += 1
            else:
                sstats["restored"] += 1
        return True

    vplib.correspondence(
        c, "ntpd", sc, line_of=spawn_line, coq_case_of=spawn_coq,
        preamble="From V Require Import Model.KeyFile.\n",
        checker="mismatches lz_eqb run_start", monitor=spawn_monitor, nontrivial=s_nontrivial, shard=40,
        corr_name="correspondence C27 model start <-> nts_key_provider::spawn",
        sample_of=lambda case, out: {"spawn_case": case["spec"], "file_len": len(case.get("file", b"")), "result": " ".join(out)[:120]},
    )
    c.cov["rule"] = ("KeySetProvider::load on every prefix (exhaustive per file) of stored images of 1..12 keys with and without trailing bytes; "
                     "on every single-field corruption of the header (primary, len in {0,1,len-1,len,len+1,2^32-1,random}; time in "
                     "{0,2^63-1,2^63,2^63+1,2^64-1,random}; id_offset), random bit flips and random bytes; whatever loads is used to "
                     "issue and decode a cookie; KeySetProvider::store of literal key sets; nts_key_provider::spawn on a missing path, a "
                     "missing directory, complete, truncated and corrupted files (restore / fresh keys / mode bits / published set). "
                     "Non-trivial = the file has at least a complete header.  Exhaustive only per file (all prefixes), not over files.")
    c.cov["exhaustive"] = False
    c.cov["distribution"] = {"proto_cases": len(pc), "load_outcomes": stats, "spawn_cases": len(sc), "spawn_outcomes": sstats}
    c.assumptions += [
        "a crash during store leaves a prefix of the bytes written by the sequential write_all calls (file-system assumption); the "
        "0600 mode of a newly created file is observed on every run, not proved",
        "load's sequential read_exact loop is modelled by one length test (same outcome and error kind)",
        "SystemTime can represent exactly the u64 seconds <= i64::MAX (unix targets with 64-bit time_t)",
        "usability theorems use C26's AEAD premises aead_correct and aead_tag16",
        "in the test build a panic inside spawn_blocking is caught by tokio; the release profile has panic = abort "
        "(constant RELEASE_PANIC_STRATEGY), so a panicking load is a crash of the daemon",
    ]
    return c.finish()


MANIFEST = {
    "claimed": True,
    "text": "Theorems (Coq, model of the repaired load of branch fix-c27): C27_roundtrip (every key set with valid primary, 64-byte keys, "
            "< 2^32 keys, stored at any time <= i64::MAX, loads back identically, also with trailing bytes) and C27_restart_keeps_cookies "
            "(the restarted daemon holds exactly that set, cookies issued before still decode); C27_crash (EVERY proper prefix of the stored "
            "bytes, the empty file included, is rejected by load) and C27_crash_restart (after a crash at any point of the store the next "
            "start has exactly the stored set or fresh keys); C27_loaded_wellformed / C27_loaded_usable (for ANY byte string, what load "
            "accepts has 0 <= primary < #keys, 64-byte keys, a representable time, and issues a cookie that decodes back - the only panic site "
            "of encode is excluded); C27_load_total (load never panics); C27_start_usable (missing file or any content: the daemon starts with "
            "a usable key set). Tied on every run to KeySetProvider::{load,store} (every prefix of stored images exhaustively per file, every "
            "single-field header corruption, bit flips, garbage; what loads is used) and to nts_key_provider::spawn (restore / fresh keys / "
            "published set / mode 0600 of a newly created file).",
    "note": "Trusted: Coq kernel + vm_compute; hand-written model coq/Model/KeyFile.v (store, load, start); harness + driver. Assumed, not "
            "proved: a crash leaves a prefix of the bytes written by the sequential write_all calls after the truncating open; SystemTime "
            "represents exactly the seconds <= i64::MAX. Observed, not proved: mode 0600 of the newly created file (run-time check + constants "
            "FILE_MODE_OCTAL_DIGITS, PROVIDER_TRUNCATE). Usability theorems carry C26's AEAD premises aead_correct, aead_tag16. The unrepaired "
            "tree violates the property twice (primary = len accepted -> encode_cookie panics; time field >= 2^63 -> load panics, release "
            "profile aborts): the check reports the concrete files until fix-c27 is merged. Print Assumptions: closed under the global context.",
    "design_ref": "DESIGN.md 3 C27",
}
