"""C25: tampered NTS packets are never accepted as authentic.  Model: coq/Model/{Bytes,ExtField,Packet}.v
(AEAD = oracle); theorems: coq/Props/C25.v; tie: genuine NTS requests / responses are produced by the
implementation (real encoder, real AES-SIV-CMAC-256/512, cookies under a real KeySet) in a first harness
pass; every byte position of them is then modified (single bit, single byte) and decoded by the
implementation (server KeySet / real client cipher) and by the model, whose oracle is the table of the
genuine AEAD tuples."""
from tools import vplib
from tools.props import p1gen as g
from tools.props import c23 as base
from tools.props.c24 import p_outcome


def layout(b, v5):
    """(offset of the authenticator field, protected byte ranges) of a genuine NTS packet"""
    for o, w in base.field_offsets(b, v5):
        if (b[o] << 8 | b[o + 1]) == g.T_ENC:
            nl = b[o + 4] << 8 | b[o + 5]
            cl = b[o + 6] << 8 | b[o + 7]
            n0 = o + 8
            c0 = o + 8 + (nl + 3) // 4 * 4
            return o, w, [(0, o), (n0, n0 + nl), (c0, c0 + cl)]
    return None, None, []


def trusted(o):
    """what a decode result reports as authenticated / encrypted / recovered cookie"""
    if o[0] in ("accept", "decrypt-error"):
        p = o[1]
        return p["authenticated"], p["encrypted"], o[2]
    return [], [], None


def main():
    c = vplib.Check("C25")
    c.run_gate()
    rng = c.rng
    quick = c.tier == "quick"
    exe, log, mode = vplib.build_harness("ntp-proto", "C25")
    if exe is None:
        c.not_shown_because("correspondence C25: the harness no longer builds against the current tree: %s" % log[-1500:])
        return c.finish()
    # material pass through the C25 driver

    def material():
        lines, metas = [], []
        flip = rng.randrange(2)
        n = 2 if quick else 8
        for i in range(n):
            nk = rng.choice([1, 2, 3])
            keys = base.KEYS[:nk]
            primary = rng.randrange(nk)
            id_offset = rng.choice([0, 1, 0xFFFFFFFF, rng.getrandbits(32)])
            alg = [15, 17][(i + flip) % 2]
            w = 32 if alg == 15 else 64
            s2c = bytes(rng.randrange(256) for _ in range(w))
            c2s = bytes(rng.randrange(256) for _ in range(w))
            ver = [4, 4, 5][i % 3] if not quick else [4, 5][i % 2]
            ncookies = rng.choice([1, 2, 3])
            lines.append("%d MK %d %d %d %s %d %s %s %d %d" % (i, id_offset, primary, nk, " ".join(k.hex() for k in keys),
                                                             alg, s2c.hex(), c2s.hex(), ver, ncookies))
            metas.append({"keys": [list(k) for k in keys], "id_offset": id_offset, "alg": alg, "s2c": list(s2c),
                          "c2s": list(c2s), "ver": ver})
        rc, out, res = vplib.run_harness(exe, "C25", lines, vplib.CRATE_DIRS["ntp-proto"])
        ms = []
        for l in res:
            t = l.split()
            if len(t) < 2 or t[1] != "cookie":
                c.not_shown_because("C25 material pass: harness answered `%s`" % l[:200])
                continue
            m = dict(metas[int(t[0])])
            m["table"] = []
            k = 1
            while k < len(t):
                if t[k] in ("cookie", "request", "response"):
                    m[t[k]] = list(bytes.fromhex(t[k + 1]))
                    k += 2
                elif t[k] == "T":
                    m["table"].append(tuple(list(bytes.fromhex(x)) if x != "-" else [] for x in t[k + 1:k + 6]))
                    k += 6
                else:
                    k += 1
            ms.append(m)
        if rc != 0 or len(ms) != n:
            c.not_shown_because("C25 material pass failed (rc=%s, %d of %d): %s" % (rc, len(ms), n, out[-600:]))
        return ms

    mats = material()
    if not mats:
        return c.finish()

    cases = []
    stats = {}
    for mid, m in enumerate(mats):
        v5 = m["ver"] == 5
        for which in ("request", "response"):
            b = m[which]
            # after the authenticator: sometimes an extra untrusted field (not covered by the AEAD)
            if rng.random() < 0.5:
                t, body = g.body_of_kind(rng, rng.choice(["uid", "unknown", "cookie"]), v5, 16)
                b = b + g.wire_field(t, body, v5)
            o, w, prot = layout(b, v5)
            ctxs = ["S", "R"] if which == "request" else ["R"]
            for ctx in ctxs:
                def mk(data, kind, pos):
                    case = {"ctx": ctx, "data": data, "table": m["table"], "mid": (mid, which, ctx), "kind": kind, "pos": pos,
                            "protected": pos is not None and any(a <= pos < z for a, z in prot), "orig": b, "tab": mid}
                    if ctx == "S":
                        case.update({"keys": m["keys"], "id_offset": m["id_offset"]})
                    else:
                        case["key"] = m["c2s"] if which == "request" else m["s2c"]
                    cases.append(case)
                    stats[kind] = stats.get(kind, 0) + 1
                mk(list(b), "genuine", None)
                for pos in range(len(b)):
                    bits = [rng.randrange(8)] if quick else rng.sample(range(8), 2)
                    if quick and ctx == "R" and which == "request" and pos % 3:
                        continue
                    for bit in bits:
                        d = list(b)
                        d[pos] ^= 1 << bit
                        mk(d, "bitflip", pos)
                    if (not quick) or pos % 2 == 0:
                        d = list(b)
                        d[pos] = (d[pos] + rng.randrange(1, 256)) % 256
                        mk(d, "byte", pos)
                # same-length rewrites of the authenticator's own header (length, nonce length, ct length)
                for off, val in ((2, w + 4), (2, w - 4), (4, 0), (4, 15), (4, 17), (6, 0), (6, 1)):
                    d = list(b)
                    d[o + off], d[o + off + 1] = (val >> 8) & 255, val & 255
                    mk(d, "auth-header", o + off)

    orig = {}
    outcome = {}

    def monitor(case, out):
        if out and out[0] == "PANIC":
            return ("decoding a modified NTS packet panics: %s" % " ".join(out[1:])[:100], {"datagram_hex": g.hexs(case["data"])})
        o, _ = p_outcome([int(x) for x in out], 0)
        au, en, ck = trusted(o)
        if case["kind"] == "genuine":
            orig[case["mid"]] = (au, en, ck)
            if not (au or en):
                return None
            return None
        oa, oe, ock = orig.get(case["mid"], ([], [], None))
        payload = {"genuine_hex": g.hexs(case["orig"]), "modified_hex": g.hexs(case["data"]), "position": case["pos"],
                   "context": case["ctx"]}
        k = ("protected" if case["protected"] else "other") + ":" + ("still-authentic" if (au or en or ck) else "rejected")
        outcome[k] = outcome.get(k, 0) + 1
        if case["protected"]:
            if au or en or ck:
                return ("byte %d of an NTS packet lies in the authenticated region (header, fields before the authenticator, "
                        "nonce or ciphertext); after changing it the decoder still reports %d authenticated and %d encrypted "
                        "fields%s" % (case["pos"], len(au), len(en), " and recovers cookie keys" if ck else ""), payload)
            return None
        if (au and au != oa) or (en and en != oe) or (ck and ck != ock):
            return ("changing byte %d (outside the authenticated region) makes different content appear authenticated or "
                    "encrypted" % case["pos"], payload)
        return None

    def coq_case(case, out):
        if g.in_c24_class(case["data"], [e[-1] for e in case["table"]]):
            return None
        cx, _ = base.coq_ctx(case)
        if out and out[0] == "PANIC":
            o = "[3;0]"
        else:
            o = g.coq_nums(out)
        return "((%s, tab%d, %s) : ctx * table * bytes)" % (cx, case["tab"], g.coq_bytes(case["data"])), "(%s : list Z)" % o

    preamble = "From V Require Import Model.Packet.\nOpen Scope Z_scope.\n" + g.REP_DEF
    for mid, m in enumerate(mats):
        preamble += "Definition tab%d : table := [%s].\n" % (
            mid, ";".join("(%s,%s,%s,%s,%s)" % tuple(g.coq_bytes(x) for x in e) for e in m["table"]))

    c.cov["rule"] = ("genuine NTS requests (decoded with the server KeySet and with the client's c2s cipher) and responses (decoded "
                     "with the s2c cipher), NTPv4 and NTPv5, AES-SIV-CMAC-256 and -512, produced by the implementation; for every byte "
                     "position a single-bit flip (quick: one random bit per position; thorough: two) and a single-byte change, plus rewrites of the "
                     "authenticator's length / nonce-length / ciphertext-length fields; implementation (real AES-SIV) against the model "
                     "with the genuine tuples as oracle. non-trivial = the genuine packet authenticates and the case modifies it")
    vplib.correspondence(
        c, "ntp-proto", cases, line_of=base.line_of, coq_case_of=coq_case, preamble=preamble,
        checker="mismatches list_eqb run_decode", monitor=monitor,
        nontrivial=lambda case, out: case["kind"] != "genuine",
        key_of=lambda case: (case["ctx"], bytes(case["data"])), shard=80,
        sample_of=lambda case, out: {"context": case["ctx"], "kind": case["kind"], "position": case["pos"],
                                     "protected": case["protected"], "outcome": " ".join(out[:3])})
    genuine_ok = sum(1 for v in orig.values() if v[0] or v[1])
    if genuine_ok < len(orig):
        c.not_shown_because("C25: %d of %d genuine NTS packets do not authenticate on the implementation" % (len(orig) - genuine_ok, len(orig)))
    c.cov["distribution"] = {"generated": stats, "outcomes": outcome, "genuine_packets": len(orig),
                             "genuine_authenticating": genuine_ok}
    c.assumptions += [
        "ideal AEAD: decryption succeeds only on tuples (key, nonce, associated data, ciphertext) that were produced by an "
        "encryption (the forgery probability of AES-SIV is idealised to zero); in the correspondence the oracle is the table "
        "of the genuine tuples recorded while the implementation encrypted",
        "hand-written model of the decoder (coq/Model/ExtField.v, Packet.v), tied by this correspondence",
    ]
    return c.finish()


MANIFEST = {
    "claimed": True,
    "text": "Theorem C25_protected / C25_tampered_rejected (Coq, all byte strings, all three key contexts, ideal-AEAD hypothesis `genuine` visible in the statement: besides cookie encryptions with empty associated data only the genuine tuple (nonce n0, associated data a0, ciphertext c0) decrypts): whenever the decoder reports any authenticated field, any encrypted field or recovered cookie keys (also inside a decrypt error), the datagram carries a0 on [0,|a0|) (header and every field before the authenticator), n0 at the authenticator's nonce position and c0 at its ciphertext position; i.e. any change of any bit there makes authentication fail. Theorem C25_rest_harmless (second sentence, same hypothesis, all three key contexts): for a genuine packet b (it carries a0, then at |a0| what the decoder's field streamer reads as an NTS authenticator with nonce n0 and ciphertext c0, and it decodes without error) and every byte string b' of the same length that agrees with it on the protected ranges, every field b' reports as authenticated (encrypted) is one b reports as authenticated (encrypted), also inside a decrypt error, and cookie keys recovered from b' are those recovered from b; b need not itself authenticate (wrong key or empty content: b' reports nothing either). C25_rest_exact: all or nothing, for every b' of the same length: if b' reports anything trusted, its authenticated and encrypted lists equal b's. C25_rest_equal: any two same-length byte strings that both report something trusted report the same lists. Correspondence and monitor at every byte position of genuine requests and responses (real AES-SIV-CMAC-256/512, NTPv4/v5, server KeySet and client ciphers).",
    "note": 'Trusted: Coq kernel+vm_compute; hand-written decoder model (shared with C23); ideal AEAD: forgery probability of AES-SIV idealised to zero and a single protected packet per key (hypothesis `genuine`); the correspondence uses as oracle the table of genuine tuples recorded while the implementation encrypted. The second-sentence theorems are for b\' of the SAME length as b (as DESIGN.md states them). When the genuine packet b itself decodes to a decrypt error (e.g. a second, failing authenticator follows the genuine one) its result carries no cookie keys and the theorem\'s key clause is silent: a b\' that changes the bytes after the genuine authenticator can then be accepted with the keys of the genuine cookie (same genuine content, not a forgery). Cases of the C24 defect class are not compared with the model (see C23). Print Assumptions: closed under the global context (5 theorems).',
    "design_ref": 'DESIGN.md 3 C25',
}
