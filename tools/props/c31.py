"""C31: IP filters match exactly the configured subnets.  Model: coq/Model/IpFilter.v; theorems:
coq/Props/C31.v; tie: IpFilter::new / IpFilter::is_in (BitTree::create / lookup, node arrays included)
and IpSubnet::from_str through harness/ntp-proto/c31.rs."""
import glob
import os

from tools import vplib

BITS = {4: 32, 6: 128}
MAPPED = 0xFFFF << 32


# ---------------------------------------------------------------------------
# the property statement, evaluated in python independently of the Coq model
# ---------------------------------------------------------------------------

def canonical(fam, v):
    if fam == 6 and (v >> 32) == 0xFFFF:
        return 4, v & 0xFFFFFFFF
    return fam, v


def contains(sub, addr):
    sf, sv, sm = sub
    af, av = canonical(*addr)
    if sf != af:
        return False
    sh = BITS[sf] - sm
    return (sv >> sh) == (av >> sh)


def monitor_filter(case, out):
    subs, addrs = case["subnets"], case["addrs"]
    if any(not (0 <= m <= BITS[f]) for f, _, m in subs):
        return None  # outside the property's domain
    if out and out[0] == "PANIC":
        return ("IpFilter::new/is_in panics on subnets %s: %s" % (show_subs(subs), " ".join(out[1:])),
                {"subnets": show_subs(subs)})
    for k, a in enumerate(addrs):
        want = any(contains(s, a) for s in subs)
        got = out[k] if k < len(out) else "?"
        if got != ("1" if want else "0"):
            hit = [show_sub(s) for s in subs if contains(s, a)]
            return ("address %s is %s by a filter built from %s, but it lies in %s" % (
                show_addr(a), "listed" if got == "1" else "not listed (%s)" % got, show_subs(subs),
                ("the configured subnets " + ", ".join(hit)) if hit else "none of the configured subnets"),
                {"subnets": show_subs(subs), "address": show_addr(a), "expected_listed": want})
    return None


def monitor_parse(case, out):
    """accepted exactly when the address parses and the mask fits the canonicalised family"""
    if out and out[0] == "PANIC":
        return ("IpSubnet::from_str panics on %r" % case["s"], {"string": case["s"]})
    try:
        r = out.index("R")
        split, afam, aval, mask = int(out[0]), int(out[1]), int(out[2], 16), int(out[3])
        res = out[r + 1:]
    except (ValueError, IndexError):
        return None
    want = None
    if "expect" in case:
        # strings produced by our own formatter from numbers: the std parsers must read them back
        ef, ev, em = case["expect"]
        if (split, afam, aval, mask) != (1, ef, ev, em):
            return ("the address/mask parsers read %r as family %s value %x mask %s" % (case["s"], afam, aval, mask),
                    {"string": case["s"]})
    if split and afam and mask >= 0:
        f, v = canonical(afam, aval)
        m = mask
        ok = True
        if (f, v) != (afam, aval):
            ok = m >= 96
            m -= 96
        if ok and m <= BITS[f]:
            want = ["0", str(f), "%x" % v, str(m)]
    accepted = res[0] == "0"
    if accepted != (want is not None) or (accepted and res != want):
        return ("subnet string %r is %s (result %s); the address %s and the mask %s, so it should be %s" % (
            case["s"], "accepted" if accepted else "rejected", " ".join(res),
            "parses" if afam else "does not parse", ("parses as %d" % mask) if mask >= 0 else "does not parse",
            ("accepted as " + " ".join(want)) if want else "rejected"), {"string": case["s"]})
    return None


# ---------------------------------------------------------------------------
# text forms
# ---------------------------------------------------------------------------

def v4_text(v):
    return ".".join(str((v >> s) & 255) for s in (24, 16, 8, 0))


def v6_text(v, rng=None):
    groups = ["%x" % ((v >> (112 - 16 * i)) & 0xFFFF) for i in range(8)]
    if rng is not None and rng.random() < 0.5:
        # compress the first run of zero groups
        for i in range(8):
            if groups[i] == "0":
                j = i
                while j < 8 and groups[j] == "0":
                    j += 1
                if j - i >= 2:
                    return ":".join(groups[:i]) + "::" + ":".join(groups[j:])
                break
    return ":".join(groups)


def show_addr(a):
    return v4_text(a[1]) if a[0] == 4 else v6_text(a[1])


def show_sub(s):
    return "%s/%d" % (show_addr((s[0], s[1])), s[2])


def show_subs(subs):
    return "[" + ", ".join(show_sub(s) for s in subs) + "]"


# ---------------------------------------------------------------------------
# generators
# ---------------------------------------------------------------------------

def pick_len(rng, bits):
    r = rng.random()
    if r < 0.55:
        base = 4 * rng.randint(0, bits // 4)
        return max(0, min(bits, base + rng.choice([-1, 0, 0, 1])))
    if r < 0.65:
        return rng.choice([0, 1, 2, 3, 4, 5, bits - 5, bits - 4, bits - 3, bits - 1, bits])
    return rng.randint(0, bits)


def gen_filter_case(rng, size_hint):
    subs = []
    n = rng.choice([0, 1, 2, 3]) if rng.random() < 0.15 else rng.randint(1, size_hint)
    fam_mode = rng.choice([4, 6, 0, 0])
    roots = {4: [rng.getrandbits(32) for _ in range(rng.randint(1, 3))],
             6: [rng.getrandbits(128) for _ in range(rng.randint(1, 3))]}
    if rng.random() < 0.2:
        roots[6].append(MAPPED | rng.getrandbits(32))  # a V6 subnet inside the mapped range (not producible by from_str)
    if rng.random() < 0.15:
        roots[4].append(0)
        roots[6].append(0)
    if rng.random() < 0.15:
        roots[4].append(2 ** 32 - 1)
        roots[6].append(2 ** 128 - 1)

    def derive(fam):
        bits = BITS[fam]
        base = rng.choice(roots[fam])
        keep = pick_len(rng, bits)           # share `keep` leading bits with a root
        rnd = rng.getrandbits(bits)
        mask_keep = ((1 << bits) - 1) ^ ((1 << (bits - keep)) - 1)
        return (base & mask_keep) | (rnd & ~mask_keep & ((1 << bits) - 1))

    while len(subs) < n:
        fam = fam_mode or rng.choice([4, 6])
        bits = BITS[fam]
        v = derive(fam)
        m = pick_len(rng, bits)
        if rng.random() < 0.5:
            v &= ((1 << bits) - 1) ^ ((1 << (bits - m)) - 1)   # often already masked, often not
        r = rng.random()
        if r < 0.25 and m < bits:
            # adjacent pieces that together cover the parent v/m: both halves, or 4 quarters, or 16 nibble children
            k = rng.choice([1, 1, 2, 4]) if m + 4 <= bits else 1
            if m + k <= bits:
                pieces = list(range(1 << k))
                if rng.random() < 0.3:
                    pieces.remove(rng.choice(pieces))       # ... or all but one
                if rng.random() < 0.3 and m + k < bits and pieces:
                    # replace one piece by its own two halves (coverage over two levels)
                    p = pieces.pop(rng.randrange(len(pieces)))
                    hi = v & (((1 << bits) - 1) ^ ((1 << (bits - m)) - 1))
                    for q in (0, 1):
                        subs.append((fam, hi | (p << (bits - m - k)) | (q << (bits - m - k - 1)), m + k + 1))
                hi = v & (((1 << bits) - 1) ^ ((1 << (bits - m)) - 1))
                for p in pieces:
                    low = rng.getrandbits(bits - m - k) if rng.random() < 0.3 else 0
                    subs.append((fam, hi | (p << (bits - m - k)) | low, m + k))
                continue
        if r < 0.35:
            # nested chain
            for d in range(rng.randint(2, 4)):
                subs.append((fam, v, max(0, min(bits, m + rng.choice([-5, -4, -3, -1, 1, 3, 4, 5]) * d))))
            continue
        subs.append((fam, v, m))
        if rng.random() < 0.12:
            subs.append((fam, v, m))                       # duplicate
    rng.shuffle(subs)

    addrs = []
    for (fam, v, m) in subs:
        bits = BITS[fam]
        lo = v & (((1 << bits) - 1) ^ ((1 << (bits - m)) - 1))
        hi = lo + (1 << (bits - m)) - 1
        cand = [lo, hi, (lo - 1) % (1 << bits), (hi + 1) % (1 << bits), rng.randint(lo, hi)]
        if m < bits:
            cand.append(lo + (1 << (bits - m - 1)))          # middle: first address of the upper half
            cand.append(lo + (1 << (bits - m - 1)) - 1)
        cand.append(lo ^ (1 << rng.randrange(bits)))
        for a in rng.sample(cand, min(len(cand), 4)):
            addrs.append((fam, a))
            if fam == 4 and rng.random() < 0.3:
                addrs.append((6, MAPPED | a))               # the same IPv4 address in mapped form
    for _ in range(4):
        fam = rng.choice([4, 6])
        addrs.append((fam, derive(fam)))
    addrs.append((6, MAPPED | rng.getrandbits(32)))
    addrs.append((6, (0xFFFE << 32) | rng.getrandbits(32)))
    addrs.append((6, (1 << 48) | MAPPED | rng.getrandbits(32)))
    if len(addrs) > 120:
        addrs = rng.sample(addrs, 120)
    return {"subnets": subs, "addrs": addrs}


FIXED_FILTER = [
    # the repository's own unit tests
    {"subnets": [(6, 0x10 << 120, 4), (6, 0x20 << 120, 3), (6, 0x43 << 120, 8), (6, 0x82 << 120, 7)],
     "addrs": [(6, x << 120) for x in (0x11, 0x40, 0x30, 0x43, 0xC4, 0x82, 0x83, 0x81)]},
    {"subnets": [(4, 0, 0), (6, 0, 0)], "addrs": [(4, 0), (4, 2 ** 32 - 1), (6, 0), (6, 2 ** 128 - 1), (6, MAPPED | 5)]},
    {"subnets": [(4, 0x01020304, 32), (6, 0x0010003200540076009800BA00DC00FE, 128)],
     "addrs": [(4, 0x01020304), (4, 0x01020305), (6, 0x0010003200540076009800BA00DC00FE), (6, 0x0010003200540076009800BA00DC00FF)]},
    {"subnets": [], "addrs": [(4, 0), (6, 0), (6, MAPPED)]},
    # halves covering a nibble, over two levels
    {"subnets": [(6, 0x10 << 120, 5), (6, 0x18 << 120, 6), (6, 0x1C << 120, 6)],
     "addrs": [(6, x << 120) for x in (0x0F, 0x10, 0x17, 0x18, 0x1B, 0x1C, 0x1F, 0x20)]},
    {"subnets": [(6, 0x10 << 120, 5), (6, 0x18 << 120, 6)],
     "addrs": [(6, x << 120) for x in (0x0F, 0x10, 0x17, 0x18, 0x1B, 0x1C, 0x1F, 0x20)]},
    # a short prefix in one nibble covering a sibling that has its own longer prefixes
    {"subnets": [(6, 0x20 << 120, 3), (6, 0x35 << 120, 8), (6, 0x45 << 120, 8), (6, 0x40 << 120, 4)],
     "addrs": [(6, x << 120) for x in (0x1F, 0x20, 0x2F, 0x30, 0x35, 0x36, 0x3F, 0x40, 0x45, 0x4F, 0x50)]},
    {"subnets": [(4, 0x7F000000, 24), (4, 0xC0A80000, 8), (6, MAPPED | 0xC0A80000, 104)],
     "addrs": [(4, 0x7F000001), (4, 0x0A000101), (6, MAPPED | 0xC0A80101), (6, MAPPED | 0x0A000005), (6, 0xFEEFABCD1234), (4, 0xC0A80101)]},
]


def filter_line(case):
    toks = ["F"]
    for f, v, m in case["subnets"]:
        toks.append("S%d:%x/%d" % (f, v, m))
    for f, v in case["addrs"]:
        toks.append("A%d:%x" % (f, v))
    return " ".join(toks)


def gen_parse_cases(rng, n):
    cases = []

    def add(s, expect=None):
        c = {"s": s}
        if expect:
            c["expect"] = expect
        cases.append(c)

    fixed = ["", "/", "//", "0.0.0.0", "::", "bla/5", "0.0.0.0/33", "0.0.0.0/0", "127.0.0.1/32", "::/0", "::/128", "::/129",
             "::ffff:192.168.0.0/95", "::ffff:192.168.0.0/96", "::FFFF:192.168.0.0/120", "::ffff:192.168.0.0/128",
             "::ffff:192.168.0.0/129", "::ffff:c0a8:0/104", "::192.168.0.0/104", "::fffe:192.168.0.0/104",
             "1.2.3.4/5/6", "1.2.3.4/", "/24", "1.2.3.4/+8", "1.2.3.4/-1", "1.2.3.4/08", "1.2.3.4/ 8", "1.2.3.4 /8",
             " 1.2.3.4/8", "1.2.3.4/8 ", "1.2.3.4/256", "1.2.3.4/255", "1.2.3.4/0x8", "1.2.3.4/8\n", "01.2.3.4/8",
             "1.2.3/8", "1.2.3.4.5/8", "1.2.3.256/8", "fe80::1%eth0/64", "[::1]/64", "::1/64", "1::2::3/64",
             "12345::/16", "1:2:3:4:5:6:7:8/64", "1:2:3:4:5:6:7:8:9/64", "1:2:3:4:5:6:1.2.3.4/64", "::ffff:1.2.3.4/0",
             "::ffff:0:0/96", "::ffff:0:0/97", "0:0:0:0:0:ffff:0:0/100", "::FFFF:255.255.255.255/128",
             "\u0661.2.3.4/8", "1.2.3.4/\u0668", "1.2.3.4\\8", "1.2.3.4/8/", "::ffff:1.2.3.4/095", "::ffff:1.2.3.4/+100"]
    for s in fixed:
        add(s)
    masks_v4 = [0, 1, 8, 24, 31, 32, 33, 95, 96, 97, 127, 128, 129, 255]
    for _ in range(n):
        r = rng.random()
        if r < 0.3:
            v = rng.getrandbits(32)
            m = rng.choice(masks_v4) if rng.random() < 0.6 else rng.randint(0, 255)
            add("%s/%d" % (v4_text(v), m), (4, v, m))
        elif r < 0.55:
            v = rng.getrandbits(128) if rng.random() < 0.6 else rng.getrandbits(rng.choice([16, 32, 48, 64]))
            m = rng.choice(masks_v4) if rng.random() < 0.6 else rng.randint(0, 255)
            if (v >> 32) != 0xFFFF:
                add("%s/%d" % (v6_text(v, rng), m), (6, v, m))
        elif r < 0.8:
            v = rng.getrandbits(32)
            m = rng.choice([0, 32, 94, 95, 96, 97, 100, 120, 127, 128, 129, 130, 200, 255]) if rng.random() < 0.7 else rng.randint(0, 255)
            form = rng.choice(["::ffff:%s", "::FFFF:%s", "0:0:0:0:0:ffff:%s", "hex"])
            a = ("::ffff:%x:%x" % (v >> 16, v & 0xFFFF)) if form == "hex" else form % v4_text(v)
            add("%s/%d" % (a, m), (6, MAPPED | v, m))
        else:
            # mutate a valid string
            v = rng.getrandbits(32)
            s = "%s/%d" % (v4_text(v) if rng.random() < 0.5 else v6_text(rng.getrandbits(128), rng), rng.randint(0, 140))
            k = rng.randrange(len(s))
            op = rng.random()
            if op < 0.4:
                s = s[:k] + s[k + 1:]
            elif op < 0.8:
                s = s[:k] + rng.choice("/.:0 9af%+-x") + s[k:]
            else:
                s = s[:k] + rng.choice("/.:0 9af%+-x") + s[k + 1:]
            add(s)
    return cases


def main():
    c = vplib.Check("C31")
    c.run_gate()
    rng = c.rng
    quick = c.tier == "quick"

    # ---- filter cases ----
    cases = []
    for p in sorted(glob.glob(os.path.join(vplib.VERIF, "corpus", "C31", "*.txt"))):
        for line in open(p):
            t = line.split()
            if not t or t[0] != "F":
                continue
            subs, addrs = [], []
            for tok in t[1:]:
                fam = int(tok[1])
                if tok[0] == "S":
                    h, m = tok[3:].split("/")
                    subs.append((fam, int(h, 16), int(m)))
                else:
                    addrs.append((fam, int(tok[3:], 16)))
            cases.append({"subnets": subs, "addrs": addrs})
    cases += FIXED_FILTER
    n_cases = 400 if quick else 6000
    for k in range(n_cases):
        cases.append(gen_filter_case(rng, rng.choice([3, 6, 12, 30]) if k % 10 else 60))

    lens = {}
    fam_count = {4: 0, 6: 0}
    listed = 0
    lookups = 0
    mapped_lookups = 0
    for cs in cases:
        for f, v, m in cs["subnets"]:
            key = "%d:/%d%s" % (f, m, "" if m % 4 else "*")
            lens[m % 4] = lens.get(m % 4, 0) + 1
            fam_count[f] += 1
        for a in cs["addrs"]:
            lookups += 1
            listed += any(contains(s, a) for s in cs["subnets"])
            mapped_lookups += a[0] == 6 and (a[1] >> 32) == 0xFFFF
    c.cov["rule"] = ("IpFilter::new on generated subnet lists (IPv4 and IPv6 mixed, prefixes derived from a few roots so that "
                     "leading nibbles are shared, lengths 0..32/0..128 with emphasis on multiples of 4 and +-1, sibling pieces that "
                     "together cover their parent (halves, quarters, 16 nibble children, also with one piece missing or split once "
                     "more), nested chains, duplicates, masked and unmasked values, V6 subnets inside ::ffff:0:0/96), then is_in on "
                     "the first/last address of every subnet, the addresses just outside, the middle, a random member, single-bit "
                     "flips, the IPv4-mapped form of IPv4 addresses and unrelated addresses; outputs and both node arrays "
                     "(length + hash) compared with the Coq model, every lookup compared with the naive containment test in python; "
                     "plus IpSubnet::from_str on generated and mutated strings. A filter case is non-trivial with >= 2 subnets; "
                     "distinct = distinct (subnet list, address list)")
    c.cov["distribution"] = {"filter_cases": len(cases), "lookups": lookups, "lookups_listed": listed,
                             "lookups_mapped_v6": mapped_lookups, "subnets_v4": fam_count[4], "subnets_v6": fam_count[6],
                             "subnet_len_mod4": {str(k): v for k, v in sorted(lens.items())},
                             "max_subnets": max(len(x["subnets"]) for x in cases)}

    def coq_filter(case, out):
        i = "(mk_case %s %s)" % (
            vplib.coq_list(["%d; 0x%x; %d" % s for s in case["subnets"]]),
            vplib.coq_list(["%d; 0x%x" % a for a in case["addrs"]]))
        if out and out[0] == "PANIC":
            return i, "[(-2)%Z]"
        o = []
        for t in out:
            o.append("(-1)" if t == "T" else t)
        return i, vplib.coq_list(o)

    vplib.correspondence(
        c, "ntp-proto", cases,
        line_of=filter_line,
        coq_case_of=coq_filter,
        preamble="From V Require Import Model.IpFilter.\n",
        checker="mismatches list_eqb run_filter",
        monitor=monitor_filter,
        nontrivial=lambda case, out: len(case["subnets"]) >= 2,
        sample_of=lambda case, out: {"subnets": show_subs(case["subnets"][:8]),
                                     "addresses": [show_addr(a) for a in case["addrs"][:6]], "is_in": out[:6]},
        corr_name="correspondence C31 model <-> IpFilter::new/is_in (ntp-proto harness)",
        shard=100 if quick else 200,
    )

    # ---- parse cases ----
    pcases = []
    for p in sorted(glob.glob(os.path.join(vplib.VERIF, "corpus", "C31", "*.txt"))):
        for line in open(p):
            t = line.split()
            if t and t[0] == "P":
                pcases.append({"s": bytes.fromhex(t[1] if t[1] != "-" else "").decode()})
    pcases += gen_parse_cases(rng, 600 if quick else 10000)

    def parse_line(case):
        b = case["s"].encode()
        return "P " + (b.hex() if b else "-")

    def coq_parse(case, out):
        if out and out[0] == "PANIC":
            return None
        r = out.index("R")
        i = "(%s, (%s, %d), %s)" % (out[0], out[1], int(out[2], 16), vplib.zlit(int(out[3])))
        res = out[r + 1:]
        if res[0] == "0":
            o = "[0; %s; %d; %s]" % (res[1], int(res[2], 16), res[3])
        else:
            o = "[%s]" % res[0]
        return i, o

    outs = vplib.correspondence(
        c, "ntp-proto", pcases,
        line_of=parse_line,
        coq_case_of=coq_parse,
        preamble="From V Require Import Model.IpFilter.\n",
        checker="mismatches list_eqb run_parse",
        monitor=monitor_parse,
        nontrivial=lambda case, out: True,
        corr_name="correspondence C31 model <-> IpSubnet::from_str (ntp-proto harness)",
        shard=2000,
    )
    if outs:
        cls = {}
        for o in outs.values():
            if "R" in o:
                k = o[o.index("R") + 1]
                cls[k] = cls.get(k, 0) + 1
        c.cov["distribution"]["parse_cases"] = len(pcases)
        c.cov["distribution"]["parse_result_classes(0=ok,1=syntax,2=ip,3=mask,4=v4range)"] = cls
    c.assumptions += [
        "hand-written model of BitTree::{create, fill_node, lookup}, IpFilter::{new, is_in} and IpSubnet::from_str "
        "(coq/Model/IpFilter.v); tied to the code by comparing every lookup and both node arrays (length + hash) on every run",
        "std: IpAddr::to_canonical, str::parse::<IpAddr>, str::parse::<u8>, split_once are oracles/modelled library behaviour",
        "reading: containment is by canonical address family (an IPv4-mapped IPv6 address is an IPv4 address), as in the "
        "repository's own fuzz oracle",
    ]
    return c.finish()


MANIFEST = {
    "claimed": True,
    "text": "Theorems (Coq, no bound on prefix structure): for every list of subnets whose masks fit their family (IPv4 /0-/32, "
            "IPv6 /0-/128; overlapping, nested, adjacent, duplicated, unmasked, any order) and every IPv4 / IPv6 / IPv4-mapped "
            "address, IpFilter::new followed by is_in neither panics nor runs out of fuel and answers exactly 'some configured "
            "subnet contains the address' (naive mask comparison by canonical family) - C31_lookup_spec, proved through the "
            "node-array trie (mask, sort, counts/split_at buckets, <=4-bit nibble runs, union-coverage sweep, popcount child "
            "index, shared array with preallocated children), for lists of fewer than 130 150 524 subnets (the code stores "
            "child offsets as u32); C31_tree_spec the same for BitTree::create/lookup on arbitrary 128-bit prefixes; C31_mapped; "
            "C31_parse / C31_parse_errors / C31_parse_wf: from_str accepts exactly when '/' is present, address and mask parse "
            "and the mask fits the canonicalised family (mapped ::ffff:a.b.c.d/m needs 96<=m<=128 and becomes a.b.c.d/(m-96)), "
            "and every accepted subnet satisfies the hypothesis of C31_lookup_spec. Tie: every run compares is_in on generated "
            "lists (shared leading nibbles, lengths around multiples of 4, covering sibling sets, duplicates, boundary "
            "addresses +-1, mapped forms) AND both node arrays (length + hash) with the model inside Coq, and from_str on "
            "generated/mutated strings; a python monitor evaluates naive containment independently.",
    "note": "Trusted: Coq kernel + vm_compute; hand-written model coq/Model/IpFilter.v (release semantics: wrapping "
            "arithmetic, masked shift amounts; explicit panic sites for the 3 indexing sites and split_at_mut, census-checked); "
            "slice::sort modelled as insertion sort (any sort gives the same list for a total order on (u128,u8)); std "
            "IpAddr::to_canonical modelled, str::parse::<IpAddr>/<u8> and split_once are oracles whose results the harness "
            "reports; harness + python driver. Reading: containment is by canonical address family, as in the repository's "
            "fuzz oracle (an IPv4-mapped address is matched against IPv4 subnets only; a V6 subnet such as ::/0 does not list "
            "::ffff:a.b.c.d). Hypothesis 1+33n < 2^32 on the list length (u32 child offsets). Print Assumptions: closed under "
            "the global context for all six theorems.",
    "design_ref": "DESIGN.md 3 C31",
}
