"""C19: NTS server answers are authenticated and carry valid fresh cookies.
Model: coq/Model/Response.v; theorems: coq/Props/C19.v; tie: Server::handle and the response builders
through harness/ntp-proto/c19.rs (shared code p2b.rs), driver code shared in tools/p2b.py."""
from tools import p2b


def monitor(case, out):
    return p2b.monitor_c19(case, out)


def main():
    return p2b.run_property(
        "C19", monitor,
        "grammar-generated request datagrams (NTPv3/v4/v5, 0-10 extension fields of every kind and size class, MACs, NTS layouts "
        "with cookie/placeholders/unique identifiers in untrusted, authenticated and encrypted position, nonce lengths 0-32, wrong keys, "
        "rotated server keys, truncations and byte damage), each through NtpPacket::deserialize, Server::handle with a request-sized, a "
        "1024-byte and sometimes a third small buffer, or through one of the seven response builders + serialize; compared with the model: "
        "statistics, every clear byte of the answer (server cookie masked), authenticator sizes, decrypted fresh-cookie lengths, request "
        "length formula and well-formedness; non-trivial = the decoder accepted the datagram (Ok or DecryptError); distinct = distinct input lines")


MANIFEST = {
    "claimed": True,
    "text": "Theorems (Coq): a request whose NTS authentication fails is never answered with time, only NAK or (policy) DENY (C19_no_time_on_auth_failure); an NTS time answer is only given to an authenticated client-mode request (C19_time_needs_authentication); with the cookie limit counting cookies (tree pinned by C19_tree_counts_cookies) every NTS time answer has a non-empty encrypted part and is therefore serialized with the session's s2c cipher and an NTS authenticator whose plaintext holds exactly the fresh cookies (C19_fresh_cookie_present, C19_answer_authenticates); C19_unauthenticated_refuted: with the limit counting fields (the tree before fix-c19) a wf NTS request gets a bare 48-byte time answer; at most 8 fresh cookies, at most one per request cookie/placeholder that is at least as long, all of the session algorithm's size (C19_cookie_bounds); fresh cookies decode under the same key set to the same algorithm and keys under an ideal AEAD (C19_cookie_keys, hypothesis dec_enc in the statement).",
    "note": "Defect found: on /repo before branch fix-c19 the check reports VIOLATION with the concrete request (NTPv4 NTS request without unique identifier whose cookie is the ninth field). 'Can be authenticated with the s2c key' = the authenticator is present and produced with the cookie's s2c cipher in the model; on the code it is the harness decrypting every answer with the real s2c key and decoding every fresh cookie with the real KeySet (monitor). AES-SIV idealised (Section hypothesis, no axiom); key rotation = generated key sets with 1-3 keys, cookies under primary and older keys. Trusted: as C16. Print Assumptions: closed under the global context.",
    "design_ref": "DESIGN.md 3 C19",
}
