"""C07: NTS sources ignore everything that is not authenticated.
Model: coq/Model/Source.v; theorems: coq/Props/C07.v; tie: the real NtpSource with real AES-SIV keys driven
through harness/ntp-proto/s2_source.rs (c07.rs)."""
from tools import vplib
from tools.props import s2lib as L


def monitor(case, evs):
    """the property on one implementation run (NTS sources): a datagram that is not authenticated under s2c and
    bound to the pending request has no effect (no action, no change of the observable state); cookies sent
    later were in the initial stash or in encrypted position of an accepted authenticated answer"""
    if not case["nts"]:
        return None
    legit = list(case["stash"])
    for k, e, prev, cur in L.walk(case, evs):
        if e["kind"] == "T":
            for a in L.sends(e):
                f = L.send_fields(a)
                ck = (f[3], f[4])
                if ck not in legit:
                    return ("event %d: the request carries cookie (tag %d, %d bytes) that was neither in the initial stash nor in "
                            "encrypted position of an accepted authenticated answer" % (k, ck[0], ck[1]),
                            {"case": L.line_of(case), "event_index": k})
                legit.remove(ck)
            continue
        ok = L.bound_answer(case, e, prev, cur)
        if not ok and (e["actions"] or e["dump"] != prev):
            what = "is not authenticated under the server-to-client key" if not (e["decoded"] and e["sealed"]) \
                else "is not bound to the pending request"
            cls = "v5-nak-rate-deny" if (e["ver"] == 5 and e["authnak"] == 1 and e["stratum"] == 0) else "other"
            return ("event %d (t=%d ms): a datagram that %s changed the source: actions %s, state %s -> %s "
                    "(stash,last_poll,remote_min,pending,deadline,deny,stratum,reach,tries,version)"
                    % (k, e["now"], what, e["actions"] or "none", prev, e["dump"]),
                    {"case": L.line_of(case), "event_index": k, "datagram": case["events"][k] if k < len(case["events"]) else "",
                     "shape": cls})
        if ok and L.measures(e):
            legit += e["ce"]
    return None


def defect_cases():
    """DESIGN.md section 4 row 2, as corpus: NTPv5 NTS source, unauthenticated NAK flag + cleartext identifiers"""
    res = []
    for poll in (127, 20, 5):
        res.append({"min": 4, "max": 10, "nts": True, "ver": 2, "stash": [(7, 100)] * 8,
                    "events": [L.ev_timer(0, 4), L.ev_in(10, 5, 4, 0, poll, 0, 4, "0", 0, "u0,d"), L.ev_timer(16000, 4)]})
    return res


def build_cases(c):
    rng = c.rng
    L.COMBO = True
    cases = defect_cases()
    n = 230 if c.tier == "quick" else 1500
    w = {"unauth": 5, "badauth": 4, "baduid": 4, "planted": 3, "oldorigin": 2, "replay": 2, "ntsn": 2, "deny": 1.5, "rate": 1.5,
         "answer": 5, "late": 1.5, "badorigin": 1.5}
    for i in range(n):
        case = L.random_case_header(rng, nts=True if rng.random() < 0.9 else None)
        L.gen_history(rng, case, rng.randint(2, 7), weights=w)
        cases.append(case)
    L.COMBO = False
    return cases


def main():
    c = vplib.Check("C07")
    c.run_gate()
    cases = build_cases(c)
    parsed = L.standard_run(c, cases, monitor)
    c.cov["rule"] = ("event histories against the real NtpSource with real AES-SIV-CMAC-256 session keys: genuine answers, "
                     "unauthenticated copies of everything a genuine answer has, unauthenticated kiss codes of every kind (incl. "
                     "NTPv5 NAK flag + RATE/DENY poll), authenticators under the c2s key / a foreign key / with a flipped ciphertext "
                     "or nonce bit / with a header byte changed after sealing, unique identifier wrong, short, long, missing, only "
                     "encrypted, only untrusted, contradicted, cookies planted in authenticated and untrusted position, replays and "
                     "answers to earlier requests; compared after every event: actions and state dump; a case is non-trivial when "
                     "the state changed at least twice")
    if parsed is not None:
        c.cov["distribution"] = {"cases": len(cases), "event_mix": L.op_mix(cases), "outcomes": L.outcome_classes(parsed)}
    c.assumptions += [
        "decoded-packet level: that a datagram without a valid authenticator reaches the decision logic as a decoder error or "
        "with empty authenticated/encrypted lists is the decoder's property (cluster P, C25); the harness cross-checks the real "
        "decoder's view of every datagram against its specification",
        "ideal AEAD for the correspondence: authenticators under other keys or with flipped bits are expected to fail",
        "NTS sources are created with version V4 or V5 (key exchange result; C12_nts_version shows it is invariant)",
    ]
    return c.finish()


MANIFEST = {
    "claimed": True,
    "text": "Theorems (Coq, model coq/Model/Source.v over decoded packets; all states, packets, histories; on the tree with branch "
            "fix-c07): for an NTS source, any datagram with any effect -- an action or any change of the modelled state (cookie stash, "
            "poll intervals, protocol version, reachability, deny memory, pending request) -- decoded with an authenticator valid under "
            "the s2c key, arrives inside the window of the pending request and carries that request's origin timestamp / client cookie "
            "and unique identifier under the authenticator, and is not an NTS NAK (C07_effect_only_if); hence unauthenticated packets, "
            "decoder-rejected ones and authenticated ones not bound to the pending request are no-ops (C07_unauth_noop, "
            "C07_rejected_noop, C07_bound_to_request); the stash only ever receives the encrypted-position cookies of the measured "
            "packet, along all histories (C07_cookies_only_encrypted, C07_stash_provenance). Tied to the real NtpSource with real "
            "AES-SIV keys by differential histories built from forged / replayed / bit-flipped / re-keyed datagrams.",
    "note": "Trusted: Coq kernel+vm_compute; hand-written model; harness + drivers. The byte decoder and the AEAD are not modelled here: "
            "'authenticated' = the decoder delivered a non-empty sealed part, which presupposes C25 (cluster P) and ideal AES-SIV; the "
            "harness cross-checks the real decoder per datagram. Hypothesis nts_ver_ok (NTS version is V4/V5) is an invariant "
            "(C07_nts_version_invariant) established by key exchange (C28). On the unrepaired tree the check reports the NTPv5 "
            "NAK+DENY/RATE datagram (DESIGN.md section 4 row 2) as VIOLATION with replay; repaired by branch fix-c07. "
            "Print Assumptions: closed under the global context.",
    "design_ref": "DESIGN.md 3 C07",
}
