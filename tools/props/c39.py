"""C39: configuration loading never crashes and rejects unsafe thresholds.
Model: coq/Model/ConfigNum.v (+ Base/D3Float.v); theorems: coq/Props/C39.v.
Tie 1 (ntp-proto, harness/ntp-proto/c39.rs): StepThreshold / ThresholdPart / NtpDuration /
accumulated-threshold deserializers driven with value trees through a minimal serde Deserializer
(no text parser, exact float bits).  Tie 2 (ntpd, harness/ntpd/c39.rs): whole TOML documents through
toml::from_str::<Config> + Config::check, JSON texts through serde_json for StepThreshold, and a
byte-mutation stream for "never crashes" (parsers not modelled)."""
import json
import math
import struct

from tools import vplib

I64_MAX = (1 << 63) - 1
I64_MIN = -(1 << 63)
U64_MAX = (1 << 64) - 1


def bits_of(f):
    return struct.unpack("<Q", struct.pack("<d", f))[0]


def float_of(b):
    return struct.unpack("<d", struct.pack("<Q", b))[0]


FLOAT_BITS = [
    0x0000000000000000, 0x8000000000000000, 0x7FF0000000000000, 0xFFF0000000000000,
    0x7FF8000000000000, 0xFFF8000000000000, 0x7FF0000000000001, 0xFFFFFFFFFFFFFFFF,
    0x7FEFFFFFFFFFFFFF, 0xFFEFFFFFFFFFFFFF, 0x0000000000000001, 0x8000000000000001, 0x000FFFFFFFFFFFFF,
    0x0010000000000000, 0x8010000000000000, 0x3FF0000000000000, 0xBFF0000000000000, 0x3FE0000000000000,
    0x41DFFFFFFFC00000, 0x41E0000000000000, 0x41DFFFFFFFFFFFFF, 0xC1E0000000000000, 0x41F0000000000000,
    0x43E0000000000000, 0xC3E0000000000000, 0x43DFFFFFFFFFFFFF, 0x43F0000000000000,
    bits_of(1000.0), bits_of(86400.0), bits_of(-5.0), bits_of(1e300), bits_of(-1e300), bits_of(1e-300),
    bits_of(0.1), bits_of(-0.1), bits_of(1e-10), bits_of(-1e-10), bits_of(2147483647.5), bits_of(0.9999999999999999),
]
INTS = [0, 1, -1, 5, -5, 10, 20, 1000, 86400, (1 << 31) - 1, 1 << 31, (1 << 31) + 1, 1 << 32, (1 << 53) - 1, 1 << 53,
        (1 << 53) + 1, I64_MAX, I64_MIN, I64_MIN + 1, -(1 << 31), -(1 << 53) - 1, I64_MAX - 1, (1 << 62) + 1]
UINTS = [1 << 63, (1 << 63) + 1, U64_MAX, U64_MAX - 1, (1 << 63) + (1 << 10) + 1]
STRINGS = ["inf", "", "Inf", "INF", "infinity", "inf ", " inf", "nan", "1.0", "-inf", "+inf", "in", "inff", "∞"]
KEYS = ["forward", "backward", "forward", "backward", "Forward", "forwards", "", "backward ", "both", "back"]


def rand_float_bits(rng):
    k = rng.random()
    if k < 0.3:
        return rng.choice(FLOAT_BITS)
    if k < 0.6:
        return bits_of(rng.choice([1, 1, 1, -1]) * rng.random() * 10 ** rng.randint(-6, 12))
    if k < 0.75:
        return (rng.getrandbits(1) << 63) | (rng.randint(0, 2047) << 52) | rng.getrandbits(52)
    if k < 0.85:
        return (rng.getrandbits(1) << 63) | (2047 << 52) | (rng.getrandbits(52) if rng.random() < 0.7 else 0)
    return rng.getrandbits(64)


def rand_scalar(rng, numeric_bias=0.75):
    k = rng.random()
    if k < numeric_bias * 0.55:
        return ("f", rand_float_bits(rng))
    if k < numeric_bias * 0.9:
        return ("i", rng.choice(INTS) if rng.random() < 0.6 else rng.randint(-10 ** rng.randint(1, 18), 10 ** rng.randint(1, 18)))
    if k < numeric_bias:
        return ("u", rng.choice(UINTS))
    k = rng.random()
    if k < 0.7:
        return ("s", "inf" if rng.random() < 0.5 else rng.choice(STRINGS))
    return ("b",) if k < 0.9 else ("q",)


def rand_map(rng):
    n = rng.choice([0, 1, 1, 2, 2, 2, 3, 4])
    es = []
    for _ in range(n):
        key = rng.choice(KEYS) if rng.random() < 0.25 else rng.choice(["forward", "backward"])
        v = rand_scalar(rng) if rng.random() < 0.93 else (("m", []) if rng.random() < 0.5 else ("q",))
        es.append((key, v))
    return ("m", es)


# ---- renderings ---------------------------------------------------------------------------------

def tok(v):
    t = v[0]
    if t == "f":
        return "f%016x" % v[1]
    if t in ("i", "u"):
        return "%s%d" % (t, v[1])
    if t == "s":
        return "s" + (v[1].encode().hex() or "-")
    if t in ("b", "q"):
        return t
    return "m %d %s" % (len(v[1]), " ".join("s%s %s" % (k.encode().hex() or "-", tok(x)) for k, x in v[1]))


def coq_scalar(v):
    t = v[0]
    if t == "f":
        return "(SFloat %d%%Z)" % v[1]
    if t == "i":
        return "(SInt %s)" % vplib.zlit(v[1])
    if t == "u":
        return "(SUInt %d%%Z)" % v[1]
    if t == "s":
        return "(SStr %s)" % vplib.blit(v[1] == "inf")
    return "SOther"


def coq_pval(v):
    return "PComposite" if v[0] in ("m", "q") else "(PScalar %s)" % coq_scalar(v)


def coq_key(k):
    return {"forward": "KForward", "backward": "KBackward"}.get(k, "KOther")


def coq_tval(v):
    if v[0] == "m":
        return "(TMap %s)" % vplib.coq_list(["(%s, %s)" % (coq_key(k), coq_pval(x)) for k, x in v[1]])
    if v[0] == "q":
        return "TSeq"
    return "(TScalar %s)" % coq_scalar(v)


def toml_float(b):
    f = float_of(b)
    if f != f:
        return "-nan" if b >> 63 else "nan"
    if math.isinf(f):
        return "-inf" if f < 0 else "inf"
    r = repr(f)
    if "." not in r and "e" not in r and "E" not in r:
        r += ".0"
    return r


def toml_value(v):
    """TOML text of a value, or None when TOML cannot express it"""
    t = v[0]
    if t == "f":
        return toml_float(v[1])
    if t == "i":
        return str(v[1])
    if t == "u":
        return None
    if t == "s":
        return json.dumps(v[1])
    if t == "b":
        return "true"
    if t == "q":
        return "[1, 2]"
    keys = [k for k, _ in v[1]]
    if len(set(keys)) != len(keys) or any(toml_value(x) is None for _, x in v[1]):
        return None
    return "{ " + ", ".join("%s = %s" % (json.dumps(k), toml_value(x)) if not k.isalpha() else "%s = %s" % (k, toml_value(x)) for k, x in v[1]) + " }"


def json_value(v):
    t = v[0]
    if t == "f":
        f = float_of(v[1])
        if f != f or math.isinf(f):
            return None
        return repr(f) if ("e" in repr(f) or "." in repr(f)) else repr(f) + ".0"
    if t in ("i", "u"):
        return str(v[1])
    if t == "s":
        return json.dumps(v[1])
    if t == "b":
        return "true"
    if t == "q":
        return "[1, 2]"
    parts = []
    for k, x in v[1]:
        jx = json_value(x)
        if jx is None:
            return None
        parts.append("%s: %s" % (json.dumps(k), jx))
    return "{" + ", ".join(parts) + "}"


def json_safe(v):
    """serde_json's default float parser is not correctly rounded for long decimal texts (no float_roundtrip
    feature); the JSON stream therefore only uses floats with at most 6 significant digits, which every parser reads exactly"""
    if v[0] == "f":
        f = float_of(v[1])
        if f != f or math.isinf(f):
            return v
        return ("f", bits_of(float("%.6g" % f)))
    if v[0] == "m":
        return ("m", [(k, json_safe(x)) for k, x in v[1]])
    return v


def as_json_model(v):
    """serde_json hands non-negative integers to visit_u64"""
    if v[0] == "i" and v[1] >= 0:
        return ("u", v[1])
    if v[0] == "m":
        return ("m", [(k, as_json_model(x)) for k, x in v[1]])
    return v


# ---- the property statement on one run (independent of the model) --------------------------------

def number_of(v):
    if v[0] == "f":
        return float_of(v[1])
    if v[0] in ("i", "u"):
        return float(v[1])
    return None


def unsafe_numbers(v):
    """numbers given for a threshold (single form, or the forward/backward parts) that are NaN or negative"""
    vals = []
    if v[0] == "m":
        for k, x in v[1]:
            if k in ("forward", "backward"):
                vals.append(number_of(x))
    else:
        vals.append(number_of(v))
    return [x for x in vals if x is not None and (x != x or x < 0)]


def parse_opts(tokens):
    """options printed as `0` (None) or `1 <raw i64>`"""
    res, i = [], 0
    while i < len(tokens):
        if tokens[i] == "1" and i + 1 < len(tokens):
            res.append(int(tokens[i + 1]))
            i += 2
        else:
            res.append(None)
            i += 1
    return res


def monitor(case, out):
    op = case[0]
    if out and out[0] == "PANIC":
        return ("configuration loading crashes (%s) on %s" % (" ".join(out[1:2]), describe(case)), {"case": describe(case)})
    if not out or out[0] != "0":
        return None
    thresholds = []
    if op in ("T", "P", "J"):
        thresholds = [case[1] if op != "P" else ("m", [("forward", case[1])])]
    elif op == "C" and case[2] is not None:
        thresholds = [v for name, v in case[2] if name != "accumulated-step-panic-threshold"]
    for v in thresholds:
        bad = unsafe_numbers(v)
        if bad:
            return ("a step threshold given as %s (contains %r) is accepted: %s -> %s" % (
                toml_value(v) or tok(v), bad[0], describe(case), " ".join(out)),
                {"case": describe(case), "threshold": toml_value(v) or tok(v)})
    if op in ("T", "P", "J"):
        opts = parse_opts(out[1:])
    elif op == "C":
        opts = parse_opts(out[1:-1])[:4]   # the four threshold directions (not the accumulated one, not the check flag)
    else:
        opts = []
    neg = [x for x in opts if x is not None and x < 0]
    if neg:
        return ("an accepted step threshold is a negative duration (%d): %s" % (neg[0], describe(case)), {"case": describe(case)})
    return None


def describe(case):
    if case[0] in ("C", "J"):
        return "%s %r" % (case[0], case[1] if case[0] == "C" else json_value(case[1]))
    return "%s %s" % (case[0], toml_value(case[1]) or tok(case[1]))


# ---- generators --------------------------------------------------------------------------------------

def gen_values(c):
    rng = c.rng
    thorough = c.tier == "thorough"
    cases = []
    # boundary: every listed float / int / uint / string through every entry point, as single form and as each part
    scalars = [("f", b) for b in FLOAT_BITS] + [("i", z) for z in INTS] + [("u", z) for z in UINTS] + \
              [("s", s) for s in STRINGS] + [("b",), ("q",)]
    for s in scalars:
        cases.append(("T", s))
        cases.append(("P", s))
        cases.append(("T", ("m", [("forward", s)])))
        cases.append(("T", ("m", [("backward", s), ("forward", ("i", 3))])))
        if s[0] != "q":
            cases.append(("N", s))
            cases.append(("A", s))
    # all exponents, both signs
    for e in range(0, 2048, 1 if thorough else 9):
        for sg in (0, 1):
            b = (sg << 63) | (e << 52) | rng.getrandbits(52)
            cases.append(("T", ("f", b)))
            cases.append(("T", ("m", [(rng.choice(["forward", "backward"]), ("f", b))])))
    # maps: key sequences (duplicates, unknown keys, order), composite values
    for ks in ([], ["forward"], ["backward"], ["forward", "backward"], ["backward", "forward"], ["forward", "forward"],
               ["backward", "backward"], ["forward", "backward", "forward"], ["x"], ["forward", "x"], ["x", "forward"],
               ["forward", "backward", "x"], ["Forward"], [""]):
        for _ in range(3):
            cases.append(("T", ("m", [(k, rand_scalar(rng, 0.9)) for k in ks])))
        cases.append(("T", ("m", [(k, ("i", 7)) for k in ks])))
    cases.append(("T", ("m", [("forward", ("m", []))])))
    cases.append(("T", ("m", [("forward", ("q",))])))
    cases.append(("T", ("q",)))
    cases.append(("P", ("m", [])))
    # random
    for _ in range(1500 if not thorough else 25000):
        k = rng.random()
        if k < 0.35:
            cases.append(("T", rand_scalar(rng)))
        elif k < 0.75:
            cases.append(("T", rand_map(rng)))
        elif k < 0.85:
            cases.append(("P", rand_scalar(rng) if rng.random() < 0.9 else rand_map(rng)))
        elif k < 0.93:
            cases.append(("N", rand_scalar(rng, 0.9)))
        else:
            cases.append(("A", rand_scalar(rng, 0.9)))
    return [x for x in cases if not (x[0] in ("N", "A") and x[1][0] in ("m", "q"))]


SECTIONS = [
    '[[source]]\nmode = "server"\naddress = "example.com"\n',
    '[[source]]\nmode = "pool"\naddress = "pool.example.com"\ncount = 4\n',
    '[[source]]\nmode = "nts"\naddress = "nts.example.com"\n',
    '[[server]]\nlisten = "0.0.0.0:123"\n',
    '[observability]\nlog-level = "info"\n',
    '[source-defaults]\npoll-interval-limits = { min = 4, max = 10 }\ninitial-poll-interval = 4\n',
    '[keyset]\nkey-storage-path = "/tmp/verif-c39-keys"\n',
]
FIELDS = ["single-step-panic-threshold", "startup-step-panic-threshold", "accumulated-step-panic-threshold"]
COQ_FIELD = {"single-step-panic-threshold": "FSingle", "startup-step-panic-threshold": "FStartup",
             "accumulated-step-panic-threshold": "FAccum"}


def gen_document(rng, fields):
    """fields: list of (name, value) all expressible in TOML; returns the text"""
    pre = [s for s in SECTIONS if rng.random() < 0.35]
    rng.shuffle(pre)
    sync = "[synchronization]\n"
    extra = []
    if rng.random() < 0.3:
        extra.append("minimum-agreeing-sources = %d\n" % rng.randint(1, 5))
    if rng.random() < 0.2:
        extra.append("local-stratum = %d\n" % rng.randint(1, 16))
    lines = ["%s = %s\n" % (n, toml_value(v)) for n, v in fields]
    pos = [rng.randint(0, len(lines)) for _ in extra]
    for p, e in sorted(zip(pos, extra), reverse=True):
        lines.insert(p, e)
    k = rng.randint(0, len(pre))
    algo = "[synchronization.algorithm]\nsteer-offset-threshold = 2.0\n" if rng.random() < 0.2 else ""
    return "".join(pre[:k]) + sync + "".join(lines) + algo + "".join(pre[k:])


def gen_docs(c):
    rng = c.rng
    thorough = c.tier == "thorough"
    cases = []
    scalars = [("f", b) for b in FLOAT_BITS] + [("i", z) for z in INTS] + [("s", s) for s in STRINGS[:8]] + [("b",), ("q",)]
    # boundary: every numeric field replaced in turn by every special value, the others valid or absent
    for s in scalars:
        for name in FIELDS:
            variants = [s]
            if name != FIELDS[2]:
                variants += [("m", [("forward", s)]), ("m", [("backward", s), ("forward", ("i", 1))])]
            for v in variants:
                others = [(n, rng.choice([("i", 100), ("f", bits_of(0.5)), ("s", "inf")] if n != FIELDS[2] else [("i", 100), ("i", 0)]))
                          for n in FIELDS if n != name and rng.random() < 0.5]
                fields = others + [(name, v)]
                rng.shuffle(fields)
                cases.append(("C", gen_document(rng, fields), fields))
    cases.append(("C", "", []))
    cases.append(("C", "[synchronization]\n", []))
    for _ in range(400 if not thorough else 6000):
        fields = []
        for n in FIELDS:
            if rng.random() < 0.7:
                if n == FIELDS[2]:
                    v = rand_scalar(rng, 0.92)
                else:
                    v = rand_map(rng) if rng.random() < 0.5 else rand_scalar(rng)
                if toml_value(v) is not None:
                    fields.append((n, v))
        rng.shuffle(fields)
        cases.append(("C", gen_document(rng, fields), fields))
    # JSON texts of thresholds (duplicate keys and u64 reach the visitors here)
    for _ in range(300 if not thorough else 4000):
        v = json_safe(rand_map(rng) if rng.random() < 0.6 else rand_scalar(rng))
        if json_value(v) is not None:
            cases.append(("J", v))
    for z in UINTS + INTS:
        cases.append(("J", ("i" if z <= I64_MAX else "u", z)))
        cases.append(("J", ("m", [("forward", ("i" if z <= I64_MAX else "u", z)), ("forward", ("i", 1))])))
    # "never crashes": byte mutations / truncations of valid documents and of the repository's example configuration (not modelled)
    seeds = [x[1] for x in cases if x[0] == "C" and x[1]][:200]
    try:
        seeds.append(open(vplib.REPO + "/docs/examples/conf/ntp.toml.default").read())
        seeds.append(open(vplib.REPO + "/ntp.toml").read())
    except OSError:
        pass
    alphabet = b'=[]{}",.-+_#\n \t0123456789einfa\\\'\x00\xff'
    for _ in range(600 if not thorough else 10000):
        b = bytearray(rng.choice(seeds).encode())
        for _k in range(rng.choice([1, 1, 2, 3, 6])):
            k = rng.random()
            p = rng.randrange(len(b) + 1)
            if k < 0.4 and p < len(b):
                b[p] = rng.choice(alphabet)
            elif k < 0.6:
                b.insert(p, rng.choice(alphabet))
            elif k < 0.8 and p < len(b):
                del b[p]
            elif k < 0.9:
                b = b[:p]
            else:
                q = rng.randrange(len(b) + 1)
                b[p:p] = b[min(p, q):max(p, q)]
        cases.append(("C", bytes(b).decode("utf-8", "replace"), None))
    return cases


def main():
    c = vplib.Check("C39")
    c.run_gate()
    outcome = {}

    # ---- tie 1: value trees through the deserializers (ntp-proto)
    vcases = gen_values(c)

    def coq_case_v(case, out):
        op, v = case
        inp = {"T": "(CThreshold %s)" % coq_tval(v), "P": "(CPart %s)" % coq_pval(v),
               "N": "(CDuration %s)" % coq_scalar(v), "A": "(CAccumulated %s)" % coq_scalar(v)}[op]
        key = op + ":" + (out[0] if out else "?")
        outcome[key] = outcome.get(key, 0) + 1
        if out[0] == "PANIC":
            return inp, "[(-1)%Z]"
        return inp, vplib.coq_list([vplib.zlit(int(x)) for x in out])

    vplib.correspondence(
        c, "ntp-proto", vcases,
        line_of=lambda case: "%s %s" % (case[0], tok(case[1])),
        coq_case_of=coq_case_v,
        preamble="From V Require Import Model.ConfigNum.\n",
        checker="mismatches cfg_list_eqb run_c39",
        monitor=monitor,
        nontrivial=lambda case, out: case[1][0] in ("f", "i", "u", "m"),
        sample_of=lambda case, out: {"op": case[0], "value": toml_value(case[1]) or tok(case[1]), "implementation": " ".join(out)},
        corr_name="correspondence C39 model <-> ntp-proto deserializers (value trees)",
    )
    n1 = c.cov.get("model_cases", 0)
    m1 = c.cov.get("model_mismatches", 0)

    # ---- tie 2: documents (ntpd)
    dcases = gen_docs(c)
    skipped = {"parser": 0, "unmodelled": 0}

    def line_d(case):
        text = case[1] if case[0] == "C" else json_value(case[1])
        return "%s %s" % (case[0], text.encode().hex() or "-")

    def coq_case_d(case, out):
        op = case[0]
        key = op + ":" + (out[0] if out else "?")
        outcome[key] = outcome.get(key, 0) + 1
        if op == "C":
            if case[2] is None:
                skipped["unmodelled"] += 1
                return None
            if out[0] == "9":
                skipped["parser"] += 1
                return None
            inp = "(CSync %s)" % vplib.coq_list(["(%s %s)" % (COQ_FIELD[n], coq_tval(v)) for n, v in case[2]])
            o = out[:-1] if out[0] == "0" else out
        else:
            if out[0] == "9":
                skipped["parser"] += 1
                return None
            inp = "(CThreshold %s)" % coq_tval(as_json_model(case[1]))
            o = out
        if out[0] == "PANIC":
            return inp, "[(-1)%Z]"
        return inp, vplib.coq_list([vplib.zlit(int(x)) for x in o])

    vplib.correspondence(
        c, "ntpd", dcases,
        line_of=line_d,
        coq_case_of=coq_case_d,
        preamble="From V Require Import Model.ConfigNum.\n",
        checker="mismatches cfg_list_eqb run_c39",
        monitor=monitor,
        nontrivial=lambda case, out: case[0] == "J" or case[2] is None or len(case[2]) > 0,
        key_of=lambda case: (case[0], case[1] if case[0] == "C" else json_value(case[1])),
        sample_of=lambda case, out: {"op": case[0], "text": (case[1] if case[0] == "C" else json_value(case[1]))[:300], "implementation": " ".join(out)},
        corr_name="correspondence C39 model <-> ntpd Config loader (documents)",
    )
    c.cov["model_cases"] = n1 + c.cov.get("model_cases", 0)
    c.cov["model_mismatches"] = m1 + c.cov.get("model_mismatches", 0)
    c.cov["distribution"] = {"value_tree_cases": len(vcases), "document_cases": len(dcases),
                             "documents_not_modelled_mutation_stream": skipped["unmodelled"],
                             "documents_rejected_by_text_parser_or_other_field": skipped["parser"],
                             "outcomes(op:class, 0=accepted 1=invalid value 2=invalid type 3=duplicate 4=unknown field 9=other)": outcome}
    c.cov["rule"] = ("tie 1: every listed boundary float (all IEEE classes, sign, subnormals, i32/i64 second limits), i64/u64 integer and string, "
                     "as single number and as forward/backward part, through StepThreshold, ThresholdPart, NtpDuration and the accumulated-threshold "
                     "deserializers with exact bits; an exponent sweep; all key sequences (duplicates, unknown, order); random trees.  tie 2: complete "
                     "TOML documents with each numeric field replaced in turn by each special value (others valid/absent, random order, random other "
                     "sections) through toml::from_str::<Config> + check(); JSON threshold texts through serde_json; byte-mutated documents "
                     "(crash monitor only).  The compared output is the error class or the exact raw NtpDuration of every threshold direction.  "
                     "non-trivial = numeric or map-valued inputs / documents with at least one threshold field")
    c.assumptions += [
        "hand-written model coq/Model/ConfigNum.v of the visitors; the TOML and JSON text parsers, serde's derive/flatten plumbing and the other "
        "configuration fields are not modelled (documents rejected for other reasons are not compared, only monitored for crashes)",
        "NtpDuration::from_seconds modelled on primitive floats (Base/D3Float.v), compared bit for bit through the raw durations",
        "release profile in the harness; the debug profile differs only by the from_seconds assertion, proved unreachable (C39_no_crash_partial, C39_profiles_agree)",
    ]
    return c.finish()


MANIFEST = {
    "claimed": True,
    "text": "Theorems (Coq, every value a serde format can hand to the visitors: floats as all 64-bit patterns, i64/u64, strings, booleans, maps with any "
            "key sequence, sequences; both build profiles): a step threshold is accepted in the single-number form only as \"inf\" or a number that is "
            "not NaN, not infinite and not below zero (C39_single_form), and in the per-direction form each direction is \"inf\"/absent or such a number "
            "(C39_parts, C39_part_accept; bit-level characterisation C39_good_number_bits); the converted value NtpDuration::from_seconds(f) of such a number is "
            ">= 0, so every accepted direction is absent or a non-negative duration (C39_duration_nonneg, C39_thresholds_nonneg: integer-level proof over "
            "the SpecFloat semantics of floor/sub/mul/casts); the thresholds of a loaded [synchronization] section are "
            "good for every entry list (C39_loaded_section); no value reaches the from_seconds debug assertion and debug/release agree "
            "(C39_no_crash_partial, C39_profiles_agree). Model of the repaired code (fix-c39).",
    "note": "PARTIAL: 'never crashes' is proved only for the numeric visitors; the TOML/JSON parsers, serde derive/flatten, the remaining fields and "
            "Config::check are not modelled and are covered by generated + byte-mutated documents under catch_unwind (testing). "
            "Trusted: Coq kernel+vm_compute, FloatAxioms (Prim2SF_SF2Prim, Prim2SF_valid, eqb_spec, ltb_spec, sub_spec, mul_spec) + classical/funext "
            "axioms via Flocq IEEE754.Bits, hand-written model, harness (own minimal serde Deserializer), driver. "
            "Observation outside the property text: accumulated-step-panic-threshold accepts negative numbers (NtpDuration's deserializer only rejects NaN/inf).",
    "design_ref": "DESIGN.md 3 C39, 4 row 9",
}
