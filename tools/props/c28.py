"""C28: NTS key exchange negotiates only mutually supported parameters.
Model: coq/Model/NtsKe.v (handle_new for key-exchange requests, client_process = the client with the
membership test of branch fix-c28); theorems: coq/Props/C28.v; tie: the real KeyExchangeServer against a
scripted TLS client and the real KeyExchangeClient::exchange_keys against a scripted TLS server, over an
in-memory TLS session with the repository's test keys (harness/ntp-proto/c28.rs + ntske_common.rs)."""
import itertools

from tools import vplib
from tools.props import c30 as g
from tools.props import n2ke as k

PROTO_IDS = [0, 0x8001, 1]
ALG_IDS = [15, 17, 99]
VERSIONS = ["", "4", "5", "45", "54", "3", "345"]


def ordered_lists(ids):
    out = [[]]
    for n in (1, 2, 3):
        out += [list(p) for p in itertools.permutations(ids, n)]
    return out


def response_bytes(proto, alg, ncookies, server=None, port=None, extra=b""):
    b = b""
    if proto is not None:
        b += g.rec(1, g.u16list(proto))
    if alg is not None:
        b += g.rec(4, g.u16list(alg))
    for i in range(ncookies):
        b += g.rec(5, bytes([i + 1]) * (3 + i))
    if server is not None:
        b += g.rec(6, server)
    if port is not None:
        b += g.rec(7, g.be16(port))
    return b + extra + g.rec(0, b"")


def build_cases(c):
    rng = c.rng
    thorough = c.tier == "thorough"
    cases = []
    plists, alists = ordered_lists(PROTO_IDS), ordered_lists(ALG_IDS)
    # 1. the server's choice: client preference lists x accepted-version sets
    matrix = []
    if thorough:
        matrix = [(p, a, v) for p in plists for a in alists for v in VERSIONS]
    else:
        matrix += [(p, [17, 15], v) for p in plists for v in VERSIONS]
        matrix += [([0x8001, 0], a, "45") for a in alists]
        matrix += [(rng.choice(plists), rng.choice(alists), rng.choice(VERSIONS)) for _ in range(40)]
    for p, a, v in matrix:
        denied = [b"bad.example"] if rng.random() < 0.2 else []
        cases.append(k.srv_case(v, [], k.req_ke(p, a, denied), rng.randint(0, 1),
                                server=rng.choice([None, None, "ntp.example"]), port=rng.choice([None, 4123]),
                                meta={"first": {"kind": "ke", "protos": p, "algs": a}}))
    # repeated ids and long lists
    for _ in range(20 if not thorough else 200):
        p = [rng.choice(PROTO_IDS + [2, 0xFFFF]) for _ in range(rng.randint(0, 6))]
        a = [rng.choice(ALG_IDS + [16, 0]) for _ in range(rng.randint(0, 6))]
        cases.append(k.srv_case(rng.choice(VERSIONS), [], k.req_ke(p, a), 0, meta={"first": {"kind": "ke", "protos": p, "algs": a}}))
    n_srv = len(cases)
    # 2. the client: offered lists x well-formed responses naming offered and unoffered parameters
    offers = [([0], [17, 15]), ([0x8001], [17, 15]), ([0x8001, 0], [17, 15]), ([0], [15]), ([0x8001, 0], [17]), ([1, 0], [17, 15]), ([], [])]
    for protos, algs in offers:
        for rp in PROTO_IDS:
            for ra in ALG_IDS:
                for nck in ((0, 1, 8) if not thorough else (0, 1, 7, 8, 9)):
                    cases.append(k.cli_case(protos, algs, [], response_bytes([rp], [ra], nck,
                                                                             server=rng.choice([None, b"other.example"]),
                                                                             port=rng.choice([None, 4460])),
                                            meta={"resp": {"proto": rp, "alg": ra, "cookies": nck}}))
    # no-overlap answers, error answers, missing parts, denied servers in the request
    for protos, algs in offers[:3]:
        cases.append(k.cli_case(protos, algs, [b"a.example", b"b"], response_bytes([], None, 0)))
        cases.append(k.cli_case(protos, algs, [], response_bytes([protos[0]], [], 0)))
        cases.append(k.cli_case(protos, algs, [], g.rec(2, g.be16(1)) + g.rec(0, b"")))
        cases.append(k.cli_case(protos, algs, [], g.rec(3, g.be16(7)) + g.rec(0, b"")))
        cases.append(k.cli_case(protos, algs, [], response_bytes(None, [15], 2)))
        cases.append(k.cli_case(protos, algs, [], response_bytes([protos[0], 0], [15], 2)))
        cases.append(k.cli_case(protos, algs, [], response_bytes([protos[0]], [15], 2, extra=g.rec(77, b"x", 1))))
        cases.append(k.cli_case(protos, algs, [], b""))
    for _ in range(60 if not thorough else 800):
        protos, algs = rng.choice(offers)
        cases.append(k.cli_case(protos, algs, [], g.rand_message(rng, "resp")))
    for v in ("V4", "V5", "UP"):
        cases.append({"k": "newcli", "v": v})
    return cases, n_srv


def monitor(case, out):
    """the property statement on one implementation run (independent of the Coq model)"""
    if out and out[0] in ("PANIC", "TIMEOUT"):
        return ("key exchange %s" % out[0], {})
    if case["k"] == "newcli":
        return None
    toks, ints = k.split_out(case, out)
    tbl = k.table(toks)
    if case["k"] == "srv":
        first = (case.get("meta") or {}).get("first") or {}
        if first.get("kind") != "ke":
            return None
        accepted = k.server_protocols(case["versions"])
        p = next((x for x in first["protos"] if x in accepted), None)
        a = next((x for x in first["algs"] if x in (15, 17)), None)
        msgs = k.messages(k.parse_items(ints[3:]))
        if len(msgs) != 1:
            return ("key-exchange request answered with %d messages" % len(msgs), {})
        m = msgs[0]
        recs = [(it[1] & 0x7FFF, it[2]) for it in m if it[0] == "rec"]
        cookies = [it for it in m if it[0] in ("cookie", "badcookie") or (it[0] == "rec" and it[1] & 0x7FFF == 5)]
        if p is None:
            ok = recs == [(1, b""), (0, b"")] and not cookies
        elif a is None:
            ok = recs == [(1, g.be16(p)), (4, b""), (0, b"")] and not cookies
        else:
            want = ("cookie", a) + tbl[(p, a)]
            ok = (recs[:2] == [(1, g.be16(p)), (4, g.be16(a))] and len(cookies) == 8 and all(ck == want for ck in cookies))
        if not ok:
            return ("server with accepted protocols %s answered the client lists protocols=%s algorithms=%s with records %s and %d cookies; "
                    "the first mutually supported pair is %s/%s" % (accepted, first["protos"], first["algs"],
                                                                    [(t, b.hex()) for t, b in recs][:6], len(cookies), p, a), {})
        return None
    # client case
    n = ints[0]
    res = ints[1 + n:]
    if res[0] != 0:
        return None
    version, port = res[1], res[2]
    i = 3
    ln = res[i]; i += 1 + ln
    lc = res[i]; c2s = bytes(res[i + 1:i + 1 + lc]); i += 1 + lc
    ls = res[i]; s2c = bytes(res[i + 1:i + 1 + ls]); i += 1 + ls
    proto = {4: 0, 5: 0x8001}.get(version)
    alg = {32: 15, 64: 17}.get(lc)
    if proto not in case["protos"]:
        return ("client that offered protocols %s adopted protocol version %s named by the response" % (case["protos"], version),
                {"class": "client-adopts-unoffered-protocol"})
    if alg not in case["algs"]:
        return ("client that offered algorithms %s adopted a %d-byte key algorithm named by the response" % (case["algs"], lc),
                {"class": "client-adopts-unoffered-algorithm"})
    if (c2s, s2c) != tbl.get((proto, alg)):
        return ("client keys differ from the keys exported from the TLS session for protocol %s algorithm %s" % (proto, alg), {})
    return None


def main():
    c = vplib.Check("C28")
    c.run_gate()
    cases, n_srv = build_cases(c)
    cases = vplib.replay_cases() or cases
    stats = {"server_full_response": 0, "server_no_overlap": 0, "client_ok": 0, "client_err": 0}

    def nontrivial(case, out):
        if out and out[0] in ("PANIC", "TIMEOUT") or case["k"] == "newcli":
            return True
        ints = [int(x) for x in out[8:]]
        if case["k"] == "srv":
            stats["server_full_response" if ints[0] == 0 else "server_no_overlap"] += 1
            return True
        res = ints[1 + ints[0]:]
        stats["client_ok" if res[0] == 0 else "client_err"] += 1
        return True

    vplib.correspondence(
        c, "ntp-proto", cases, line_of=k.line_of, coq_case_of=k.coq_case_of, preamble=k.PREAMBLE, checker=k.CHECKER,
        monitor=monitor, nontrivial=nontrivial, shard=max(1, -(-len(cases) // vplib.NCPU)),
        sample_of=lambda case, out: {"case": {x: case[x] for x in case if x not in ("stream", "resp")},
                                     "result": " ".join(out[8:])[:120]},
    )
    c.cov["distribution"] = {"server_cases": n_srv, "client_cases": len(cases) - n_srv - 3, "total": len(cases), "outcomes": stats}
    c.cov["exhaustive"] = c.tier == "thorough"
    c.cov["rule"] = ("server: client protocol lists (all ordered lists without repetition over {NTPv4, NTPv5, unknown}, plus lists with "
                     "repetitions) x algorithm lists (same over {256, 512, unknown}) x accepted-version sets {none,4,5,45,54,3,345} "
                     "(thorough: the full product, quick: all protocol lists x all version sets, all algorithm lists, 40 random "
                     "triples); client: 7 offered list pairs x response protocol x response algorithm x cookie count, no-overlap / "
                     "error / malformed responses; KeyExchangeClient::new for the three configurations.  Compared: every record the "
                     "peer received, decoded cookies, results, keys (against the session's exporter)")
    c.assumptions += [
        "hand-written model coq/Model/NtsKe.v over the C30 parser model; tied by the correspondence above",
        "the TLS exporter is an oracle shared by both ends (its values are read from the session by the harness with the RFC 8915 context written out independently); the cookie codec is the key set's (C26): cookies are compared decoded",
        "the client model is the repaired client (branch fix-c28)",
    ]
    return c.finish()


MANIFEST = {
    "claimed": True,
    "text": "Theorems (Coq, every client preference list, accepted-version list, exporter and response byte stream): the server answers a key-exchange request with the first client-listed protocol it accepts and the first client-listed algorithm it supports, else the no-overlap answers (C28_server_choice, C28_accepts_supported); every cookie in its answer is one of exactly eight carrying the keys exported for that pair (C28_server_cookies); the (repaired) client returns Ok only with a protocol and an algorithm it offered, the keys exported for exactly that pair and the matching protocol version (C28_client_offered, for every response byte stream); its request parses to a key-exchange request with exactly its lists (C28_client_request); client and server over one session: on success the client has the server's choice, the exported keys, and eight cookies each decoding to exactly those keys (C28_same_keys, for every cookie codec with the C26 round trip). Tie: real server vs scripted TLS client and real KeyExchangeClient::exchange_keys vs scripted TLS server over tokio duplex + rustls (not a function-level tie).",
    "note": 'The client model is the REPAIRED client (branch fix-c28 in /repo: membership test after KeyExchangeResponse::parse); on the unrepaired tree the check reports VIOLATION with the concrete response (offered [NTPv4], response names NTPv5 -> V5 adopted; also unoffered algorithm). Trusted: Coq kernel+vm_compute; hand-written model coq/Model/NtsKe.v over the C30 parser model; the TLS exporter is an oracle shared by both ends (RFC 5705 agreement; values read by the harness with the RFC 8915 context written out independently of NtsKeys::extract_from_connection); cookie codec abstract with the C26 round trip as hypothesis of C28_same_keys, together with: configured server name is valid UTF-8, response within the 4096-byte cap; exporter failure (InternalServerError path) not modelled. Print Assumptions: closed under the global context (hypotheses are in the statements).',
    "design_ref": 'DESIGN.md 3 C28',
}
