"""C05: offset and delay follow the NTP on-wire formulas.
Model: coq/Model/Measure.v (+ Model/TimeTypes.v); theorems: coq/Props/C05.v;
tie: NtpSource::handle_incoming -> measurements_from_packet -> TwoWaySourceControllerWrapper /
OneWaySourceControllerWrapper::handle_measurement with a recording inner controller
(harness/ntp-proto/c05.rs)."""
import glob
import json
import os

from tools import vplib

M64 = 1 << 64
H64 = 1 << 63


def s64(x):
    """the signed 64-bit representative of x"""
    return ((x + H64) % M64) - H64


def in_i64(x):
    return -H64 <= x < H64


def tquot2(x):
    """halving that truncates toward zero"""
    return -((-x) // 2) if x < 0 else x // 2


# ---------------------------------------------------------------------------------------
# cases.  A case is a dict:  mode 0: {"mode":0, "ex":[(id,T1,T2,T3,T4),...], "truth":[(t1,t2,t3,t4),...]}
#                            mode 1: {"mode":1, "ms":[(sender,s_ts,r_ts),...]}
#                            mode 2: {"mode":2, "s":Ts, "r":Tr, "truth":(ts,tr)}
# ---------------------------------------------------------------------------------------

def rand_signed(rng):
    """a signed difference with magnitude class chosen first (small .. beyond 2^63)"""
    k = rng.choice([0, 1, 8, 16, 31, 32, 33, 40, 48, 56, 61, 62, 63, 63, 64])
    mag = rng.randrange(0, 1 << k) if k else 0
    if rng.random() < 0.15 and k:
        mag = (1 << k) - rng.choice([0, 1, 2])          # at the power of two
    return mag if rng.random() < 0.5 else -mag


def rand_instant(rng):
    c = rng.random()
    if c < 0.25:
        return rng.randrange(0, M64)
    if c < 0.45:
        return M64 * rng.choice([1, 1, 2, 5]) - rng.randrange(0, 1 << 34)     # just before an era boundary
    if c < 0.6:
        return M64 * rng.choice([0, 1, 3]) + rng.randrange(0, 1 << 34)        # just after
    if c < 0.75:
        return H64 + rng.randrange(-(1 << 34), 1 << 34) + M64 * rng.choice([0, 1])  # era midpoint
    if c < 0.85:
        return rng.choice([0, 1, 2, H64 - 1, H64, H64 + 1, M64 - 2, M64 - 1, M64, M64 + 1])
    return rng.randrange(0, 4 * M64)


def exchange_from_truth(t):
    return tuple(x % M64 for x in t)


def gen_structured(rng):
    """a physically plausible exchange: small delays, an arbitrary clock offset theta"""
    t1 = rand_instant(rng)
    theta = rand_signed(rng) if rng.random() < 0.7 else rng.randrange(-(1 << 33), 1 << 33)
    d12 = rng.randrange(0, 1 << rng.choice([8, 20, 28, 32, 34]))
    d34 = rng.randrange(0, 1 << rng.choice([8, 20, 28, 32, 34]))
    p = rng.randrange(0, 1 << rng.choice([4, 16, 24, 30]))
    t2 = t1 + d12 + theta
    t3 = t2 + p
    t4 = t1 + d12 + p + d34
    return (t1, t2, t3, t4)


def gen_free(rng):
    """any signs and magnitudes (also non-physical: negative delays)"""
    t1 = rand_instant(rng)
    t2 = t1 + rand_signed(rng)
    t4 = t1 + rand_signed(rng)
    t3 = (t2 if rng.random() < 0.5 else t4) + rand_signed(rng)
    return (t1, t2, t3, t4)


def gen_sum_boundary(rng):
    """(t2-t1)+(t3-t4) or (t4-t1)-(t3-t2) within 2 units of +-2^63, each difference representable"""
    target = rng.choice([H64, -H64]) + rng.choice([-2, -1, 0, 1, 2])
    t1 = rand_instant(rng)
    if rng.random() < 0.5:
        # offset sum x + y = target
        lo, hi = max(-H64, target - (H64 - 1)), min(H64 - 1, target + H64)
        x = rng.randint(lo, hi)
        y = target - x
        t2 = t1 + x
        t4 = t1 + rng.randrange(-(1 << 40), 1 << 40)
        t3 = t4 + y
    else:
        # delay u - v = target
        lo, hi = max(-H64, target - H64), min(H64 - 1, target + H64 - 1)
        u = rng.randint(lo, hi)
        v = u - target
        t4 = t1 + u
        t2 = t1 + rng.randrange(-(1 << 40), 1 << 40)
        t3 = t2 + v
    return (t1, t2, t3, t4)


def gen_diff_boundary(rng):
    """one of the four differences exactly at the edge of the representable range"""
    edge = rng.choice([H64 - 1, -H64, H64, -H64 - 1, H64 - 2, -H64 + 1])
    t1 = rand_instant(rng)
    small = lambda: rng.randrange(-(1 << 33), 1 << 33)
    which = rng.randrange(4)
    if which == 0:
        t2 = t1 + edge; t4 = t1 + small(); t3 = t4 + small()
    elif which == 1:
        t2 = t1 + small(); t4 = t1 + small(); t3 = t4 + edge
    elif which == 2:
        t4 = t1 + edge; t2 = t1 + small(); t3 = t2 + small()
    else:
        t2 = t1 + small(); t3 = t2 + edge; t4 = t1 + small()
    return (t1, t2, t3, t4)


POOL = [0, 1, 2, H64 - 1, H64, H64 + 1, M64 - 1]


def truth_of_wire(T):
    """some true instants consistent with the wire timestamps (the shortest differences)"""
    T1, T2, T3, T4 = T
    t1 = T1
    t2 = t1 + s64(T2 - T1)
    t4 = t1 + s64(T4 - T1)
    t3 = t4 + s64(T3 - T4)
    return (t1, t2, t3, t4)


def expected_by_property(t):
    """the property statement on true instants: (offset or None, delay or None);
    None = the statement makes no claim (differences or combination not representable)"""
    t1, t2, t3, t4 = t
    off = dly = None
    if in_i64(t2 - t1) and in_i64(t3 - t4) and in_i64((t2 - t1) + (t3 - t4)):
        off = tquot2((t2 - t1) + (t3 - t4))
    if in_i64(t4 - t1) and in_i64(t3 - t2) and in_i64((t4 - t1) - (t3 - t2)):
        dly = (t4 - t1) - (t3 - t2)
    return off, dly


def monitor(case, out):
    if out and out[0] == "PANIC":
        return ("measurement path panics on %r: %s" % (case, " ".join(out)), {"case": case})
    if case["mode"] == 0:
        n = len(case["ex"])
        vals = [] if out == ["-"] else [int(x) for x in out]
        if len(vals) != 3 * n:
            return ("%d exchanges delivered %d measurements to the clock filter" % (n, len(vals) // 3), {"case": case})
        for i, (ex, t) in enumerate(zip(case["ex"], case["truth"])):
            dly, off, local = vals[3 * i:3 * i + 3]
            eo, ed = expected_by_property(t)
            if eo is not None and off != eo:
                return ("exchange T1..T4=%s (true instants %s): offset fed to the filter is %d, "
                        "((t2-t1)+(t3-t4))/2 = %d" % (ex[1:], t, off, eo), {"case": case, "exchange": i})
            if ed is not None and dly != ed:
                return ("exchange T1..T4=%s (true instants %s): delay fed to the filter is %d, "
                        "(t4-t1)-(t3-t2) = %d" % (ex[1:], t, dly, ed), {"case": case, "exchange": i})
        return None
    if case["mode"] == 2:
        ts, tr = case["truth"]
        if out == ["-"]:
            return ("one-way measurement not delivered", {"case": case})
        if in_i64(ts - tr) and int(out[0]) != ts - tr:
            return ("one-way source: offset %s, remote minus local = %d" % (out[0], ts - tr), {"case": case})
        return None
    return None


def line_of(case):
    if case["mode"] == 0:
        return "0 " + " ".join(" ".join(str(x) for x in ex) for ex in case["ex"])
    if case["mode"] == 1:
        return "1 " + " ".join(" ".join(str(x) for x in m) for m in case["ms"])
    return "2 %d %d" % (case["s"], case["r"])


def flat_of(case):
    if case["mode"] == 0:
        return [0] + [x for ex in case["ex"] for x in ex]
    if case["mode"] == 1:
        return [1] + [x for m in case["ms"] for x in m]
    return [2, case["s"], case["r"]]


def coq_case(case, out):
    if out and out[0] == "PANIC":
        o = [-1]
    elif out == ["-"]:
        o = []
    else:
        o = [int(x) for x in out]
    return (vplib.coq_list([vplib.zlit(x) for x in flat_of(case)]),
            vplib.coq_list([vplib.zlit(x) for x in o]))


def mk0(truths):
    return {"mode": 0, "ex": [(1,) + exchange_from_truth(t) for t in truths], "truth": [tuple(t) for t in truths]}


def load_corpus():
    cases = []
    for f in sorted(glob.glob(os.path.join(vplib.VERIF, "corpus", "C05", "*.json"))):
        for c in json.load(open(f)):
            if "truth" in c:
                c["truth"] = [tuple(t) for t in c["truth"]] if c["mode"] == 0 else tuple(c["truth"])
            if "ex" in c:
                c["ex"] = [tuple(e) for e in c["ex"]]
            if "ms" in c:
                c["ms"] = [tuple(e) for e in c["ms"]]
            cases.append(c)
    return cases


def main():
    c = vplib.Check("C05")
    c.run_gate()
    rng = c.rng
    thorough = c.tier == "thorough"
    scale = 8 if thorough else 1
    cases = load_corpus()
    n_corpus = len(cases)
    dist = {"corpus": n_corpus}
    # 1. boundary grid: every quadruple over the pool of extreme wire values (exhaustive, 7^4)
    grid = 0
    for a in POOL:
        for b in POOL:
            for cc in POOL:
                for d in POOL:
                    T = (a, b, cc, d)
                    cases.append({"mode": 0, "ex": [(1,) + T], "truth": [truth_of_wire(T)]})
                    grid += 1
    dist["grid_pool7^4"] = grid
    # 2. structured / free / boundary streams on true instants
    for name, gen, n in (("structured", gen_structured, 2500), ("free", gen_free, 2000),
                         ("sum_boundary", gen_sum_boundary, 1200), ("diff_boundary", gen_diff_boundary, 600)):
        for _ in range(n * scale):
            cases.append(mk0([gen(rng)]))
        dist[name] = n * scale
    # 3. uniform wire quadruples (no true instants given: the shortest differences are taken)
    for _ in range(500 * scale):
        T = tuple(rng.randrange(0, M64) for _ in range(4))
        cases.append({"mode": 0, "ex": [(1,) + T], "truth": [truth_of_wire(T)]})
    dist["uniform_wire"] = 500 * scale
    # 4. histories: several exchanges through the same source and wrapper (state must not leak)
    for _ in range(300 * scale):
        k = rng.randint(2, 8)
        cases.append(mk0([rng.choice([gen_structured, gen_free, gen_sum_boundary])(rng) for _ in range(k)]))
    dist["histories"] = 300 * scale
    # 5. raw measurement sequences in any order through the wrapper's public interface
    for _ in range(800 * scale):
        k = rng.randint(1, 10)
        ms = []
        for _ in range(k):
            sender = rng.choice([0, 0, 1, 1, 1, 2, 77, M64 - 1])
            a = rand_instant(rng) % M64
            b = (a + rand_signed(rng)) % M64
            ms.append((sender, a, b))
        cases.append({"mode": 1, "ms": ms})
    dist["raw_sequences"] = 800 * scale
    # 6. one-way pairs
    for _ in range(1000 * scale):
        tr = rand_instant(rng)
        ts = tr + (rand_signed(rng) if rng.random() < 0.8 else rng.choice([H64 - 1, -H64, H64, -H64 - 1, 0, 1, -1]))
        cases.append({"mode": 2, "s": ts % M64, "r": tr % M64, "truth": (ts, tr)})
    for a in POOL:
        for b in POOL:
            t = (b + s64(a - b), b)
            cases.append({"mode": 2, "s": a, "r": b, "truth": t})
    dist["oneway"] = 1000 * scale + len(POOL) ** 2

    # measured outcome classes of the two-way exchanges
    cls = {"offset_claimed": 0, "delay_claimed": 0, "offset_saturating": 0, "delay_saturating": 0,
           "era_crossing": 0, "odd_sum": 0, "negative_offset": 0}
    for case in cases:
        if case["mode"] != 0:
            continue
        for t in case["truth"]:
            eo, ed = expected_by_property(t)
            cls["offset_claimed"] += eo is not None
            cls["delay_claimed"] += ed is not None
            s = (t[1] - t[0]) + (t[2] - t[3])
            cls["offset_saturating"] += (in_i64(t[1] - t[0]) and in_i64(t[2] - t[3]) and not in_i64(s))
            cls["delay_saturating"] += (in_i64(t[3] - t[0]) and in_i64(t[2] - t[1]) and not in_i64((t[3] - t[0]) - (t[2] - t[1])))
            cls["era_crossing"] += len({x // M64 for x in t}) > 1
            cls["odd_sum"] += s % 2
            cls["negative_offset"] += s < 0
    dist["exchange_classes"] = cls
    dist["total"] = len(cases)
    c.cov["distribution"] = dist
    c.cov["rule"] = ("two-way: true instants t1..t4 (several eras, era boundaries and midpoints, offsets and delays of every "
                     "magnitude class up to beyond 2^63, sums within 2 units of +-2^63, single differences at the edge of i64), "
                     "reduced mod 2^64 and driven end to end through NtpSource::handle_timer/handle_incoming with a forged "
                     "server response into the real wrapper; exhaustive 7^4 grid of extreme wire values; uniform wire "
                     "quadruples; multi-exchange histories; raw measurement sequences in arbitrary order; one-way pairs. "
                     "non-trivial = at least one measurement delivered with a non-zero offset or delay")
    c.cov["exhaustive"] = False

    def nontrivial(case, out):
        return out != ["-"] and out[0] != "PANIC" and any(x != "0" for i, x in enumerate(out) if case["mode"] == 2 and i % 2 == 0 or case["mode"] != 2 and i % 3 != 2)

    vplib.correspondence(
        c, "ntp-proto", cases,
        line_of=line_of,
        coq_case_of=coq_case,
        preamble="From V Require Import Model.Measure.\n",
        checker="mismatches list_eqb run_measure",
        monitor=monitor,
        nontrivial=nontrivial,
        shard=700,
        sample_of=lambda case, out: {"harness_input": line_of(case)[:200], "true_instants": str(case.get("truth"))[:200],
                                     "delivered(delay offset localtime)": " ".join(out)[:200]},
    )
    c.assumptions += [
        "hand-written model of measurements_from_packet and of the two wrappers' handle_measurement (coq/Model/Measure.v), "
        "tied to the code by the correspondence above on every run",
        "the fields of Measurement/InternalMeasurement other than ids, timestamps, delay, offset, localtime are copied "
        "through by the code and not modelled",
        "reading (DESIGN.md section 5): 'representable' = both differences and their combination fit i64; halving truncates toward zero",
        "source ids come from ClockId::new() which starts at 1, so id <> ClockId::SYSTEM (hypothesis of C05_exchange/C05_history)",
    ]
    return c.finish()


MANIFEST = {
    "claimed": True,
    "text": "Theorems (Coq, closed under the global context, all inputs): for all true instants t1..t4 (unbounded integers, any era) "
            "observed as 64-bit NTP timestamps Ti = ti mod 2^64, from any prior wrapper state, one accepted response delivers exactly "
            "one measurement to the clock filter with offset = ((t2-t1)+(t3-t4)) quot 2, delay = (t4-t1)-(t3-t2), localtime = T4, "
            "whenever the differences and their combination fit the i64 duration type (C05_exchange, C05_offset, C05_delay, C05_era); "
            "otherwise the combination saturates with the sign of the true value (C05_saturation); the halving truncates toward zero "
            "losing at most one unit (C05_halving); every exchange of every history is computed from its own four timestamps only "
            "(C05_history, no hypotheses on the timestamps); the wrapper cannot panic (C05_no_panic); one-way sources report "
            "remote minus local (C05_oneway). The model is tied to the code end to end (forged server response through "
            "NtpSource::handle_incoming into the real wrappers) on ~10^4 generated cases per run.",
    "note": "Trusted: Coq kernel+vm_compute; hand-written model coq/Model/Measure.v + Model/TimeTypes.v; harness + python driver; the "
            "reading of 'representable' and of the halving (DESIGN.md 5); id <> ClockId::SYSTEM for real sources (ClockId::new starts "
            "at 1). Model of NtpDuration division is the repaired saturating_div (branch fix-c32); for the divisor 2 used here it "
            "coincides with the unrepaired code, so C05 holds on both trees. Print Assumptions: closed under the global context.",
    "design_ref": "DESIGN.md 3 C05",
}
