"""C23: the NTP packet decoder is total.  Model: coq/Model/{Bytes,ExtField,Packet}.v; theorems:
coq/Props/C23.v; tie: NtpPacket::deserialize through harness/ntp-proto/c23.rs in the three key
contexts (NoCipher; a client cipher = table oracle chosen here, or the real AES-SIV; the server
KeySet with real AES-SIV and genuine cookies made by the implementation in a first harness pass)."""
import os

from tools import vplib
from tools.props import p1gen as g

KEYS = [bytes(range(64)), bytes(range(100, 164)), bytes((7 * i + 3) % 256 for i in range(64))]


def monitor(case, out):
    """the property itself: decoding terminates with a packet or an error and never panics"""
    if out and out[0] == "PANIC":
        return ("NtpPacket::deserialize panics (%s) in context %s on the %d-byte datagram %s" % (
            " ".join(out[1:])[:120], case["ctx"], len(case["data"]), g.hexs(case["data"])[:400]),
            {"context": case["ctx"], "datagram_hex": g.hexs(case["data"])})
    return None


def line_of(case):
    d = g.hexs(case["data"])
    if case["ctx"] == "N":
        return "N " + d
    if case["ctx"] == "C":
        t = case["table"]
        return "C %s %d %s" % (d, len(t), " ".join(" ".join(g.hexs(x) for x in e) for e in t))
    if case["ctx"] == "R":
        return "R %s %s" % (g.hexs(case["key"]), d)
    if case["ctx"] == "S":
        return "S %d %d %s %s" % (case["id_offset"], len(case["keys"]), " ".join(g.hexs(k) for k in case["keys"]), d)
    raise ValueError


def coq_ctx(case):
    if case["ctx"] == "N":
        return "NoKeys", "[]"
    if case["ctx"] == "C":
        tab = "[" + ";".join("(%s,%s,%s,%s,%s)" % ("[1]", g.coq_bytes(n), g.coq_bytes(a), g.coq_bytes(c), g.coq_bytes(p))
                             for n, a, c, p in case["table"]) + "]"
        return "ClientKey [1]", tab
    tab = "[" + ";".join("(%s,%s,%s,%s,%s)" % tuple(g.coq_bytes(x) for x in e) for e in case["table"]) + "]"
    if case["ctx"] == "R":
        return "ClientKey %s" % g.coq_bytes(case["key"]), tab
    return "ServerKeys [%s] %d" % (";".join(g.coq_bytes(k) for k in case["keys"]), case["id_offset"]), tab


EXCLUDED = {"c24_class": 0}


def coq_case(case, out):
    if g.in_c24_class(case["data"], [e[-1] for e in case.get("table") or []]):
        EXCLUDED["c24_class"] += 1
        return None
    cx, tab = coq_ctx(case)
    if out and out[0] == "PANIC":
        o = "[3;0]"
    else:
        o = g.coq_nums(out)
    return "((%s, (%s : table), %s) : ctx * table * bytes)" % (cx, tab, g.coq_bytes(case["data"])), "(%s : list Z)" % o


def material(c, exe, rng, n):
    """first harness pass: genuine cookies, NTS requests and responses with their AEAD tuples"""
    lines, metas = [], []
    for i in range(n):
        nk = rng.choice([1, 2, 3])
        keys = KEYS[:nk]
        primary = rng.randrange(nk)
        id_offset = rng.choice([0, 1, 5, 0xFFFFFFFF, rng.getrandbits(32)])
        alg = rng.choice([15, 17])
        w = 32 if alg == 15 else 64
        s2c = bytes(rng.randrange(256) for _ in range(w))
        c2s = bytes(rng.randrange(256) for _ in range(w))
        ver = rng.choice([4, 4, 5])
        ncookies = rng.choice([1, 1, 2, 3, 8])
        lines.append("%d MK %d %d %d %s %d %s %s %d %d" % (i, id_offset, primary, nk, " ".join(k.hex() for k in keys),
                                                         alg, s2c.hex(), c2s.hex(), ver, ncookies))
        metas.append({"keys": [list(k) for k in keys], "id_offset": id_offset, "alg": alg, "s2c": list(s2c),
                      "c2s": list(c2s), "ver": ver})
    rc, out, res = vplib.run_harness(exe, "C23", lines, vplib.CRATE_DIRS["ntp-proto"])
    mats = []
    for l in res:
        t = l.split()
        i = int(t[0])
        if len(t) < 2 or t[1] != "cookie":
            c.not_shown_because("C23 material pass: harness answered `%s`" % l[:200])
            continue
        m = dict(metas[i])
        m["table"] = []
        k = 1
        while k < len(t):
            if t[k] in ("cookie", "request", "response"):
                m[t[k]] = list(bytes.fromhex(t[k + 1]))
                k += 2
            elif t[k] == "T":
                m["table"].append(tuple(list(bytes.fromhex(x)) if x != "-" else [] for x in t[k + 1:k + 6]))
                k += 6
            else:
                k += 1
        mats.append(m)
    if rc != 0 or len(mats) != n:
        c.not_shown_because("C23 material pass failed (rc=%s, %d of %d): %s" % (rc, len(mats), n, out[-600:]))
    return mats


def field_offsets(b, v5):
    """(offset, wire length) of the extension fields of a well-formed packet"""
    offs, o = [], 48
    while o + 4 <= len(b) and (v5 or len(b) - o > 24):
        l = (b[o + 2] << 8) | b[o + 3]
        w = (l + 3) // 4 * 4
        if l < 4 or o + w > len(b):
            break
        offs.append((o, w))
        o += w
    return offs


def nts_cases(rng, mats, n, stats):
    cases = []
    for _ in range(n):
        m = rng.choice(mats)
        v5 = m["ver"] == 5
        which = rng.choice(["request", "request", "response"])
        b = list(m[which])
        offs = field_offsets(b, v5)
        r = rng.random()
        kind = "genuine"
        if r < 0.25:
            pass
        elif r < 0.75:
            b, kind = g.mutate(rng, b, offs)
        elif r < 0.85 and offs:
            # duplicate or drop a whole field (second cookie => no cipher; missing cookie)
            o, w = rng.choice(offs)
            if rng.random() < 0.5:
                b = b[:o] + b[o:o + w] + b[o:]
                kind = "dupfield"
            else:
                b = b[:o] + b[o + w:]
                kind = "dropfield"
        else:
            # extra untrusted field after the authenticator / a MAC
            t, body = g.body_of_kind(rng, rng.choice(g.KINDS), v5)
            b = b + g.wire_field(t, body, v5) + (g.mac(rng) if not v5 else [])
            kind = "append-field"
        if which == "request":
            ctx = rng.choice(["S", "S", "S", "R"])
        else:
            ctx = rng.choice(["R", "R", "S"])
        case = {"data": b, "table": m["table"], "ctx": ctx, "kind": "nts-" + which + "-" + kind}
        if ctx == "S":
            keys = m["keys"]
            if rng.random() < 0.1:
                keys = keys[:-1] or keys
            case.update({"keys": keys, "id_offset": m["id_offset"] if rng.random() < 0.9 else (m["id_offset"] + 1) % 2 ** 32})
        else:
            case["key"] = m["c2s"] if (which == "request") == (rng.random() < 0.9) else m["s2c"]
        cases.append(case)
        stats[case["kind"]] = stats.get(case["kind"], 0) + 1
    return cases


def corpus_cases():
    d = os.path.join(vplib.VERIF, "corpus", "C23")
    res = []
    if os.path.isdir(d):
        for f in sorted(os.listdir(d)):
            for l in open(os.path.join(d, f)):
                t = l.split()
                if len(t) >= 2 and t[0] == "N":
                    res.append({"ctx": "N", "data": list(bytes.fromhex(t[1])) if t[1] != "-" else [], "table": [], "kind": "corpus"})
    return res


def main():
    c = vplib.Check("C23")
    c.run_gate()
    rng = c.rng
    quick = c.tier == "quick"
    stats = {}
    cases = corpus_cases()

    def add(ctx, data, table, kind):
        cases.append({"ctx": ctx, "data": list(data), "table": table, "kind": kind})
        stats[ctx + ":" + kind] = stats.get(ctx + ":" + kind, 0) + 1

    # boundary stream: every length 0..60 of a valid header prefix, per version
    for ver in (3, 4, 5):
        h = g.header34(rng, ver) if ver != 5 else g.header5(rng)
        full = h + g.wire_field(g.T_DRAFT, g.DRAFT, ver == 5) + g.rbytes(rng, 8)
        for n in range(0, len(full) + 1, 1 if not quick else 3):
            add("N", full[:n], [], "prefix")
    for v in range(8):
        add("N", [v << 3] + [0] * 47, [], "version")
    # structured + malformed streams
    n_struct = 260 if quick else 2500
    for i in range(n_struct):
        nts = rng.random() < 0.45
        b, table, offs = g.packet(rng, nts=nts, valid_header=rng.random() < 0.9)
        ctx = "C" if nts and rng.random() < 0.8 else "N"
        add(ctx, b, table if ctx == "C" else [], "grammar")
        for _ in range(rng.choice([0, 1, 2])):
            mb, kind = g.mutate(rng, b, offs)
            add(ctx, mb, table if ctx == "C" else [], kind)
    # truncation at every offset and a bit flip at every position of a few packets
    for _ in range(2 if quick else 5):
        b, table, offs = g.packet(rng, version=rng.choice([4, 5]), nts=True)
        b = b[:400]
        step = 7 if quick else 1
        for n in range(0, len(b), step):
            add("C", b[:n], table, "truncate-all")
        for i in range(0, len(b), step):
            mb = list(b)
            mb[i] ^= 1 << rng.randrange(8)
            add("C", mb, table, "bitflip-all")
    # big fields
    for _ in range(2 if quick else 6):
        v5 = rng.random() < 0.5
        h = g.header5(rng) if v5 else g.header34(rng, 4)
        n = rng.choice([1000, 4000] if quick else [1000, 4000, 65528, 65531])
        body = g.rbytes(rng, n) if n <= 4000 else [rng.randrange(256)] * n
        b = h + g.wire_field(rng.choice([g.T_UID, 0x2A, g.T_REFRESP, g.T_REFREQ]), body, v5)
        if v5:
            b += g.wire_field(g.T_DRAFT, g.DRAFT, True)
        add("N", b, [], "big")
    # NTS authenticator fields of every small length (v5: also lengths that are not a multiple of 4) with
    # lying nonce / ciphertext lengths, as the last field of the packet (then optionally a MAC), in the
    # contexts N and C here and S below (regression seeded by the lead: unchecked range start in
    # RawEncryptedField::from_message_bytes when the nonce ends in the last partial word)
    auth_small = []
    for v5 in (False, True):
        for fl in range(4, 41):
            L = max(fl - 8, 0)
            lies = sorted({0, 1, 2, 3, max(L - 1, 0), L, L + 1, 0xFFFF})
            combos = [(a, b) for a in lies for b in lies]
            picked = [(L, rng.choice(lies)), (max(L - 1, 0), rng.choice(lies)), (min(L, 1), rng.choice(lies))]
            for nl, cl in picked + rng.sample(combos, 1 if quick else 10):
                body = (g.be(2, nl) + g.be(2, cl) + g.rbytes(rng, 40))[:fl - 4]
                h = g.header5(rng) if v5 else g.header34(rng, 4)
                pre = g.wire_field(g.T_DRAFT, g.DRAFT, True) if v5 else []
                tail = [] if v5 or rng.random() < 0.5 else g.rbytes(rng, rng.choice([4, 20, 24]))
                auth_small.append((v5, h, pre, g.wire_field(g.T_ENC, body, v5, length=fl), tail))
    for v5, h, pre, f, tail in auth_small:
        b = h + pre + f + tail
        ctx = rng.choice(["N", "C"])
        table = []
        if ctx == "C" and rng.random() < 0.5:
            table = [(g.rbytes(rng, 1), list(h + pre), g.rbytes(rng, 4), g.rbytes(rng, 8))]
        add(ctx, b, table, "auth-small")
    # random bytes
    for _ in range(40 if quick else 500):
        n = rng.choice([0, 1, 47, 48, 49, 52, 64, 72, 76, 100, rng.randrange(0, 300)])
        b = g.rbytes(rng, n)
        if b and rng.random() < 0.8:
            b[0] = (b[0] & 0xC7) | (rng.choice([3, 4, 5]) << 3)
        add(rng.choice(["N", "C"]), b, [], "random")

    # NTS material made by the implementation (real AES-SIV), then mutated here
    exe, log, mode = vplib.build_harness("ntp-proto", "C23")
    if exe is None:
        c.not_shown_because("correspondence C23: the harness no longer builds against the current tree: %s" % log[-1500:])
        return c.finish()
    mats = material(c, exe, rng, 6 if quick else 30)
    if mats:
        cases += nts_cases(rng, mats, 150 if quick else 1500, stats)
        # the same small authenticator fields after a genuine cookie field, decoded with the server KeySet
        for v5, h, pre, f, tail in auth_small[::2]:
            ms = [m for m in mats if (m["ver"] == 5) == v5] or mats
            m = rng.choice(ms)
            cookie_field = g.wire_field(g.T_COOKIE, m["cookie"], v5)
            b = h + pre + cookie_field + f + tail
            cases.append({"ctx": "S", "data": b, "table": m["table"], "keys": m["keys"], "id_offset": m["id_offset"],
                          "kind": "auth-small"})
            stats["S:auth-small"] = stats.get("S:auth-small", 0) + 1

    outcome = {}

    def nontrivial(case, out):
        k = {"0": "accepted", "1": "decrypt-error", "2": "parse-error", "PANIC": "panic"}.get(out[0] if out else "?", "?")
        if k == "parse-error" and len(out) > 1:
            k += "-" + out[1]
        outcome[case["ctx"] + ":" + k] = outcome.get(case["ctx"] + ":" + k, 0) + 1
        return len(case["data"]) >= 48 and ((case["data"][0] >> 3) & 7) in (3, 4, 5)

    c.cov["rule"] = ("NtpPacket::deserialize on grammar-generated NTPv3/v4/v5 packets (0-6 extension fields of all nine kinds, "
                     "MACs of all lengths, NTS authenticator fields with a driver-chosen decrypt table incl. malformed plaintexts), "
                     "their truncations / bit flips / length-field lies, every prefix length of a valid packet, random bytes, and "
                     "genuine NTS requests/responses produced by the implementation (real AES-SIV, cookies under a 1-3 key KeySet) "
                     "with the same mutations, NTS authenticator fields of every length 4..40 (v5 also non-multiples of 4) with lying nonce/ciphertext lengths as last field, in the contexts N (NoCipher), C (table cipher), R (real client cipher), S (server KeySet); "
                     "the model gets the genuine AEAD tuples as its oracle table. non-trivial = datagram has a full header of version 3/4/5")
    outs = vplib.correspondence(
        c, "ntp-proto", cases, line_of=line_of, coq_case_of=coq_case,
        preamble="From V Require Import Model.Packet.\nOpen Scope Z_scope.\n" + g.REP_DEF,
        checker="mismatches list_eqb run_decode", monitor=monitor, nontrivial=nontrivial,
        key_of=lambda case: (case["ctx"], bytes(case["data"]), repr(case.get("table"))[:2000]),
        shard=60,
        sample_of=lambda case, out: {"context": case["ctx"], "kind": case["kind"], "datagram_hex": g.hexs(case["data"])[:300],
                                     "outcome": " ".join(out[:16])})
    c.cov["distribution"] = {"generated": stats, "outcomes": outcome, "model_not_compared_c24_class": EXCLUDED["c24_class"],
                             "sizes": {"max": max(len(x["data"]) for x in cases), "cases": len(cases)}}
    c.assumptions += [
        "hand-written model of NtpPacket::deserialize, ExtensionFieldData::deserialize, the extension field streamer, the typed "
        "field decoders, Mac::deserialize, KeySet::get/decode_cookie and the v3/v4/v5 header parsers (coq/Model/ExtField.v, Packet.v); "
        "the list of panic sites is hand-made and cross-checked by the correspondence (implementation panics iff the model says Panic) "
        "and by the site census in tools/consts/packet.py",
        "AEAD = oracle: the theorem quantifies over every decrypt function; in the correspondence the model's oracle is the table of "
        "genuine tuples (anything else fails to decrypt, which is what AES-SIV does except with negligible probability)",
        "memory safety and the internals of aes-siv are outside the model (#![forbid(unsafe_code)] in ntp-proto)",
        "release semantics: debug_assert_eq!(nonce.len(), 16) and the wire_length debug assertion are inactive",
    ]
    return c.finish()


MANIFEST = {
    "claimed": True,
    "text": 'Theorem C23_total (Coq, all byte strings of any length, all three key contexts NoKeys | ClientKey k | ServerKeys keys id_offset, every decrypt oracle that returns byte strings): the model of NtpPacket::deserialize never reaches one of its explicit panic sites (indexing/slicing, try_into().unwrap(), unreachable!, expect, incl. KeySet::get/decode_cookie and the decrypted-plaintext field parser) and never runs out of loop fuel, hence returns a packet, a packet inside a decrypt error, or an error class (C23_packet_or_error). The model is tied to the code on every run by decoding grammar-generated, truncated, bit-flipped and length-lying NTPv3/v4/v5 datagrams in all contexts on both sides (real AES-SIV with genuine cookies/requests/responses made by the implementation; table-driven test cipher for arbitrary oracle behaviour) and comparing the complete decoded packets.',
    "note": 'Trusted: Coq kernel+vm_compute; the hand-written model coq/Model/{Bytes,ExtField,Packet}.v including its hand-made list of panic sites (cross-checked by the correspondence: implementation panics iff model says Panic, and by a site census in tools/consts/packet.py that invalidates the proof cone when unwrap/expect/assert/unreachable/range-index occurrences change); hypotheses of C23_total: the datagram and every oracle result are lists of bytes in [0,256) (u8 typing); AEAD is an oracle (aes-siv internals, memory safety outside the model); release semantics (debug_assert inactive). The model is the tree with branch fix-c24 applied; cases of the confirmed C24 defect class (v5 reference-id request with payload length not a multiple of 4) are run on the implementation (monitor: no panic) but not compared with the model, so the check holds before and after that repair. Print Assumptions: closed under the global context.',
    "design_ref": 'DESIGN.md 3 C22/C23',
}
