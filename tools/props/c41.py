"""C41: PTP messages survive a serialise/parse round trip.
Model: coq/Model/PtpWire.v; theorems: coq/Props/C41.v; tie: Message::serialize / Message::deserialize /
TlvSetBuilder through harness/statime-wire/c41.rs (operations D = parse + re-serialise + re-parse,
S = build TLV set + serialise + parse back, T = exhaustive enumeration tables)."""
from tools import vplib
from tools.props import wgen as W


# case = ("D", bytes) | ("S", cap, blen, fill, [(kind, type, value)], header28, body) | ("T", k)
def flat(case):
    if case[0] == "D":
        return [0] + list(case[1])
    if case[0] == "T":
        return [2, case[1]]
    _, cap, blen, fill, tlvs, h, b = case
    l = [1, cap, blen, fill, len(tlvs)]
    for kind, ty, val in tlvs:
        l += [kind * 65536 + ty, len(val)] + list(val)
    return l + list(h) + list(b)


def line_of(case):
    f = flat(case)
    return {0: "D", 1: "S", 2: "T"}[f[0]] + " " + W.ints(f[1:])


def tlv_kind(rng, ty):
    """how the harness builds the TlvType: 0 = from_primitive, 1..3 = Reserved/Legacy/Experimental(ty)"""
    return 0 if rng.random() < 0.7 else rng.randrange(1, 4)


def gen_s(rng, canonical=True, even=True, fit=True):
    ty = rng.choice(W.TYPES)
    h = W.r_header(rng, canonical)
    b = W.r_body(rng, ty, canonical)
    tlvs = []
    for _ in range(rng.choice([0, 0, 1, 1, 2, 3, 6])):
        t, v = W.r_tlv(rng, even=even or rng.random() < 0.5)
        tlvs.append((tlv_kind(rng, t), t, v))
    if rng.random() < 0.25:   # a set that ends in an empty-valued TLV (the confirmed defect input)
        tlvs.append((0, rng.choice([0x8008, 3, W.TLV_REQUEST, 0]), []))
    need = sum(4 + len(v) for _k, _t, v in tlvs)
    cap = need + rng.choice([0, 0, 1, 7, 100]) if fit else max(0, need - rng.choice([1, 2, 4, 5]))
    total = 34 + W.BODY_SIZE[ty] + need
    blen = total + rng.choice([0, 0, 1, 13, 200]) if fit or rng.random() < 0.5 else max(0, total - rng.choice([1, 2, 10, 34, total]))
    return ("S", cap, blen, rng.choice([0, 0, 0xFF, 0xA5, rng.randrange(256)]), tlvs, h, b)


def gen_valid_bytes(rng):
    """a message the reference writer produces, with arbitrary content in the reserved positions"""
    ty = rng.choice(W.TYPES)
    h = W.r_header(rng)
    b = W.r_body(rng, ty)
    sfx = []
    for _ in range(rng.choice([0, 0, 1, 2, 4])):
        sfx += W.tlv_bytes(*W.r_tlv(rng))
    if rng.random() < 0.25:
        sfx += W.tlv_bytes(rng.choice([0x8008, 0, W.TLV_REQUEST]), [])
    m = W.ser_msg(h, b, sfx, reserved=rng.choice([0, 0, rng.randrange(256)]))
    if rng.random() < 0.5:   # reserved header bits / bytes, control byte, reserved body bytes, any enum code
        for i in (6, 7, 16, 17, 18, 19, 32):
            if rng.random() < 0.5:
                m[i] = rng.randrange(256)
        if ty == 2:
            for i in range(44, 54):
                m[i] = rng.randrange(256)
        if ty == 11:
            m[49] = rng.randrange(256)
            m[63] = rng.randrange(256)
        if ty == 13:
            m[47] = rng.randrange(256)
    if rng.random() < 0.2:
        m += [rng.randrange(256) for _ in range(rng.choice([1, 2, 3, 4, 20]))]      # padding after message_length
    return m


def gen_d(rng):
    k = rng.random()
    if k < 0.55:
        return ("D", gen_valid_bytes(rng))
    if k < 0.85:
        m = gen_valid_bytes(rng)
        for _ in range(rng.choice([1, 1, 2, 3])):
            m = W.mutate(rng, m)
        return ("D", m)
    if k < 0.92:   # length-field and TLV-length lies
        m = gen_valid_bytes(rng)
        if len(m) > 50:
            i = rng.randrange(34, len(m) - 1)
            m[i] = rng.choice([0, 1, 255, m[i] ^ 1])
        return ("D", m)
    n = rng.choice([0, 1, 2, 33, 34, 35, 43, 44, 54, 64, 100])
    return ("D", [rng.randrange(256) for _ in range(n)])


def big_cases(rng):
    """sizes around the 16-bit limits and up to the 4096 bytes of the property text"""
    out = []
    for n in (4000, 4050, 4096 - 44 - 4, 4096 - 44):
        val = [rng.randrange(256) for _ in range(n - n % 2)]
        out.append(("D", W.ser_msg(W.r_header(rng), W.r_body(rng, 0), W.tlv_bytes(3, val))))
    # total length 65535 fits, 65536 does not; TLV value 65534 fits, 65536 does not
    h, b = W.r_header(rng), W.r_body(rng, 12)
    for vl in (65535 - 44 - 4 - 1, 65535 - 44 - 4 + 1):
        out.append(("S", vl + 4, 70000, 0, [(0, 3, [7] * vl)], h, b))
    out.append(("S", 70000, 70000, 0, [(0, 3, [1] * 65536)], h, b))
    return out


def out_ints(out):
    return [int(x) for x in out]


def monitor(case, out):
    payload = {"case": [case[0]] + [list(x) if isinstance(x, (list, tuple)) else x for x in case[1:]]}
    if out and out[0] == "PANIC":
        msg = " ".join(out[1:])
        if "generator:" in msg:
            return None
        what = "parsing" if case[0] == "D" else "building / serialising / parsing back"
        return ("%s panics: %s" % (what, msg), payload)
    v = out_ints(out)
    if case[0] == "D":
        if v[0] != 0:
            return None
        n = v[1]
        rest = v[2 + n:]
        buf = list(case[1])
        mlen = W.unbe(buf[2:4])
        if rest[0] != 0:
            return ("a parsed message (%d bytes) does not re-serialise (error %d)" % (mlen, -rest[0]), payload)
        reser, again = rest[1:-1], rest[-1]
        want = W.py_normalise(buf[:mlen])
        if reser != want:
            i = next((k for k in range(min(len(reser), len(want))) if reser[k] != want[k]), min(len(reser), len(want)))
            return ("a parsed message re-serialises to different bytes than the parsed prefix outside the reserved "
                    "positions (first difference at byte %d, lengths %d / %d)" % (i, len(reser), len(want)), payload)
        if again != 1:
            return ("parse(serialise(parse(b))) differs from parse(b)", payload)
        return None
    if case[0] == "S":
        if v[0] != 0:
            return None
        back = v[-1]
        if back != 1:
            tl = case[4]
            return ("a message that serialises (%d bytes) %s" % (v[1], "parses back to a different message" if back == 0 else
                                                                 "is rejected by the parser (error %d)" % -back)
                    + ("; its TLV set ends in an empty-valued TLV" if back < 0 and tl and len(tl[-1][2]) == 0 else ""), payload)
    return None


def main():
    c = vplib.Check("C41")
    c.run_gate()
    rng = c.rng
    cases = [("T", k) for k in range(4)]
    # corpus: the confirmed defect inputs (DESIGN.md section 4 row 11)
    h0 = W.csptp_header(128, 1)
    cases.append(("S", 4, 100, 0, [(0, 0x8008, [])], h0, [0, 5, 6]))
    cases.append(("S", 20, 100, 0, [(0, 3, [1, 2]), (0, 0x8008, [])], h0, [8, 5, 6]))
    cases.append(("S", 20, 100, 0, [(0, 3, [1, 2, 3])], h0, [0, 5, 6]))
    cases.append(("D", W.ser_msg(h0, [0, 5, 6], W.tlv_bytes(0x8008, []))))
    cases.append(("D", W.ser_msg(h0, [0, 5, 6], W.tlv_bytes(0x8008, []) * 2)))
    cases.append(("D", W.ser_msg(h0, [0, 5, 6], W.tlv_bytes(3, [1, 2, 3]) + [0])))
    nS, nD = (500, 900) if c.tier == "quick" else (4000, 8000)
    for i in range(nS):
        k = rng.random()
        cases.append(gen_s(rng, canonical=k < 0.7, even=k < 0.9 or k >= 0.95, fit=k < 0.95))
    for i in range(nD):
        cases.append(gen_d(rng))
    cases += big_cases(rng)
    stats = {"cases": len(cases), "D_parsed": 0, "D_rejected": 0, "S_roundtrip": 0, "S_refused_by_serialiser": 0,
             "S_refused_by_builder": 0, "panic": 0, "by_type": {}}

    def coq_case(case, out):
        if len(flat(case)) > 20000:
            # list literals of this size overflow coqc's parser stack: these (the 65535-byte limit cases) are
            # run on the implementation and judged by the monitor only
            stats["implementation_only_oversize"] = stats.get("implementation_only_oversize", 0) + 1
            return None
        if out and out[0] == "PANIC":
            return W.zlist(flat(case)), "[(-1)]"
        return W.zlist(flat(case)), W.zlist(out_ints(out))

    def nontrivial(case, out):
        if out and out[0] == "PANIC":
            stats["panic"] += 1
            return True
        v = out_ints(out)
        if case[0] == "D":
            if v[0] == 0:
                stats["D_parsed"] += 1
                t = str(case[1][0] & 15)
                stats["by_type"][t] = stats["by_type"].get(t, 0) + 1
            else:
                stats["D_rejected"] += 1
            return len(case[1]) >= 34    # got past the header length test
        if case[0] == "S":
            if v[0] == 0:
                stats["S_roundtrip"] += 1
            elif v[0] <= -100:
                stats["S_refused_by_builder"] += 1
            else:
                stats["S_refused_by_serialiser"] += 1
            return True
        return True

    vplib.correspondence(
        c, "statime-wire", cases,
        line_of=line_of,
        coq_case_of=coq_case,
        preamble="From V Require Import Model.PtpWire.\nOpen Scope Z_scope.\n",
        checker="mismatches zlist_eqb (fun i => canon_panic (run_C41 i))",
        monitor=monitor,
        nontrivial=nontrivial,
        shard=60,
        sample_of=lambda case, out: {"op": case[0], "input_head": flat(case)[:40], "output_head": " ".join(out[:20])},
    )
    c.cov["rule"] = ("operation S: random headers (all flag combinations, extreme correction fields, versions incl. the unvalidated "
                     "Header::new minors), every body type with boundary timestamps (2^48-1 s, 10^9 ns), enumeration values with and "
                     "without a wire code, TLV lists (CSPTP and other types, Reserved/Legacy/Experimental wrappers, empty / odd / "
                     "long values, trailing empty TLV), backing and output buffers exact, larger, too small, non-zero fill; "
                     "operation D: reference-written messages of every type with arbitrary reserved bits/bytes and enum codes, "
                     "padding, bit flips, truncations, length-field lies, garbage, sizes to 4096 B and the 65535-byte limits; "
                     "operation T: the four from/to_primitive tables exhaustively. Non-trivial: D cases of at least 34 bytes, all S "
                     "cases; distinct = distinct inputs.")
    c.cov["distribution"] = stats
    c.assumptions += [
        "hand-written model coq/Model/PtpWire.v of the repaired code (branch fix-c41); the 27 named clock accuracies are "
        "represented by their code (tables compared exhaustively by operation T on every run)",
        "TlvSet equality is equality of the validated bytes, as in the Rust type (derive(PartialEq) on the byte slice)",
        "Tlv::serialize used directly (bypassing TlvSetBuilder) can still write odd-length values; only the builder is "
        "covered, as in the property's quantifier",
    ]
    return c.finish()


MANIFEST = {
    "claimed": True,
    "text": 'Theorems (Coq, all ten message types, header, TLV sets; no length bounds): C41_ser_de - for every header/body with fields in the ranges of their Rust types and every TLV list handed to the builder (any types, values, incl. empty-valued TLVs), any backing buffer size, any output buffer (length, previous content) and any trailing bytes: if building and serialising succeed the bytes parse back to exactly that message (C41_ser_de_valid_set: same for any validated set); C41_de_ser - every byte string that parses re-serialises (zeroed buffer) to its first message_length bytes under the fixed reserved-position mask `normalise` (flag bits 3,4,7 of byte 6, bit 7 of byte 7, bytes 16-19, 32; 44-53 pdelay_req; 46 announce, 44 management zeroed; announce accuracy byte 49 and management action byte 47 canonicalised), literally when those positions are clear (C41_de_ser_literal); C41_deser_ser_deser - parse, serialise, parse gives the same message; C41_total - parsing any byte string returns an error or a message with a valid TLV set whose iteration never panics. Tied on every run to the real Message::serialize/deserialize/TlvSetBuilder, enum tables compared exhaustively.',
    "note": 'Trusted: Coq kernel+vm_compute (finite byte facts are proved by evaluating all 256/4096 values inside Coq); hand-written model coq/Model/PtpWire.v of the code after fix-c41 (two commits: TLV scanner/iterator/builder; refusal to serialise header versions, clock accuracies and time sources without a wire code - the second class was found while modelling); the 27 named ClockAccuracy variants are represented by their code (tables checked exhaustively by operation T); TlvSet equality = equality of the validated bytes as in Rust; Tlv::serialize used directly (not through the builder) can still emit odd-length values. Print Assumptions: closed under the global context.',
    "design_ref": 'DESIGN.md 3 C41',
}
