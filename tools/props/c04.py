"""C04: leap-second vote.  Model: coq/Model/Combine.v; theorems: coq/Props/C04.v;
tie: combiner::vote_leap and combiner::combine through harness/ntp-proto/c04.rs."""
import itertools

from tools import vplib


def multisets(maxlen, alphabet):
    for n in range(0, maxlen + 1):
        for c in itertools.combinations_with_replacement(alphabet, n):
            yield list(c)


def expected_by_property(case):
    """the property statement itself, evaluated independently of model and code"""
    if 4 in case:
        return "PANIC"
    known = len(case) - case.count(3)
    win = [l for l in (0, 1, 2) if 2 * case.count(l) > known]
    return str(win[0]) if win else "-1"


def monitor(case, out):
    if 4 in case:
        return None  # outside the property's domain (selection never returns unsynchronised sources)
    want = expected_by_property(case)
    if out[0] == "PANIC":
        return ("vote_leap panics on a selection without unsynchronised sources: %s" % case, {"selection": case})
    if out[0] != want or (case and out[1] != want):
        return ("leap vote for selection %s is %s (combine: %s), a strict majority of known votes gives %s"
                % (case, out[0], out[1] if len(out) > 1 else "?", want), {"selection": case})
    return None


def main():
    c = vplib.Check("C04")
    c.run_gate()
    rng = c.rng
    cases = []
    # exhaustive: every multiset over the five indicator values up to size 8 (1287) in
    # canonical order, then the same multisets shuffled (order must not matter), then long random ones
    maxlen = 8 if c.tier == "quick" else 10
    base = list(multisets(maxlen, [0, 1, 2, 3, 4]))
    cases += base
    for m in base:
        if len(m) > 1:
            s = m[:]
            rng.shuffle(s)
            cases.append(s)
    for _ in range(300 if c.tier == "quick" else 5000):
        n = rng.randint(9, 60)
        w = [rng.random() for _ in range(4)] + [rng.random() * 0.02]
        cases.append(rng.choices([0, 1, 2, 3, 4], weights=w, k=n))
    cases = vplib.replay_cases() or cases
    c.cov["rule"] = ("every multiset of the 5 leap values of size <= %d through vote_leap and combine (exhaustive), "
                     "each also in a shuffled order, plus random selections of 9-60 sources; a case is non-trivial "
                     "when it contains at least two sources; distinct = distinct ordered lists" % maxlen)
    c.cov["exhaustive"] = True
    c.cov["distribution"] = {"multisets": len(base), "total": len(cases),
                             "with_unsynchronised": sum(1 for x in cases if 4 in x),
                             "with_majority": sum(1 for x in cases if 4 not in x and expected_by_property(x) != "-1")}

    def coq_case(case, out):
        if out[0] == "PANIC":
            o = "(-2)%Z"
        else:
            o = vplib.zlit(int(out[0]))
        return "(%s : list Z)" % vplib.coq_list([vplib.zlit(x) for x in case]), o

    vplib.correspondence(
        c, "ntp-proto", cases,
        line_of=lambda case: " ".join(map(str, case)),
        coq_case_of=coq_case,
        preamble="From V Require Import Model.Combine.\n",
        checker="mismatches Z.eqb vote_code",
        monitor=monitor,
        nontrivial=lambda case, out: len(case) >= 2,
        sample_of=lambda case, out: {"selection_leap_codes": case, "vote_leap": out[0], "combine": out[1] if len(out) > 1 else None},
    )
    c.assumptions += [
        "model of vote_leap written by hand (coq/Model/Combine.v); tied to the code by the exhaustive correspondence above",
        "selection never contains an unsynchronised source (C03_members_qualify); with one, the code panics and the model says Panic",
    ]
    return c.finish()


MANIFEST = {
    "claimed": True,
    "text": "Theorems (Coq, all selections of any length): the vote announces L iff L is a real indicator held by a strict "
            "majority of the selected sources with known leap status (C04_majority), no announcement otherwise and the previous "
            "indicator is kept (C04_none, C04_applied), at most one indicator can win (C04_unique), the vote is a function of the "
            "multiset of selected indicators only (C04_multiset_only). The model is tied to vote_leap/combine by an exhaustive "
            "enumeration of all multisets up to size 8 on every run.",
    "note": "Trusted: Coq kernel+vm_compute; hand-written model coq/Model/Combine.v (vote_leap, apply_vote); harness + python "
            "driver; that update_clock applies the vote as `if let Some(leap)` (modelled by apply_vote, read from mod.rs, exercised "
            "end-to-end by the C01/C03 controller histories). Print Assumptions: closed under the global context.",
    "design_ref": "DESIGN.md 3 C04",
}
