"""C24: NTP packets survive a decode/encode round trip.  Model: coq/Model/{Bytes,ExtField,Packet}.v;
theorems: coq/Props/C24.v; tie: NtpPacket::deserialize / serialize (NoCipher) through
harness/ntp-proto/c24.rs: decode, encode, decode, encode on the same generated datagrams."""
import os

from tools import vplib
from tools.props import p1gen as g


# ---- parser of the flat encoding (coq/Model/Packet.v enc_outcome / enc_ser) ----
def p_bytes(t, i):
    n = t[i]
    return t[i + 1:i + 1 + n], i + 1 + n


def p_efs(t, i):
    n = t[i]
    i += 1
    fs = []
    for _ in range(n):
        k = t[i]
        i += 1
        if k in (1, 2, 5, 8):
            b, i = p_bytes(t, i)
            fs.append((k, tuple(b)))
        elif k in (3, 6):
            fs.append((k, t[i]))
            i += 1
        elif k == 4:
            fs.append((4,))
        elif k == 7:
            fs.append((7, t[i], t[i + 1]))
            i += 2
        elif k == 9:
            tid = t[i]
            b, i = p_bytes(t, i + 1)
            fs.append((9, tid, tuple(b)))
        else:
            raise ValueError("field kind %r" % k)
    return fs, i


def p_packet(t, i):
    ver = t[i]
    n = 14 if ver == 5 else 12
    hdr = tuple(t[i + 1:i + 1 + n])
    i += 1 + n
    au, i = p_efs(t, i)
    en, i = p_efs(t, i)
    un, i = p_efs(t, i)
    if t[i] == 0:
        mac, i = None, i + 1
    else:
        kid = t[i + 1]
        b, i = p_bytes(t, i + 2)
        mac = (kid, tuple(b))
    return {"version": ver, "header": hdr, "authenticated": au, "encrypted": en, "untrusted": un, "mac": mac}, i


def p_outcome(t, i):
    tag = t[i]
    if tag == 0:
        p, i = p_packet(t, i + 1)
        if t[i] == 0:
            return ("accept", p, None), i + 1
        alg = t[i + 1]
        s2c, i = p_bytes(t, i + 2)
        c2s, i = p_bytes(t, i)
        return ("accept", p, (alg, tuple(s2c), tuple(c2s))), i
    if tag == 1:
        p, i = p_packet(t, i + 1)
        return ("decrypt-error", p, None), i
    if tag == 2:
        return ("error", t[i + 1], None), i + 2
    return ("panic", t[i + 1], None), i + 2


def p_ser(t, i):
    tag = t[i]
    if tag == 0:
        b, i = p_bytes(t, i + 1)
        return ("ok", tuple(b)), i
    return ("error" if tag == 2 else "panic", t[i + 1]), i + 2


def generous(n):
    return 7 * n + 128


def monitor(case, out):
    """the property on one implementation run: an accepted packet encodes; the encoding decodes to a
    packet that encodes to the same bytes"""
    hexd = g.hexs(case["data"])
    payload = {"datagram_hex": hexd, "buffer": case["cap"]}
    if out and out[0] == "PANIC":
        return ("decoding the %d-byte datagram %s panics: %s" % (len(case["data"]), hexd[:300], " ".join(out[1:])[:100]), payload)
    t = [int(x) for x in out]
    o1, i = p_outcome(t, 0)
    if o1[0] != "accept":
        return None
    roomy = case["cap"] >= generous(len(case["data"]))
    if i >= len(t):
        return ("accepted packet, but no encode result", payload)
    s1, i = p_ser(t, i)
    if s1[0] == "panic":
        return ("the decoder accepts the %d-byte NTPv%d datagram %s but encoding the decoded packet panics" % (
            len(case["data"]), o1[1]["version"], hexd[:300]), payload)
    if s1[0] == "error":
        if roomy:
            return ("the decoder accepts the datagram %s but the decoded packet cannot be encoded (buffer of %d bytes)" % (
                hexd[:300], case["cap"]), payload)
        return None
    o2, i = p_outcome(t, i)
    if o2[0] != "accept":
        return ("the re-encoded packet %s (from %s) is not accepted by the decoder: %s" % (
            bytes(s1[1]).hex()[:300], hexd[:300], o2[0]), payload)
    s2, i = p_ser(t, i)
    if s2[0] != "ok":
        if s2[0] == "panic" or roomy:
            return ("second encoding fails (%s) for datagram %s" % (s2[0], hexd[:300]), payload)
        return None
    if s2[1] != s1[1]:
        return ("encoding is not stable after one round: %s then %s (from %s)" % (
            bytes(s1[1]).hex()[:200], bytes(s2[1]).hex()[:200], hexd[:200]), payload)
    return None


def corpus_cases():
    d = os.path.join(vplib.VERIF, "corpus", "C24")
    res = []
    if os.path.isdir(d):
        for f in sorted(os.listdir(d)):
            for l in open(os.path.join(d, f)):
                t = l.split()
                if len(t) >= 2 and not l.startswith("#"):
                    res.append({"cap": int(t[0]), "data": list(bytes.fromhex(t[1])), "kind": "corpus"})
    return res


def main():
    c = vplib.Check("C24")
    c.run_gate()
    rng = c.rng
    quick = c.tier == "quick"
    stats = {}
    cases = corpus_cases()

    def add(data, kind, cap=None):
        if cap is None:
            cap = generous(len(data)) if rng.random() < 0.9 else rng.randrange(0, 2 * len(data) + 40)
        cases.append({"cap": cap, "data": list(data), "kind": kind})
        stats[kind] = stats.get(kind, 0) + 1

    # every field kind x size class, as the only / first / last field, v4 and v5, with and without MAC
    for v5 in (False, True):
        for kind in g.KINDS:
            for size in ([0, 1, 4, 8, 12, 16, 20, 24, 28, 100] if quick else g.SIZES + [1000]):
                t, body = g.body_of_kind(rng, kind, v5, size)
                h = g.header5(rng) if v5 else g.header34(rng, 4)
                fs = [(t, body)]
                if v5:
                    fs.insert(rng.randrange(2), (g.T_DRAFT, g.DRAFT))
                elif rng.random() < 0.5:
                    fs.insert(rng.randrange(2), g.body_of_kind(rng, rng.choice(g.KINDS), v5))
                b = h + sum([g.wire_field(tt, bb, v5) for tt, bb in fs], [])
                if not v5:
                    b += g.rbytes(rng, rng.choice([0, 0, 4, 20, 24]))
                add(b, "kind-size")
    # reference-id requests of every payload length 0..20 (the C24 defect class is length % 4 != 0, length >= 2)
    for n in range(0, 21):
        b = g.header5(rng) + g.wire_field(g.T_DRAFT, g.DRAFT, True) + g.wire_field(g.T_REFREQ, (g.be(2, 4) + [0] * 40)[:n], True)
        add(b, "refreq-len", generous(len(b)))
    # MAC of every length after 0 / 1 fields, v3 and v4
    for ml in range(0, 30):
        add(g.header34(rng, 3) + g.rbytes(rng, ml), "v3-mac")
        add(g.header34(rng, 4) + g.rbytes(rng, ml), "v4-mac")
        t, body = g.body_of_kind(rng, "uid", False, rng.choice([0, 4, 16, 32]))
        add(g.header34(rng, 4) + g.wire_field(t, body, False) + g.rbytes(rng, ml), "v4-field-mac")
    # structured stream and its malformed variants
    for _ in range(300 if quick else 3000):
        b, table, offs = g.packet(rng, nts=rng.random() < 0.1, valid_header=rng.random() < 0.95)
        add(b, "grammar")
        if rng.random() < 0.5:
            mb, kind = g.mutate(rng, b, offs)
            add(mb, kind)
    for _ in range(1 if quick else 4):
        v5 = rng.random() < 0.5
        h = g.header5(rng) if v5 else g.header34(rng, 4)
        n = rng.choice([4000] if quick else [4000, 65528, 65531])
        body = g.rbytes(rng, n) if n <= 4000 else [rng.randrange(256)] * n
        b = h + g.wire_field(rng.choice([g.T_UID, 0x2A, g.T_REFRESP]), body, v5)
        if v5:
            b += g.wire_field(g.T_DRAFT, g.DRAFT, True)
        add(b, "big", generous(len(b)))

    outcome = {}

    def nontrivial(case, out):
        k = {"0": "accepted", "1": "decrypt-error", "2": "parse-error", "PANIC": "panic"}.get(out[0] if out else "?", "?")
        outcome[k] = outcome.get(k, 0) + 1
        return k == "accepted"

    def coq_case(case, out):
        if out and out[0] == "PANIC":
            o = "[3;0]"
        else:
            o = g.coq_nums(out)
        return "((%d, %s) : Z * bytes)" % (case["cap"], g.coq_bytes(case["data"])), "(%s : list Z)" % o

    c.cov["rule"] = ("decode(NoCipher) -> encode -> decode -> encode on NTPv3/v4/v5 datagrams: every field kind x size class as "
                     "only/first/last field with and without MAC, reference-id requests of every payload length 0..20, MACs of "
                     "every length 0..29, grammar-generated packets with 0-6 fields and their truncations / bit flips / length lies; "
                     "encoder buffer mostly roomy (7n+128), sometimes too small. non-trivial = the decoder accepted the datagram")
    vplib.correspondence(
        c, "ntp-proto", cases, line_of=lambda case: "%d %s" % (case["cap"], g.hexs(case["data"])), coq_case_of=coq_case,
        preamble="From V Require Import Model.Packet.\nOpen Scope Z_scope.\n" + g.REP_DEF,
        checker="mismatches list_eqb run_roundtrip", monitor=monitor, nontrivial=nontrivial,
        key_of=lambda case: (case["cap"], bytes(case["data"])), shard=50,
        sample_of=lambda case, out: {"kind": case["kind"], "buffer": case["cap"], "datagram_hex": g.hexs(case["data"])[:300],
                                     "stages": " ".join(out[:12])})
    c.cov["distribution"] = {"generated": stats, "outcomes": outcome,
                             "sizes": {"max": max(len(x["data"]) for x in cases), "cases": len(cases)}}
    c.assumptions += [
        "hand-written model of NtpPacket::{deserialize, serialize}, ExtensionFieldData::{deserialize, serialize}, the field "
        "encoders with their minimum sizes and padding, Mac, and the v3/v4/v5 header codecs (coq/Model/ExtField.v, Packet.v)",
        "the encoder writes into a Cursor<&mut [u8]> that starts at position 0; io errors are one class",
        "reading of 'after one normalising round' (DESIGN.md section 5): b1 = encode(decode b) is a fixed point of encode . decode",
        "the model is the tree with branch fix-c24 applied (decode rejects a v5 reference-id request whose payload is not a "
        "whole number of words); on the unrepaired tree the monitor reports the witness (corpus/C24/refreq_odd.txt)",
    ]
    return c.finish()


MANIFEST = {
    "claimed": True,
    "text": 'Theorems (Coq, all byte strings, NTPv3/v4/v5, all field kinds incl. unknown type ids, any MAC): C24_reencode_ok - every packet the no-key decoder accepts is encoded by serialize without error and without panic into any sufficiently large buffer, to bytes b1 that do not depend on the buffer; C24_fixed_point - b1 is decoded (without keys) to a packet p1 that encodes to exactly b1 again, i.e. after one normalising round decode.encode and encode.decode are stable (parse-of-print proved for the three header formats incl. the v5 leap normalisation, every extension field kind with the RFC 7822 minimum sizes 16/28/4 and padding, and the MAC). The model is tied to the code on every run by decode-encode-decode-encode on implementation and model with all four stages compared, plus an independent monitor of the property.',
    "note": "Trusted: Coq kernel+vm_compute; hand-written model of deserialize/serialize, the field encoders, Mac and the header codecs (coq/Model/{Bytes,ExtField,Packet}.v); encoder modelled as a Cursor<&mut [u8]> from position 0 with io errors as one class; reading of 'one normalising round' per DESIGN.md section 5; hypothesis: the datagram is a list of bytes in [0,256). The model is the tree with fix-c24 (landed in /repo as 7b8c524): before it, an NTPv5 ReferenceIdRequest with payload length not a multiple of 4 decoded and serialize hit assert_eq!(payload_len % 4, 0) (witness kept in corpus/C24/refreq_odd.txt, run first on every check). Print Assumptions: closed under the global context.",
    "design_ref": 'DESIGN.md 3 C24',
}
