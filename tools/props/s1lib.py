"""Shared by c11.py and c13.py: the case format of harness/ntp-proto/s1_srccore.rs,
its translation to the Coq events of Model/SrcCore.v, and generator pieces."""
import os

from tools import vplib

N_OUT = 7          # numbers printed per event
BUF_MARGIN = 724   # POLL_BUFFER_LEN - POLL_COOKIE_MARGIN, read back from the generated constants below


def consts():
    """MAX_COOKIES and the request-size budget as extracted from the sources (coq/Gen/ConstSource.v)"""
    src = open(os.path.join(vplib.COQ, "Gen", "ConstSource.v")).read()
    import re
    g = lambda n: int(re.search(r"Definition %s : Z := (\d+)\." % n, src).group(1))
    return {"max_cookies": g("MAX_COOKIES"), "budget": g("POLL_BUFFER_LEN") - g("POLL_COOKIE_MARGIN"),
            "startup": g("STARTUP_TRIES_THRESHOLD")}


def cookie_tok(c):
    return "%d.%d" % c


def ev_tok(e):
    k = e[0]
    if k == "U":
        return "U:" + ",".join(cookie_tok(c) for c in e[1])
    if k == "S":
        return "S:" + cookie_tok(e[1])
    if k == "O":
        return "O:%d" % e[1]
    return k            # T G D R


def line_of(case):
    cfg, evs = case
    return cfg + " " + " ".join(ev_tok(e) for e in evs)


def parse_line(line):
    t = line.split()
    evs = []
    for x in t[1:]:
        if x.startswith("U:"):
            body = x[2:]
            evs.append(("U", [tuple(int(v) for v in c.split(".")) for c in body.split(",")] if body else []))
        elif x.startswith("S:"):
            evs.append(("S", tuple(int(v) for v in x[2:].split("."))))
        elif x.startswith("O:"):
            evs.append(("O", int(x[2:])))
        else:
            evs.append((x,))
    return (t[0], evs)


def coq_cookie(c):
    return "(%d, %d)" % c


def coq_event(e):
    k = e[0]
    if k == "T":
        return "E_timer"
    if k == "U":
        return "E_usable [%s]" % "; ".join(coq_cookie(c) for c in e[1])
    if k == "G":
        return "E_usable []"
    if k in ("D", "R"):
        return "E_deny"
    if k == "O":
        return "E_other"
    if k == "S":
        return "E_store %s" % coq_cookie(e[1])
    raise ValueError(e)


def coq_case_of(case, out):
    cfg, evs = case
    if out and out[0] == "PANIC":
        o = "[(-99)%Z]"
    else:
        o = vplib.coq_list([vplib.zlit(int(x)) for x in out])
    return "(%s, [%s])" % (vplib.blit(cfg[0] == "N"), "; ".join(coq_event(e) for e in evs)), o


def split_out(out, n_events):
    """-> list of 7-tuples or None when the implementation's answer is malformed / a panic"""
    if not out or out[0] == "PANIC" or len(out) != N_OUT * n_events:
        return None
    v = [int(x) for x in out]
    return [tuple(v[i * N_OUT:(i + 1) * N_OUT]) for i in range(n_events)]


def load_corpus(prop):
    d = os.path.join(vplib.VERIF, "corpus", prop)
    cases = []
    if os.path.isdir(d):
        for f in sorted(os.listdir(d)):
            for line in open(os.path.join(d, f)):
                line = line.split("#")[0].strip()
                if line:
                    cases.append(parse_line(line))
    return cases


PREAMBLE = "From V Require Import Model.SrcCore.\nOpen Scope Z_scope.\n"
CHECKER = "mismatches zlist_eqb run_case"
