"""C16: server responses are never larger than the request.
Model: coq/Model/Response.v; theorems: coq/Props/C16.v; tie: Server::handle and the response builders
through harness/ntp-proto/c16.rs (shared code p2b.rs), driver code shared in tools/p2b.py."""
from tools import p2b


def monitor(case, out):
    return p2b.monitor_c16(case, out)


def daemon_requests(rng):
    """request datagrams for the real serve loop: ordinary polls of the three versions and requests of
    the known C17 class (short unique-identifier fields, which the answer re-encodes with minimum sizes
    16/28): with the daemon's request-sized buffer none of them may be answered with more bytes than it has"""
    reqs = []

    def hdr(first, n):
        h = bytearray(48)
        h[0] = first
        h[40:48] = (0xC160000000000000 | n).to_bytes(8, "big")
        return h

    n = 0
    for first in (0x1b, 0x23, 0x23, 0x23):
        n += 1
        reqs.append(bytes(hdr(first, n)))
    for k_uid in (1, 2, 5, 10):          # k empty unique-identifier fields + one 32-byte unknown field
        n += 1
        b = hdr(0x23, n)
        for _ in range(k_uid):
            b += bytes([0x01, 0x04, 0x00, 0x04])
        b += bytes([0xBE, 0xEF, 0x00, 0x20]) + bytes(28)
        reqs.append(bytes(b))
    for ulen in (8, 12, 16, 20, 36):     # one unique-identifier field of ulen bytes as last field, then optionally a 20-byte MAC
        for mac in (0, 20):
            n += 1
            b = hdr(0x23, n)
            b += bytes([0x01, 0x04]) + ulen.to_bytes(2, "big") + bytes(rng.randrange(256) for _ in range(ulen - 4))
            b += bytes(rng.randrange(256) for _ in range(mac))
            reqs.append(bytes(b))
    for _ in range(6):                   # random tails
        n += 1
        b = hdr(0x23, n) + bytes(rng.randrange(256) for _ in range(4 * rng.randint(1, 12)))
        reqs.append(bytes(b))
    return reqs


def daemon_loopback(c):
    """the daemon side of C16 on the real code: ServerTask::serve on a loopback UDP socket (harness/ntpd/c16.rs)"""
    from tools import vplib
    exe, log, mode = vplib.build_harness("ntpd", "C16")
    if exe is None:
        c.not_shown_because("correspondence C16 daemon loopback: the ntpd harness no longer builds: %s" % log[-1200:])
        return
    reqs = daemon_requests(c.rng)
    lines = ["%d %s" % (i, r.hex()) for i, r in enumerate(reqs)]
    rc, out, res = vplib.run_harness(exe, "C16", lines, "ntpd", timeout=900)
    answered = longer = 0
    got = {}
    for l in res:
        t = l.split()
        if len(t) >= 4 and t[1] != "PANIC":
            got[int(t[0])] = (int(t[1]), int(t[2]), int(t[3]))
    if rc != 0 or not got:
        c.notes.append("daemon loopback run produced no result (rc=%s): %s" % (rc, out[-300:]))
    alive = any(v[2] > 0 for v in got.values())
    for i, (rl, reply, sentinel) in sorted(got.items()):
        c.count_case("daemon " + lines[i], nontrivial=reply > 0)
        if reply > 0:
            answered += 1
        if reply > rl:
            longer += 1
            c.fail("the daemon answered a %d-byte request with %d bytes (real ServerTask on a loopback UDP socket)" % (rl, reply),
                   {"request_hex": reqs[i].hex(), "request_len": rl, "reply_len": reply, "harness_input": lines[i], "crate": "ntpd"})
        if sentinel > 48:
            c.fail("the daemon answered a plain 48-byte poll with %d bytes" % sentinel, {"harness_input": lines[i], "crate": "ntpd"})
    c.cov["daemon_loopback"] = {"requests": len(reqs), "results": len(got), "answered": answered, "server_alive": alive,
                                "replies_longer_than_request": longer}
    if not alive:
        c.notes.append("the loopback server did not answer the sentinel polls (socket unavailable or machine overloaded); daemon side covered by the source-text tie only in this run")


def main():
    return p2b.run_property(
        "C16", monitor, pre_finish=daemon_loopback, crate_rule=
        "grammar-generated request datagrams (NTPv3/v4/v5, 0-10 extension fields of every kind and size class, MACs, NTS layouts "
        "with cookie/placeholders/unique identifiers in untrusted, authenticated and encrypted position, nonce lengths 0-32, wrong keys, "
        "rotated server keys, truncations and byte damage), each through NtpPacket::deserialize, Server::handle with a request-sized, a "
        "1024-byte and sometimes a third small buffer, or through one of the seven response builders + serialize; compared with the model: "
        "statistics, every clear byte of the answer (server cookie masked), authenticator sizes, decrypted fresh-cookie lengths, request "
        "length formula and well-formedness; non-trivial = the decoder accepted the datagram (Ok or DecryptError); distinct = distinct input lines; "
        "plus the daemon side: the real ServerTask::serve loop on a loopback UDP socket with ordinary polls and requests of the C17 class, reply length <= request length")


MANIFEST = {
    "claimed": True,
    "text": 'Theorems (Coq, closed under the global context; for every parsed request, well-formed or not, every configuration, server state, clock, cookie algorithm and both shapes of the cookie loop): every answer Server::handle or any response builder + serialize produces is at most as long as the buffer it was given (C16_cursor, C16_serialize_bounded); the daemon calls handle with the receive and the send buffer both cut to the received length and sends exactly the returned slice (source text re-extracted on every run), so its reply is at most as long as the request (C16_daemon); NTPv5 padding brings an answer to exactly the desired size when both are multiples of four and never rounds past it (C16_v5_padding_exact, C16_v5_no_rounding); every encoded field list has a length divisible by four (C16_mod4).',
    "note": "Trusted: Coq kernel + vm_compute; hand-written model coq/Model/Response.v over PARSED requests (the byte decoder is builder P1's; the request as the real decoder reports it is the model input); the bounded Cursor is modelled as one final length test (every write failure = Err), tied by runs with a request-sized, a 1024-byte and random small buffers; AES-SIV, nonces, the NTPv5 server cookie and cookie contents abstract (harness decrypts with the real keys); the daemon side of C16_daemon is the quoted source text (constants table) plus the reading that `length` is bytes_read; requests <= 1024 bytes in the runs. Print Assumptions: closed under the global context.",
    "design_ref": "DESIGN.md 3 C16",
}
