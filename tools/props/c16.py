"""C16: server responses are never larger than the request.
Model: coq/Model/Response.v; theorems: coq/Props/C16.v; tie: Server::handle and the response builders
through harness/ntp-proto/c16.rs (shared code p2b.rs), driver code shared in tools/p2b.py."""
from tools import p2b


def monitor(case, out):
    return p2b.monitor_c16(case, out)


def main():
    return p2b.run_property(
        "C16", monitor,
        "grammar-generated request datagrams (NTPv3/v4/v5, 0-10 extension fields of every kind and size class, MACs, NTS layouts "
        "with cookie/placeholders/unique identifiers in untrusted, authenticated and encrypted position, nonce lengths 0-32, wrong keys, "
        "rotated server keys, truncations and byte damage), each through NtpPacket::deserialize, Server::handle with a request-sized, a "
        "1024-byte and sometimes a third small buffer, or through one of the seven response builders + serialize; compared with the model: "
        "statistics, every clear byte of the answer (server cookie masked), authenticator sizes, decrypted fresh-cookie lengths, request "
        "length formula and well-formedness; non-trivial = the decoder accepted the datagram (Ok or DecryptError); distinct = distinct input lines")


MANIFEST = {
    "claimed": True,
    "text": 'Theorems (Coq, closed under the global context; for every parsed request, well-formed or not, every configuration, server state, clock, cookie algorithm and both shapes of the cookie loop): every answer Server::handle or any response builder + serialize produces is at most as long as the buffer it was given (C16_cursor, C16_serialize_bounded); the daemon calls handle with the receive and the send buffer both cut to the received length and sends exactly the returned slice (source text re-extracted on every run), so its reply is at most as long as the request (C16_daemon); NTPv5 padding brings an answer to exactly the desired size when both are multiples of four and never rounds past it (C16_v5_padding_exact, C16_v5_no_rounding); every encoded field list has a length divisible by four (C16_mod4).',
    "note": "Trusted: Coq kernel + vm_compute; hand-written model coq/Model/Response.v over PARSED requests (the byte decoder is builder P1's; the request as the real decoder reports it is the model input); the bounded Cursor is modelled as one final length test (every write failure = Err), tied by runs with a request-sized, a 1024-byte and random small buffers; AES-SIV, nonces, the NTPv5 server cookie and cookie contents abstract (harness decrypts with the real keys); the daemon side of C16_daemon is the quoted source text (constants table) plus the reading that `length` is bytes_read; requests <= 1024 bytes in the runs. Print Assumptions: closed under the global context.",
    "design_ref": "DESIGN.md 3 C16",
}
