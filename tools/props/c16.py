"""C16: server responses are never larger than the request.
Model: coq/Model/Response.v; theorems: coq/Props/C16.v; tie: Server::handle and the response builders
through harness/ntp-proto/c16.rs (shared code p2b.rs), driver code shared in tools/p2b.py."""
from tools import p2b


def monitor(case, out):
    return p2b.monitor_c16(case, out)


def main():
    return p2b.run_property(
        "C16", monitor,
        "grammar-generated request datagrams (NTPv3/v4/v5, 0-10 extension fields of every kind and size class, MACs, NTS layouts "
        "with cookie/placeholders/unique identifiers in untrusted, authenticated and encrypted position, nonce lengths 0-32, wrong keys, "
        "rotated server keys, truncations and byte damage), each through NtpPacket::deserialize, Server::handle with a request-sized, a "
        "1024-byte and sometimes a third small buffer, or through one of the seven response builders + serialize; compared with the model: "
        "statistics, every clear byte of the answer (server cookie masked), authenticator sizes, decrypted fresh-cookie lengths, request "
        "length formula and well-formedness; non-trivial = the decoder accepted the datagram (Ok or DecryptError); distinct = distinct input lines")


MANIFEST = {
    "claimed": False,
    "text": "",
    "note": "",
    "design_ref": "DESIGN.md 3 C16",
}
