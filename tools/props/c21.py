"""C21: server statistics.  Model: coq/Model/Server.v (handle + ServerStats::register); theorems: coq/Props/C21.v;
ties: Server::handle with a recording ServerStatHandler (harness/ntp-proto/c21.rs) and the daemon's
ServerStats::register with its eleven counters (harness/ntpd/c21.rs)."""
import itertools

from tools import vplib
from tools.props import p2a_common as P


def buffer_stream(rng, n):
    """every outcome class under every buffer size class: serialisation failures are the registration paths the
    repository's tests do not cover"""
    res = []
    for _ in range(n):
        cfg = P.gen_cfg(rng, cache=0, cutoff=0)
        if rng.random() < 0.7:
            cfg["deny"], cfg["allow"] = [], ["0.0.0.0/0", "::/0"]
        cfg["accepted"] = rng.choice(["345", "345", "34", "45"])
        base = P.gen_base(rng, rng.choice(["plain", "nts", "badnts"]))
        o = P.gen_op(rng, base=base, clean=rng.random() < 0.8)
        ln = P.est_len(base)
        o["buf"] = rng.choice([0, 1, 3, 4, 5, 47, 48, 49, 83, 84, 85, 111, 112, 113, ln - 4, ln - 1, ln, ln + 1, ln + 4, 1024])
        if o["buf"] < 0:
            o["buf"] = 0
        res.append({"cfg": cfg, "ops": [o]})
    return res


def main():
    c = vplib.Check("C21")
    c.run_gate()
    rng = c.rng
    quick = c.tier == "quick"
    grid = P.policy_grid()
    scenarios = list(grid)
    scenarios += buffer_stream(rng, 700 if quick else 4000)
    for _ in range(900 if quick else 5000):
        cfg = P.gen_cfg(rng)
        scenarios.append({"cfg": cfg, "ops": [P.gen_op(rng) for _ in range(rng.choice([1, 1, 2, 4]))]})
    rp = P.replay_tokens()
    if rp is not None:
        scenarios = [P.scenario_of_line(rp)] if rp and rp[0] == "srv" else []
    outs, stats = P.run_scenarios(c, scenarios, P.monitor_c21, compare_c15_class=True)

    # ---- the daemon's counters -------------------------------------------------------------
    singles = [[g] for g in itertools.product((0, 1), range(5), range(4))]             # all 40 registrations
    pairs = [[a, b] for a in itertools.product((0, 1), range(5), range(4)) for b in itertools.product((0, 1), (0, 4), range(4))]
    seqs = [[]] + singles + pairs
    for _ in range(300 if quick else 1500):
        seqs.append([(rng.randrange(2), rng.randrange(5), rng.randrange(4)) for _ in range(rng.randint(3, 300))])

    def mon_counters(seq, out):
        v = [int(x) for x in out] if out and out[0] != "PANIC" else None
        if v is None:
            return ("ServerStats::register panicked", {"registrations": seq})
        # the property: every datagram exactly once in `received`, and in exactly one outcome counter matching its kind
        n = len(seq)
        want = [n, sum(1 for g in seq if g[2] == 3), sum(1 for g in seq if g[2] == 1),
                sum(1 for g in seq if g[2] == 2 and g[1] != 0), sum(1 for g in seq if g[2] == 2 and g[1] == 0)]
        nak = sum(1 for g in seq if g[2] == 0)
        if v[0:5] != want or v[10] != nak or v[5] != 0:
            return ("counters %s after %d registrations: expected received/accepted/denied/ignored/rate-limited %s, nak %d"
                    % (v, n, want, nak), {"registrations": seq})
        if v[1] + v[2] + v[3] + v[4] + v[10] != v[0]:
            return ("outcome counters do not add up to received: %s" % v, {"registrations": seq})
        nts = [sum(1 for g in seq if g[0]), sum(1 for g in seq if g[0] and g[2] == 3), sum(1 for g in seq if g[0] and g[2] == 1),
               sum(1 for g in seq if g[0] and g[2] == 2 and g[1] == 0)]
        if v[6:10] != nts:
            return ("NTS counters %s, expected %s" % (v[6:10], nts), {"registrations": seq})
        return None

    ev0 = c.cov["evaluations"]
    vplib.correspondence(
        c, "ntpd", seqs,
        line_of=lambda s: " ".join("%d %d %d" % g for g in s),
        coq_case_of=lambda s, out: None if (out and out[0] == "PANIC") else (
            vplib.coq_list(["(%d%%Z, %d%%Z, %d%%Z)" % g for g in s]) if s else "(@nil (Z * Z * Z))",
            vplib.coq_list([vplib.zlit(int(x)) for x in out])),
        preamble="From V Require Import Model.RateCache Model.Server.\n", checker="mismatches zlist_eqb stats_run",
        monitor=mon_counters, nontrivial=lambda s, out: len(s) >= 1,
        corr_name="correspondence C21 ServerStats model <-> ntpd harness", shard=300)
    stats["counter_sequences"] = len(seqs)
    stats["counter_sequences_exhaustive"] = "all 40 single registrations and all 40x16 pairs"
    c.cov["distribution"] = stats
    c.cov["rule"] = ("(a) Server::handle with a recording statistics handler on the complete policy grid of clean requests (%d cases), a "
                     "buffer-size stream (every outcome class x buffers of 0..request+4 bytes and 1024: serialisation failures), and random "
                     "configurations with plain/NTS/raw/mutated datagrams; compared: the list of registrations (version, nts flag, reason, "
                     "response) and the answer kind of every datagram; (b) ServerStats::register of the daemon on every single registration, "
                     "every pair, and random sequences of up to 300; compared: all eleven counters.  Non-trivial: decoder returned a packet "
                     "/ at least one registration" % len(grid))
    c.cov["exhaustive"] = True
    c.assumptions += P.COMMON_ASSUMPTIONS + [
        "the daemon line that feeds `self.stats` to Server::handle (ntpd/src/daemon/server.rs) is read, not executed; the datagram-without-"
        "timestamp path registers (0,false,InternalError,Ignore) once through the same `register`",
    ]
    return c.finish()


MANIFEST = {
    "claimed": True,
    "text": 'Theorems (Coq, closed) about the decision model of Server::handle, for every datagram summary, policy configuration, cache state and buffer outcome: exactly one ServerStatHandler::register call on every path incl. serialisation failure (C21_exactly_one), whose response kind is what was done: ProvideTime iff a time answer, Deny iff a DENY kiss, NTSNak iff a NAK, Ignore iff nothing sent (C21_kind_matches); the NTS flag is false for undecodable and for plain requests, true for every authenticating NTS request that is answered, and for a failing authenticator true when the NAK is sent (or could not be serialised) and false when policy answers DENY (C21_nts_flag). Daemon: after any sequence of registrations each of the eleven counters equals the number of registrations of its class mod 2^64 (C21_counters), every registration is in `received` and in exactly one outcome counter, NTS counters are sub-populations (C21_counters_partition); over any history of datagrams the class counts equal the numbers of time answers / DENY / NAK / unanswered datagrams (C21_history). Ties: Server::handle with a recording handler (policy grid, buffer-size stream, random); ServerStats::register on all single registrations, all pairs and random sequences.',
    "note": "Trusted: Coq kernel+vm_compute; hand-written model coq/Model/Server.v (handle, register); decoder, answer construction and 'answer fits the buffer' are inputs of the model (see C15); the daemon line passing `&mut self.stats` to Server::handle and the no-timestamp path (register(0,false,InternalError,Ignore)) are read, not executed; response_send_errors is outside `register`. Reading (DESIGN 5): 'plain' = decoded without cookie, 'NTS request' = authenticates under a server key; a NAK that does not fit the buffer is registered InternalError/Ignore WITH the NTS flag. Print Assumptions: closed under the global context for all six theorems.",
    "design_ref": "DESIGN.md 3 C21",
}
