"""C30: NTS-KE records and messages are parsed totally, boundedly and round-trip.
Model: coq/Model/NtsRecord.v, coq/Model/NtsMsg.v; theorems: coq/Props/C30.v;
tie: NtsRecord::parse/serialize, Request::parse/serialize, KeyExchangeResponse::parse/serialize
driven on in-memory readers through harness/ntp-proto/c30.rs."""
import os

from tools import vplib

CAP = 4096
KNOWN = [0, 1, 2, 3, 4, 5, 6, 7, 8, 9, 10, 12, 13, 14]
CRIT_DEFAULT = {0: 1, 1: 1, 2: 1, 3: 1, 4: 1, 5: 0, 6: 1, 7: 1, 8: 0, 9: 1, 10: 1, 12: 1, 13: 0, 14: 0}


# ---------------------------------------------------------------- byte builders
def be16(v):
    return bytes([(v >> 8) & 255, v & 255])


def rec(ty, body, crit=None, size=None):
    """one record; crit None = the serializer's choice; size None = the true body size"""
    if crit is None:
        crit = CRIT_DEFAULT.get(ty, 0)
    t = (ty & 0x7FFF) | (0x8000 if crit else 0)
    return be16(t) + be16(len(body) if size is None else size & 0xFFFF) + bytes(body)


def u16list(vals):
    return b"".join(be16(v) for v in vals)


UTF8_GOOD = ["", "a", "hi", "time.example.com", "ntpé.example", "€", "\U0001F600x", "߿ࠀ￿\U00010000\U0010ffff",
             "pool-token-123", "퟿"]
UTF8_BAD = [b"\x80", b"\xc0\x80", b"\xc1\xbf", b"\xc2", b"\xe0\x9f\xbf", b"\xe0\xa0", b"\xed\xa0\x80", b"\xed\xbf\xbf",
            b"\xf0\x8f\xbf\xbf", b"\xf4\x90\x80\x80", b"\xf5\x80\x80\x80", b"\xff", b"ab\xc3", b"\xe2\x82", b"\xf0\x9f\x98",
            b"a\x80b", b"\xc2\xc2\x80", b"\xe1\x80\xc0", b"\xf1\x80\x80\x7f"]


def rand_string(rng):
    k = rng.random()
    if k < 0.6:
        return rng.choice(UTF8_GOOD).encode()
    if k < 0.75:
        return "".join(chr(rng.choice([rng.randint(0, 0x7f), rng.randint(0x80, 0x7ff), rng.randint(0x800, 0xd7ff),
                                       rng.randint(0xe000, 0xffff), rng.randint(0x10000, 0x10ffff)]))
                       for _ in range(rng.randint(0, 6))).encode()
    if k < 0.9:
        return rng.choice(UTF8_BAD)
    return bytes(rng.randint(0, 255) for _ in range(rng.randint(1, 6)))


def rand_bytes(rng, n):
    return bytes(rng.randint(0, 255) for _ in range(n))


IDS = [0, 0x8001, 15, 17, 1, 2, 0x8000, 0xFFFF, 16, 0x7FFF]


def rand_ids(rng, n=None):
    if n is None:
        n = rng.choice([0, 1, 1, 1, 2, 2, 3, 5])
    return [rng.choice(IDS) if rng.random() < 0.8 else rng.randint(0, 0xFFFF) for _ in range(n)]


def rand_body(rng, ty):
    """a well-formed body for the record type"""
    if ty in (0, 8):
        return b"" if rng.random() < 0.7 else rand_bytes(rng, rng.randint(1, 6))
    if ty in (1, 4, 9):
        return u16list(rand_ids(rng))
    if ty in (2, 3, 7):
        return be16(rng.choice([0, 1, 2, 3, 123, 4460, 0xFFFF]))
    if ty == 5:
        return rand_bytes(rng, rng.choice([0, 1, 8, 100, 104]))
    if ty in (6, 13, 14):
        s = rand_string(rng)
        return s
    if ty == 10:
        return u16list(rand_ids(rng, 2 * rng.choice([0, 1, 2, 3])))
    if ty == 12:
        k = rng.choice([0, 1, 16, 31, 32, 33, 63, 64, 65])
        return rand_bytes(rng, 2 * k)
    return rand_bytes(rng, rng.choice([0, 1, 2, 5, 40]))


def rand_type(rng):
    k = rng.random()
    if k < 0.7:
        return rng.choice(KNOWN)
    if k < 0.9:
        return rng.choice([11, 15, 16, 0x7FFF, 0x4000, 100])
    return rng.randint(0, 0x7FFF)


def rand_record(rng, malformed=0.25):
    ty = rand_type(rng)
    body = rand_body(rng, ty)
    crit = None if rng.random() < 0.6 else rng.randint(0, 1)
    size = None
    if rng.random() < malformed:
        k = rng.random()
        if k < 0.3:
            size = len(body) + rng.choice([-2, -1, 1, 2, 3])      # length-field lie
            if size < 0:
                size = 0
        elif k < 0.5:
            body = body + rand_bytes(rng, rng.choice([1, 2, 3]))    # body too long for the kind
        elif k < 0.7:
            body = body[:max(0, len(body) - rng.choice([1, 2, 3]))]  # body too short for the kind
        elif k < 0.8:
            size = rng.choice([0xFFFF, 0x8000, 4096, 4097, 1000])
        else:
            body = rand_bytes(rng, rng.randint(0, 9))
    return rec(ty, body, crit, size)


# ---------------------------------------------------------------- message builders
def key_exchange_records(rng):
    rs = [rec(1, u16list(rand_ids(rng, rng.choice([1, 1, 2, 3])))), rec(4, u16list(rand_ids(rng, rng.choice([1, 1, 2, 3]))))]
    for _ in range(rng.choice([0, 0, 0, 1, 2, 3])):
        rs.append(rec(13, rng.choice(UTF8_GOOD).encode()))
    return rs


def fixed_key_records(rng):
    a = rng.choice([15, 15, 17, 17, 16, 0])
    k = {15: 32, 17: 64}.get(a, 32)
    if rng.random() < 0.25:
        k += rng.choice([-1, 1, 32, -32])
    k = max(k, 0)
    rs = [rec(14, rng.choice(UTF8_GOOD).encode()), rec(12, rand_bytes(rng, 2 * k)),
          rec(1, u16list([rng.choice(IDS)])), rec(4, u16list([a]))]
    if rng.random() < 0.5:
        rs.append(rec(8, b""))
    return rs


def support_records(rng):
    rs = [rec(14, rng.choice(UTF8_GOOD).encode())]
    w = rng.choice([1, 2, 3])
    if w & 1:
        rs.append(rec(9, u16list(rand_ids(rng, rng.choice([0, 0, 1])))))
    if w & 2:
        rs.append(rec(10, u16list(rand_ids(rng, 2 * rng.choice([0, 0, 1])))))
    if rng.random() < 0.5:
        rs.append(rec(8, b""))
    return rs


def response_records(rng):
    rs = [rec(1, u16list([rng.choice(IDS)])), rec(4, u16list([rng.choice(IDS)]))]
    for _ in range(rng.choice([0, 1, 7, 8, 8, 8, 9, 12])):
        rs.append(rec(5, rand_bytes(rng, rng.choice([0, 1, 64, 100]))))
    if rng.random() < 0.4:
        rs.append(rec(6, rng.choice(UTF8_GOOD).encode()))
    if rng.random() < 0.4:
        rs.append(rec(7, be16(rng.choice([123, 4460, 0, 0xFFFF]))))
    if rng.random() < 0.3:
        rs.append(rec(8, b""))
    return rs


def mutate_records(rng, rs, strength):
    """record-level mutations of a message"""
    rs = list(rs)
    n = 0
    while rng.random() < strength and n < 4:
        n += 1
        k = rng.random()
        if k < 0.2 and rs:
            rs.insert(rng.randint(0, len(rs)), rng.choice(rs))                       # duplicate
        elif k < 0.35 and rs:
            del rs[rng.randrange(len(rs))]                                           # drop
        elif k < 0.5:
            rs.insert(rng.randint(0, len(rs)), rec(rng.choice([11, 15, 0x7FFF, 300]), rand_bytes(rng, rng.randint(0, 5)), rng.randint(0, 1)))
        elif k < 0.75:
            ty = rng.choice(KNOWN[1:])
            rs.insert(rng.randint(0, len(rs)), rec(ty, rand_body(rng, ty), None if rng.random() < 0.7 else rng.randint(0, 1)))
        elif k < 0.85:
            rng.shuffle(rs)
        else:
            rs.insert(rng.randint(0, len(rs)), rand_record(rng, 0.8))
    return rs


def end_record(rng):
    k = rng.random()
    if k < 0.75:
        return rec(0, b"")
    if k < 0.85:
        return rec(0, rand_bytes(rng, rng.randint(1, 5)))
    if k < 0.92:
        return rec(0, b"", 0)
    return b""


def rand_message(rng, kind):
    if kind == "req":
        rs = rng.choice([key_exchange_records, fixed_key_records, support_records])(rng)
    else:
        rs = response_records(rng)
    rs = mutate_records(rng, rs, 0.45)
    b = b"".join(rs) + end_record(rng)
    k = rng.random()
    if k < 0.1:
        b = b[:rng.randint(0, len(b))]                       # truncation anywhere
    elif k < 0.25:
        b = b + rand_bytes(rng, rng.randint(1, 8))           # bytes after the message
    elif k < 0.3 and b:
        i = rng.randrange(len(b))
        b = b[:i] + bytes([b[i] ^ (1 << rng.randint(0, 7))]) + b[i + 1:]
    return b


def pad_to(rng, total, kind):
    """non-critical filler records (ignored by the parser) adding up to exactly `total` bytes (total >= 4)"""
    out = b""
    filler = 5 if kind == "resp" else 15     # response: cookies (the 9th and later are dropped); request: unknown non-critical
    while total > 0:
        if total < 8:
            n = total
        else:
            n = min(total, rng.choice([300, 700, 1024]))
            if 0 < total - n < 4:
                n = total - 4
        out += rec(filler if rng.random() < 0.7 else 15, rand_bytes(rng, n - 4), 0)
        total -= n
    return out


def straddling_message(rng, kind, end_at):
    """a valid message whose last byte is at offset end_at (so the cap at 4096 bites for end_at > 4096)"""
    if kind == "req":
        core = b"".join(rng.choice([key_exchange_records, fixed_key_records, support_records])(rng))
    else:
        core = b"".join(response_records(rng))
    tail = rec(0, b"")
    fill = end_at - len(core) - len(tail)
    if fill < 4:
        return core + tail
    parts = [core, pad_to(rng, fill, kind)]
    if rng.random() < 0.5:
        parts.reverse()
    return b"".join(parts) + tail + (rand_bytes(rng, rng.randint(0, 9)) if rng.random() < 0.5 else b"")


# ---------------------------------------------------------------- the monitor
def monitor(case, out):
    """the property itself on one implementation run: no panic, at most 4096 bytes of a message consumed,
    whatever is accepted re-serialises to bytes that parse back to the same value"""
    op, data = case[0], bytes.fromhex(case[1])
    if out[0] == "PANIC":
        return ("%s parser panics on %d bytes: %s" % (op, len(data), " ".join(out[1:])[:100]), {"op": op, "bytes_hex": data.hex()})
    ints = out[1:]
    consumed = int(ints[1]) if ints[0] == "0" else int(ints[2])
    if op != "rec" and consumed > CAP:
        return ("%s parser consumed %d > 4096 bytes" % (op, consumed), {"op": op, "bytes_hex": data.hex()})
    if consumed > len(data) or consumed < 0:
        return ("%s parser reports %d bytes consumed of %d" % (op, consumed, len(data)), {"op": op, "bytes_hex": data.hex()})
    if ints[0] == "0" and out[0] != "1":
        return ("%s accepted by the parser does not survive serialize-then-parse" % op, {"op": op, "bytes_hex": data.hex()})
    return None


OPS = {"rec": 0, "req": 1, "resp": 2}
PREAMBLE = ("From Coq Require Import String.\nFrom V Require Import Base.NtsHex Model.NtsMsg.\n"
            "Open Scope string_scope.\nNotation hw := (flat_map hex_ints).\n")


def chunks(h, n):
    return vplib.coq_list(['"%s"' % h[i:i + n] for i in range(0, len(h), n)])



def hexints(ints):
    """two hex digits per integer below 255, else ff + six digits (all integers of the encodings are within 0 .. 2^24-1);
    chunks end on integer boundaries"""
    out, cur = [], []
    n = 0
    for x in ints:
        if not 0 <= x < (1 << 24):
            return vplib.coq_list([vplib.zlit(v) for v in ints])
        t = "%02x" % x if x < 255 else "ff%06x" % x
        cur.append(t)
        n += len(t)
        if n >= 6000:
            out.append("".join(cur))
            cur, n = [], 0
    if cur:
        out.append("".join(cur))
    return "hw " + vplib.coq_list(['"%s"' % c for c in out])


def balance(cases, nshards):
    """order the cases so that consecutive blocks of ceil(n/nshards) cases have about the same total size
    (the Coq side is sharded into consecutive blocks and its cost is proportional to the bytes)"""
    per = -(-len(cases) // nshards)
    order = sorted(range(len(cases)), key=lambda i: -len(cases[i][1]))
    buckets = [[] for _ in range(nshards)]
    load = [0] * nshards
    for i in order:
        k = min((b for b in range(nshards) if len(buckets[b]) < per), key=lambda b: load[b])
        buckets[k].append(cases[i])
        load[k] += len(cases[i][1]) + 40
    return [c for b in buckets for c in b], per


def load_corpus():
    d = os.path.join(vplib.VERIF, "corpus", "C30")
    cases = []
    if os.path.isdir(d):
        for f in sorted(os.listdir(d)):
            for line in open(os.path.join(d, f)):
                t = line.split("#")[0].split()
                if len(t) == 2 and t[0] in OPS:
                    cases.append((t[0], bytes.fromhex(t[1]) if t[1] != "-" else b""))
    return cases


def build_cases(c):
    rng = c.rng
    thorough = c.tier == "thorough"
    cases = load_corpus()
    dist = {"corpus": len(cases)}

    # 1. records: one of every kind with every boundary body, then random (structured + malformed)
    n0 = len(cases)
    for ty in KNOWN + [11, 15, 0x7FFF]:
        for crit in (0, 1):
            for body in (b"", b"\x00", b"\x00\x01", b"\x00\x01\x02", b"\x00\x0f\x00\x20", b"hello", bytes(range(64)), bytes(range(128)) + bytes(range(2))):
                cases.append(("rec", rec(ty, body, crit)))
                cases.append(("rec", rec(ty, body, crit) + b"\x80\x00"))
                cases.append(("rec", rec(ty, body, crit, len(body) + 1)))
                if body:
                    cases.append(("rec", rec(ty, body[:-1], crit, len(body))))
    for i in range(0, 5):
        cases.append(("rec", b"\x80\x05\x00\x00"[:i]))
    for s in UTF8_GOOD:
        for ty in (6, 13, 14):
            cases.append(("rec", rec(ty, s.encode())))
    for s in UTF8_BAD:
        for ty in (6, 13, 14):
            cases.append(("rec", rec(ty, s)))
            cases.append(("rec", rec(ty, b"ok" + s + b"ok")))
            cases.append(("rec", rec(ty, s, None, len(s) + 2)))     # invalid and truncated: which error wins
    for size in ((65535, 65534, 4096, 4097) if thorough else (4096, 4097)):
        cases.append(("rec", rec(5, rand_bytes(rng, size))))
        cases.append(("rec", rec(15, rand_bytes(rng, size - 1), 1, size)))
    if thorough:
        cases.append(("rec", rec(1, u16list(rand_ids(rng, 32767)))))
        cases.append(("rec", rec(12, rand_bytes(rng, 65534))))
        cases.append(("rec", rec(12, rand_bytes(rng, 65535))))
    cases.append(("rec", rec(1, u16list(rand_ids(rng, 3000)))))
    cases.append(("rec", rec(12, rand_bytes(rng, 6000))))
    cases.append(("rec", rec(12, rand_bytes(rng, 6001))))
    cases.append(("rec", rec(6, b"\xc3\xa9" * 4000)))
    cases.append(("rec", rec(5, b"", None, 65535)))
    cases.append(("rec", rec(12, b"abc", None, 65535)))
    for _ in range(6000 if thorough else 500):
        cases.append(("rec", rand_record(rng) + (rand_bytes(rng, rng.randint(0, 6)) if rng.random() < 0.5 else b"")))
    dist["records"] = len(cases) - n0

    # 2. UTF-8 validator: all 1- and 2-byte strings (thorough), boundary grid for 3 and 4 bytes
    n0 = len(cases)
    grid = [0x00, 0x7F, 0x80, 0x8F, 0x90, 0x9F, 0xA0, 0xBF, 0xC0, 0xFF]
    utf = []
    for a in range(256):
        utf.append(bytes([a]))
        for b in (range(256) if thorough else grid):
            utf.append(bytes([a, b]))
    for a in range(0xC0, 0x100):
        for b in grid:
            for d in grid:
                utf.append(bytes([a, b, d]))
                if a >= 0xE0 and thorough:
                    for e in grid:
                        utf.append(bytes([a, b, d, e]))
                elif a >= 0xF0:
                    utf.append(bytes([a, b, d, rng.choice(grid)]))
    if not thorough:
        utf = rng.sample(utf, 600)
    for s in utf:
        cases.append(("rec", rec(rng.choice([6, 13, 14]), s)))
    dist["utf8_strings"] = len(cases) - n0

    # 3. messages: grammar + record-level mutations + truncations
    n0 = len(cases)
    for kind in ("req", "resp"):
        for _ in range(8000 if thorough else 600):
            cases.append((kind, rand_message(rng, kind)))
        # hand-made boundary messages
        cases.append((kind, b""))
        cases.append((kind, rec(0, b"")))
        cases.append((kind, rec(0, b"", 0)))
    for a, k in ((15, 32), (17, 64), (15, 64), (17, 32), (15, 31), (15, 33), (17, 63), (17, 65), (16, 32), (0xFFFF, 64)):
        for np_, na in ((1, 1), (0, 1), (1, 0), (2, 1), (1, 2)):
            cases.append(("req", rec(14, b"tok") + rec(12, rand_bytes(rng, 2 * k)) + rec(1, u16list([0] * np_)) + rec(4, u16list([a] * na)) + rec(0, b"")))
    dist["messages"] = len(cases) - n0

    # 4. the 4096-byte cap: messages ending at every offset around the cap, and far beyond
    n0 = len(cases)
    ends = (list(range(CAP - 9, CAP + 10)) if thorough else list(range(CAP - 4, CAP + 6))) + [CAP + 100, 2 * CAP, 9000]
    for kind in ("req", "resp"):
        for e in ends:
            for _ in range(3 if thorough else 1):
                cases.append((kind, straddling_message(rng, kind, e)))
        # one record whose body crosses the cap; a string record crossing the cap; never-ending filler
        cases.append((kind, rec(15, rand_bytes(rng, 5000), 0) + rec(0, b"")))
        cases.append((kind, rec(14, b"a" * 4090) + rec(0, b"")))
        cases.append((kind, rec(14, b"a" * 4093) + rec(0, b"")))
        cases.append((kind, pad_to(rng, 6000, kind)))
        cases.append((kind, rec(0, rand_bytes(rng, 4092))))
        cases.append((kind, rec(0, rand_bytes(rng, 4093))))
        cases.append((kind, rec(8, b"") * 1023 + rec(0, b"")))
        cases.append((kind, rec(8, b"") * 1024 + rec(0, b"")))
    dist["cap_straddling"] = len(cases) - n0
    dist["total"] = len(cases)
    c.cov["utf8_exhaustive_1_2_bytes"] = thorough
    return [[op, data.hex()] for op, data in cases], dist


def main():
    c = vplib.Check("C30")
    c.run_gate()
    cases, dist = build_cases(c)
    cases = vplib.replay_cases() or cases
    cases, per_shard = balance(cases, vplib.NCPU)

    outcome = {"accepted": 0, "rejected": 0, "panic": 0}
    errs = {}

    def nontrivial(case, out):
        # the parser got past the 4-byte record header
        if out[0] == "PANIC":
            outcome["panic"] += 1
            return True
        if out[1] == "0":
            outcome["accepted"] += 1
            return True
        outcome["rejected"] += 1
        errs[int(out[2]) % 16] = errs.get(int(out[2]) % 16, 0) + 1
        return int(out[3]) > 4

    def coq_case(case, out):
        op, data = case
        inp = "(%d, %s)" % (OPS[op], chunks(data, 6000))
        if out[0] == "PANIC":
            return inp, "[2]"
        return inp, hexints([int(x) for x in out[1:]])

    vplib.correspondence(
        c, "ntp-proto", cases,
        line_of=lambda case: "%s %s" % (case[0], case[1] or "-"),
        coq_case_of=coq_case,
        preamble=PREAMBLE,
        checker="mismatches zlist_eqb run30s",
        monitor=monitor,
        nontrivial=nontrivial,
        shard=per_shard,
        sample_of=lambda case, out: {"op": case[0], "bytes_hex": case[1][:120], "len": len(case[1]) // 2, "implementation": " ".join(out)[:160]},
    )
    dist["outcomes"] = outcome
    dist["error_classes"] = {str(k): v for k, v in sorted(errs.items())}
    dist["max_len"] = max(len(x[1]) for x in cases) // 2
    c.cov["distribution"] = dist
    c.cov["rule"] = ("records of all 14 kinds + unknown types with both critical bits, boundary bodies, length-field lies, "
                     "truncations; UTF-8 strings (boundary grid; all 1-2 byte strings in the thorough tier); request and response "
                     "messages from the grammar with record-level mutations; messages ending at every offset 4092..4101 (thorough: 4087..4105) and beyond the "
                     "4096-byte cap.  Compared: outcome class, bytes consumed (also on errors), the parsed value and its "
                     "re-serialisation.  Non-trivial = accepted, or rejected after the record header was read")
    c.assumptions += [
        "hand-written byte-level model (coq/Model/NtsRecord.v, NtsMsg.v) tied by the correspondence above; the reader is an in-memory reader (end of input = EOF), TLS stream errors other than EOF are outside the model",
        "enum ids are modelled by their u16 value; the harness reports -1 for any parsed id on which From<u16>/Into<u16> are not inverse",
        "ciphers of a fixed-key request are their key bytes (32 / 64); serialisation is modelled for bodies that fit a u16 (all parsed values)",
    ]
    return c.finish()


MANIFEST = {
    "claimed": True,
    "text": "Theorems (Coq, all byte lists of any length, no bound): the record, request and response parsers never panic (C30_total_record/_request/_response; the model's panic sites are the guarded algorithms[0]/protocols[0] of Request::parse and exhaustion of the record-loop fuel, i.e. non-termination); in every outcome, accepted or rejected, a message parser has consumed a prefix of at most 4096 bytes and its outcome is its outcome on the first 4096 bytes (C30_bounded_*, C30_*_sees_4096); whatever a parser accepts re-serialises to bytes that parse back to the same value whatever follows (C30_record_roundtrip, C30_request_roundtrip, C30_response_roundtrip), the re-serialisation being no longer than what was consumed, hence within the cap (C30_*_reserialisation_*). Tie: NtsRecord/Request/KeyExchangeResponse parse+serialize driven on in-memory readers, compared with the model on outcome class, bytes consumed (also on errors), parsed value and re-serialised bytes, on ~3700 (quick) structured, boundary, malformed and cap-straddling inputs per run.",
    "note": 'Trusted: Coq kernel+vm_compute; hand-written byte-level models coq/Model/NtsRecord.v, NtsMsg.v (incl. a Gallina UTF-8 validator mirroring core::str::from_utf8, cross-checked on a boundary grid each run and on all 1-2 byte strings in the thorough tier); the reader is an in-memory reader (end of input = EOF; TLS transport errors are outside the model); enum-with-Unknown ids modelled by their u16 value (harness flags any non-canonical parsed value); fixed-key ciphers are their key bytes (32/64, sizes from the crypto crate, hard-coded); serialisation modelled for bodies that fit a u16 (every parsed value); constants and a census of the mirrored constructs (dispatch arms, take(MAX_MESSAGE_SIZE), [0] indexings) regenerated from the sources each run (Gen/ConstNts.v); harness + python driver + hex transport decoder (Base/NtsHex.v). Print Assumptions: closed under the global context for all 15 theorems.',
    "design_ref": 'DESIGN.md 3 C30',
}
