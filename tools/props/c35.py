"""C35: pool sources are distinct, bounded and respect the ignore list.
Model: coq/Model/Pool.v; theorems: coq/Props/C35.v; tie: the real PoolSpawner (try_spawn,
handle_source_removed, is_complete, and its private current_sources / known_ips) through
harness/ntpd/c35.rs, whole histories with scripted DNS answers; and the real NtsPoolSpawner through
harness/ntpd/c35n.rs (own driver test verif_c35n_driver), whole histories with real NTS key exchanges
against scripted key exchange servers on loopback ports."""
import os

from tools import vplib

REASONS = {0: "Demobilized", 1: "NetworkIssue", 2: "Unreachable"}
# set VERIF_C35_DNS_ERR=0 to leave out the rounds whose name does not resolve (they ask the real resolver)
DNS_ERR = os.environ.get("VERIF_C35_DNS_ERR", "1") == "1"


# ---------------------------------------------------------------- case <-> text
def line_of(case):
    t = [str(case["count"]), str(len(case["ignore"]))] + [str(i) for i in case["ignore"]]
    for op in case["ops"]:
        if op[0] == "T":
            if op[1] is None:
                t += ["T", "E"]
            else:
                t += ["T", str(len(op[1]))]
                for ip, port in op[1]:
                    t += [str(ip), str(port)]
        else:
            t += ["R", str(op[1]), str(op[2])]
    return " ".join(t)


def parse_line(line):
    t = line.split()
    p = 0
    count = int(t[p]); p += 1
    n = int(t[p]); p += 1
    ign = [int(x) for x in t[p:p + n]]; p += n
    ops = []
    while p < len(t):
        if t[p] == "T":
            if t[p + 1] == "E":
                ops.append(("T", None)); p += 2
            else:
                k = int(t[p + 1]); p += 2
                ops.append(("T", [(int(t[p + 2 * j]), int(t[p + 2 * j + 1])) for j in range(k)])); p += 2 * k
        else:
            ops.append(("R", int(t[p + 1]), int(t[p + 2]))); p += 3
    return {"count": count, "ignore": ign, "ops": ops}


def coq_addr(a):
    return "(%s, %s)" % (vplib.zlit(a[0]), vplib.zlit(a[1]))


def coq_input(case):
    ops = []
    for op in case["ops"]:
        if op[0] == "T":
            ops.append("TrySpawn None" if op[1] is None else "TrySpawn (Some %s)" % vplib.coq_list([coq_addr(a) for a in op[1]]))
        else:
            ops.append("Removed %s %s" % (vplib.zlit(op[1]), REASONS[op[2]]))
    return "(%d%%nat, %s, %s)" % (case["count"], vplib.coq_list([vplib.zlit(i) for i in case["ignore"]]), vplib.coq_list(ops))


# ---------------------------------------------------------------- reading one implementation run
def split_output(case, out):
    """-> (per-op records, final current, final known) or None when the output is not well formed.
    record for T: ("T", [(id, ip, port)...], complete), for R: ("R", complete)"""
    try:
        v = [int(x) for x in out]
    except ValueError:
        return None
    p = 0
    recs = []
    try:
        for op in case["ops"]:
            if op[0] == "T":
                n = v[p]; p += 1
                evs = [(v[p + 3 * j], (v[p + 3 * j + 1], v[p + 3 * j + 2])) for j in range(n)]; p += 3 * n
                recs.append(("T", evs, v[p])); p += 1
            else:
                recs.append(("R", v[p])); p += 1
        n = v[p]; p += 1
        cur = [(v[p + 3 * j], (v[p + 3 * j + 1], v[p + 3 * j + 2])) for j in range(n)]; p += 3 * n
        n = v[p]; p += 1
        known = [(v[p + 2 * j], v[p + 2 * j + 1]) for j in range(n)]; p += 2 * n
    except IndexError:
        return None
    if p != len(v):
        return None
    return recs, cur, known


def monitor(case, out):
    """the property itself on one run of the implementation: the active sources are followed from the
    SpawnEvents and the removals only (no model, no look at the spawner's fields)"""
    if out and out[0] == "PANIC":
        return ("pool spawner panicked: %s" % " ".join(out[1:]), {"case": line_of(case)})
    r = split_output(case, out)
    if r is None:
        return None
    recs = r[0]
    active = {}      # id -> addr
    created = []     # ids in order of creation
    for k, (op, rec) in enumerate(zip(case["ops"], recs)):
        if op[0] == "T":
            for sid, a in rec[1]:
                what = None
                if a[0] in case["ignore"]:
                    what = "a source is created for the ignored address ip#%d" % a[0]
                elif a in active.values():
                    what = "two active sources for the same address ip#%d port %d" % a
                elif len(active) + 1 > case["count"]:
                    what = "%d active sources with count = %d" % (len(active) + 1, case["count"])
                if what:
                    return ("%s (operation %d of: %s)" % (what, k, line_of(case)),
                            {"count": case["count"], "ignore": case["ignore"], "operations": case["ops"][:k + 1],
                             "active_before": sorted(active.items()), "event": [sid, a]})
                active[sid] = a
                created.append(sid)
        else:
            kth = op[1]
            if kth < len(created):
                active.pop(created[kth], None)
    return None


# ---------------------------------------------------------------- generators
class Sim:
    """generator aid only (never used for a verdict): guesses which sources are active so that
    removals mostly hit active sources"""

    def __init__(self, count, ignore):
        self.count, self.ignore, self.cur, self.known, self.n = count, ignore, [], [], 0

    def spawn(self, dns):
        if len(self.cur) >= self.count:
            return
        if len(self.known) < self.count - len(self.cur):
            if dns is None:
                return
            act = [a for _, a in self.cur]
            self.known = [a for a in self.known + dns if a not in act and a[0] not in self.ignore]
        while len(self.cur) < self.count and self.known:
            a = self.known.pop()
            if a in [x for _, x in self.cur]:
                continue
            self.cur.append((self.n, a))
            self.n += 1

    def remove(self, k):
        self.cur = [(i, a) for i, a in self.cur if i != k]


def gen_answer(rng, addrs, sim, style):
    if style == "err":
        return None
    if style == "empty":
        return []
    if style == "dups":
        a = rng.choice(addrs)
        return [a] * rng.randint(2, 5) + ([rng.choice(addrs)] if rng.random() < 0.5 else [])
    if style == "ignored" and sim.ignore:
        ig = [a for a in addrs if a[0] in sim.ignore] or addrs
        return [rng.choice(ig) for _ in range(rng.randint(1, 4))]
    if style == "overlap" and sim.cur:
        l = [a for _, a in sim.cur]
        l += [rng.choice(addrs) for _ in range(rng.randint(0, 3))]
        rng.shuffle(l)
        return l
    if style == "exact":
        n = max(0, sim.count - len(sim.cur) + rng.choice([-1, 0, 0, 1]))
        return rng.sample(addrs, min(n, len(addrs)))
    return [rng.choice(addrs) for _ in range(rng.randint(1, 8))]


def gen_case(rng, stats, boundary=False):
    nip = rng.randint(2, 7)
    ips = rng.sample([1, 2, 3, 4, 5, 6, 7, 255, 256, 999, 1000, 1001, 70000], nip)
    ports = [123] if rng.random() < 0.7 else [123, 124]
    addrs = [(ip, p) for ip in ips for p in ports]
    count = rng.choice([0, 1, 1, 2, 2, 2, 3, 3, 4, 4, 5, 8]) if not boundary else rng.choice([0, 1, 2, len(addrs), len(addrs) + 1])
    ignore = rng.sample(ips, rng.choice([0, 0, 1, 1, 2, min(3, nip)]))
    if rng.random() < 0.1:
        ignore.append(4242)          # an ignored address that never shows up
    sim = Sim(count, ignore)
    ops = []
    styles = ["plain"] * 6 + ["dups"] * 3 + ["overlap"] * 3 + ["ignored"] * 2 + ["exact"] * 3 + ["empty"] + (["err"] if DNS_ERR else [])
    for _ in range(rng.randint(1, 24) if not boundary else rng.randint(2, 10)):
        if rng.random() < 0.55 or not ops:
            st = rng.choice(styles)
            dns = gen_answer(rng, addrs, sim, st)
            stats["answer_" + st] = stats.get("answer_" + st, 0) + 1
            ops.append(("T", dns))
            sim.spawn(dns)
        else:
            r = rng.random()
            if r < 0.8 and sim.cur:
                k = rng.choice(sim.cur)[0]
                stats["remove_active"] = stats.get("remove_active", 0) + 1
            elif r < 0.9:
                k = rng.randint(0, max(0, sim.n - 1))
                stats["remove_any_created"] = stats.get("remove_any_created", 0) + 1
            else:
                k = sim.n + rng.randint(0, 3)
                stats["remove_never_created"] = stats.get("remove_never_created", 0) + 1
            ops.append(("R", k, rng.randint(0, 2)))
            sim.remove(k)
    return {"count": count, "ignore": ignore, "ops": ops}


def fixed_cases():
    A, B, C, D = (1, 123), (2, 123), (3, 123), (4, 123)
    cs = [
        # the defect of the unrepaired code: duplicates inside one answer
        {"count": 2, "ignore": [], "ops": [("T", [A, A])]},
        # duplicates across answers: A left over in known_ips, answered again
        {"count": 1, "ignore": [], "ops": [("T", [A, B]), ("R", 0, 1), ("T", []), ("R", 1, 2), ("T", [A, A, A]), ("T", [A])]},
        {"count": 3, "ignore": [], "ops": [("T", [A, B, A, B, A])]},
        {"count": 3, "ignore": [], "ops": [("T", [A]), ("T", [A]), ("T", [A, A]), ("T", [B, A, B])]},
        # same ip, different port: two different server addresses, one ignore entry covers both
        {"count": 2, "ignore": [], "ops": [("T", [(1, 123), (1, 124)])]},
        {"count": 2, "ignore": [1], "ops": [("T", [(1, 123), (1, 124), B])]},
        # ignore list
        {"count": 2, "ignore": [1], "ops": [("T", [A, B, C])]},
        {"count": 2, "ignore": [1, 2, 3], "ops": [("T", [A, B, C]), ("T", [C, C]), ("T", [D])]},
        # count boundary
        {"count": 0, "ignore": [], "ops": [("T", [A, B]), ("R", 0, 0), ("T", [A])]},
        {"count": 1, "ignore": [], "ops": [("T", [A, B, C]), ("T", [D]), ("R", 0, 0), ("T", [D]), ("R", 1, 1), ("T", [D]), ("R", 2, 2), ("T", [D]), ("T", [D])]},
        {"count": 4, "ignore": [], "ops": [("T", [A, B, C]), ("T", [A, B, C]), ("T", [A, B, C, D]), ("R", 2, 1), ("R", 0, 1), ("T", [A, B, C, D])]},
        # removals of unknown / future ids, repeated removals
        {"count": 2, "ignore": [], "ops": [("R", 0, 1), ("R", 5, 2), ("T", [A, B]), ("R", 0, 0), ("R", 0, 0), ("T", [A, B]), ("R", 7, 1)]},
        # the repository's own scenarios
        {"count": 2, "ignore": [], "ops": [("T", [A, B, C]), ("R", 1, 1), ("T", [A, B, C])]},
        {"count": 2, "ignore": [], "ops": [("T", [])]},
    ]
    if DNS_ERR:
        cs += [{"count": 2, "ignore": [], "ops": [("T", None), ("T", [A]), ("T", None), ("T", [B, B])]},
               {"count": 2, "ignore": [], "ops": [("T", [A, B, C]), ("R", 0, 1), ("T", None), ("R", 1, 1), ("T", None), ("T", [D])]}]
    return cs


def corpus_cases():
    d = os.path.join(vplib.VERIF, "corpus", "C35")
    res = []
    if os.path.isdir(d):
        for f in sorted(os.listdir(d)):
            for line in open(os.path.join(d, f)):
                line = line.split("#")[0].strip()
                if line:
                    res.append(parse_line(line))
    return res


# ================================================================ NTS pool (nts_pool.rs)
# case: {"nts": 1, "srv": 0|1, "count": n, "ops": [["T", [beh, ...]], ["R", j]]}
# srv = 0 (enable_srv_resolution = false), one behaviour per connection accepted by the one listener:
#   ["O", k, port] answer naming server k | ["E"] connection dropped | ["P"] no common protocol |
#   ["H"] never answered (5 s) | ["X"] listener closed
# srv = 1 (enable_srv_resolution = true), the queue known_resolutions of this round, one listener per entry:
#   ["O", s, k, port] | ["E", s] | ["P", s] | ["H", s] | ["X", s]   s = SRV record name (-1: none); last entry ["X", -1]
def nts_line_of(case):
    t = [str(case["count"]), str(case.get("srv", 0))]
    for op in case["ops"]:
        if op[0] == "T":
            t += ["T", str(len(op[1]))]
            for b in op[1]:
                t += [str(x) for x in b]
        else:
            t += ["R", str(op[1])]
    return " ".join(t)


def nts_resolves(k):
    return k < 5000 or k in (9000, 9001)


def nts_addr(k, port):
    """the socket address (one number, as in the harness) server name k and NTP port resolve to; None: no address"""
    if not nts_resolves(k):
        return None
    return (9000 if k == 9001 else k) * 65536 + port


def coq_opt(a):
    return "None" if a is None else "(Some %s)" % vplib.zlit(a)


def srv_key(s):
    """the name a source reached through SRV name s is filed under; s = 0 is the string "localhost", which is also
    what an answer without Server record (k = 9000) gives on a connection without SRV name"""
    return 9000 if s == 0 else 20000 + s


def nts_coq_input(case):
    ops = []
    srv = case.get("srv", 0)
    for op in case["ops"]:
        if op[0] == "T":
            outs = []
            for b in op[1]:
                if srv:
                    name = "None" if b[1] < 0 else "Some %s" % vplib.zlit(srv_key(b[1]))
                    beh = ("SbOk %s %s" % (vplib.zlit(b[2]), coq_opt(nts_addr(b[2], b[3]))) if b[0] == "O" else
                           {"E": "SbError", "P": "SbError", "H": "SbTimeout", "X": "SbRefused"}[b[0]])
                    outs.append("(%s, %s)" % (name, beh))
                elif b[0] == "O":
                    outs.append("KeOk None %s %s" % (vplib.zlit(b[1]), coq_opt(nts_addr(b[1], b[2]))))
                else:
                    outs.append({"E": "KeError", "P": "KeError", "H": "KeTimeout", "X": "KeNoLookup"}[b[0]])
            if srv:
                ops.append("SrvTrySpawn %s" % (vplib.coq_list(outs) if outs else "(@nil srv_entry)"))
            else:
                ops.append("NtsTrySpawn %s" % (vplib.coq_list(outs) if outs else "(@nil ke_outcome)"))
        else:
            ops.append("%s %s" % ("SrvRemoved" if srv else "NtsRemoved", vplib.zlit(op[1])))
    typ = "srv_op" if srv else "nts_op"
    return "(%s %d%%nat %s)" % ("srv_case" if srv else "nts_case", case["count"], vplib.coq_list(ops) if ops else "(@nil %s)" % typ)


def nts_split_output(case, out):
    """-> (records, final current) or None; record for T: ("T", connections, [(id, name, address)...], complete)"""
    try:
        v = [int(x) for x in out[:-1]]      # the last token is the same-address observation
    except ValueError:
        return None
    p = 0
    recs = []
    try:
        for op in case["ops"]:
            if op[0] == "T":
                conns, n = v[p], v[p + 1]; p += 2
                evs = [(v[p + 3 * j], v[p + 3 * j + 1], v[p + 3 * j + 2]) for j in range(n)]; p += 3 * n
                recs.append(("T", conns, evs, v[p])); p += 1
                if case.get("srv", 0):
                    p += 1          # length of known_resolutions
            else:
                recs.append(("R", v[p])); p += 1
        n = v[p]; p += 1
        cur = [(v[p + 3 * j], v[p + 3 * j + 1], v[p + 3 * j + 2]) for j in range(n)]; p += 3 * n
    except IndexError:
        return None
    if p != len(v):
        return None
    return recs, cur


def nts_monitor(case, out):
    """the property on one run of the real NtsPoolSpawner, from the SpawnEvents and the removals only:
    never more than count active sources, never two active sources with the same remote name, never two active
    sources with the same socket address"""
    if out and out[0] == "PANIC":
        return None     # a consistency check of the harness failed: the comparison with the model reports it
    r = nts_split_output(case, out)
    if r is None:
        return None
    active = {}
    active_addr = {}
    created = []
    for k, (op, rec) in enumerate(zip(case["ops"], r[0])):
        if op[0] == "T":
            for sid, name, sockaddr in rec[2]:
                if sockaddr in active_addr.values() and name not in active.values():
                    return ("two active NTS pool sources at the same socket address %d:%d although their remote names differ "
                            "(operation %d of: %s)" % (sockaddr // 65536, sockaddr % 65536, k, nts_line_of(case)),
                            {"class": "C35-nts-pool-same-address", "count": case["count"], "operations": case["ops"][:k + 1],
                             "active_before": sorted(active.items()), "event": [sid, name, sockaddr]})
                what = None
                if name in active.values():
                    what = "two active NTS pool sources for the same remote name #%d" % name
                elif len(active) + 1 > case["count"]:
                    what = "%d active NTS pool sources with count = %d" % (len(active) + 1, case["count"])
                if what:
                    return ("%s (operation %d of: %s)" % (what, k, nts_line_of(case)),
                            {"count": case["count"], "operations": case["ops"][:k + 1],
                             "active_before": sorted(active.items()), "event": [sid, name]})
                active[sid] = name
                active_addr[sid] = sockaddr
                created.append(sid)
        elif op[1] < len(created):
            active.pop(created[op[1]], None)
            active_addr.pop(created[op[1]], None)
    if out and out[-1] == "1":
        # the harness saw two current sources of the real NtsPoolSpawner at one socket address (their remote NAMES
        # differ): by the property text (never two active sources for the same server address) a failing history;
        # listed as an open known finding (the NTS pool tells servers apart by name only)
        return ("two active NTS pool sources at the same socket address although their remote names differ (%s)" % nts_line_of(case),
                {"class": "C35-nts-pool-same-address", "count": case["count"], "operations": case["ops"]})
    return None


class NtsSim:
    """generator aid only: guesses the active sources so that removals mostly hit one"""

    def __init__(self, count, srv):
        self.count, self.srv, self.cur, self.n, self.addrs = count, srv, [], 0, {}

    def names(self):
        return [x for _, x in self.cur]

    def spawn(self, behs):
        q = list(behs)
        for _ in range(max(0, self.count - len(self.cur))):
            if self.srv:
                while q and ((q[0][1] >= 0 and srv_key(q[0][1]) in self.names()) or q[0][0] == "X"):
                    q.pop(0)
            if not q or q[0][0] == "X":
                return
            b = q.pop(0)
            if b[0] in ("E", "P"):
                return
            if b[0] == "O":
                k = b[2] if self.srv else b[1]
                key = srv_key(b[1]) if (self.srv and b[1] >= 0) else k
                a = nts_addr(k, b[3] if self.srv else b[2])
                if a is not None and key not in self.names() and a not in self.addrs.values():
                    self.cur.append((self.n, key))
                    self.addrs[self.n] = a
                    self.n += 1

    def remove(self, j):
        self.cur = [(i, a) for i, a in self.cur if i != j]
        self.addrs.pop(j, None)


NTS_UNRESOLVABLE = True      # set to False by main() in the quick tier


def nts_gen_case(rng, stats, hang, srv):
    """hang: number of never-answered connections this case may contain (each costs 5 s of wall
    time in its worker thread)"""
    # 5000/5001 are names that do not resolve: the real resolver is asked, which can take many seconds per lookup in
    # an environment without network; the quick tier keeps them to a handful of fixed cases (NTS_UNRESOLVABLE)
    pool_names = [1, 2, 3, 4, 5, 255, 256, 4999, 9000, 9001] + ([5000, 5001] if NTS_UNRESOLVABLE else [])
    names = rng.sample(pool_names, rng.randint(2, 6))
    srvs = rng.sample([0, 1, 2, 3, 5, 257, 511], rng.randint(1, 4))
    count = rng.choice([0, 1, 1, 2, 2, 2, 3, 3, 4, 5])
    sim = NtsSim(count, srv)
    ops = []
    for _ in range(rng.randint(1, 10)):
        if rng.random() < 0.6 or not ops:
            behs = []
            for _ in range(rng.choice([0, 1, 1, 2, 2, 3, 3, 4, count, count + 1, count + 2])):
                s = [rng.choice(srvs) if rng.random() < 0.7 else -1] if srv else []
                r = rng.random()
                if hang > 0 and r < 0.3:
                    behs.append(["H"] + s); hang -= 1
                elif r < 0.08:
                    behs.append(["E"] + s)
                elif r < 0.12:
                    behs.append(["P"] + s)
                elif r < (0.22 if srv else 0.17):
                    behs.append(["X"] + s)
                elif r < 0.35 and sim.cur and not srv:
                    behs.append(["O", rng.choice(sim.cur)[1], rng.choice([123, 123, 124])])   # a name already active
                else:
                    behs.append(["O"] + s + [rng.choice(names), rng.choice([123, 123, 123, 124, 4123])])
            if srv:
                behs.append(["X", -1])
            for b in behs:
                stats["nts_conn_" + b[0]] = stats.get("nts_conn_" + b[0], 0) + 1
            ops.append(["T", behs])
            sim.spawn(behs)
        else:
            r = rng.random()
            if r < 0.8 and sim.cur:
                j = rng.choice(sim.cur)[0]
            elif r < 0.9:
                j = rng.randint(0, max(0, sim.n - 1))
            else:
                j = sim.n + rng.randint(0, 3)
            ops.append(["R", j])
            sim.remove(j)
    return {"nts": 1, "srv": srv, "count": count, "ops": ops}


def nts_fixed_cases():
    O = lambda k, p=123: ["O", k, p]
    S = lambda s, k, p=123: ["O", s, k, p]
    END = ["X", -1]
    return [
        # the pool keeps answering the same server
        {"nts": 1, "srv": 0, "count": 2, "ops": [["T", [O(7), O(7)]], ["T", [O(7), O(7)]], ["T", [O(8), O(7)]]]},
        # same name, another NTP port: still the same remote name
        {"nts": 1, "srv": 0, "count": 3, "ops": [["T", [O(7), O(7, 124), O(8)]], ["R", 0], ["T", [O(8, 124), O(7, 124)]]]},
        # error ends the round, a refused connection ends the round, a timeout does not
        {"nts": 1, "srv": 0, "count": 3, "ops": [["T", [O(1), ["E"], O(2), O(3)]], ["T", [["P"], O(2)]], ["T", [O(2), O(3)]]]},
        {"nts": 1, "srv": 0, "count": 3, "ops": [["T", [O(1), ["X"], O(2), O(3)]], ["T", [["X"]]], ["T", []], ["T", [O(2), O(3), O(4)]]]},
        {"nts": 1, "srv": 0, "count": 2, "ops": [["T", [["H"], O(3)]], ["R", 5], ["T", [O(3), O(4)]]]},
        # names that do not resolve, answer without a Server record
        {"nts": 1, "srv": 0, "count": 3, "ops": [["T", [O(5000), O(9000), O(9000)]], ["T", [O(5000), O(5001), O(1)]], ["R", 0], ["R", 1], ["T", [O(1), O(9000), O(2)]]]},
        # count boundary, removals of unknown ids, repeated removals
        {"nts": 1, "srv": 0, "count": 0, "ops": [["T", [O(1)]], ["R", 0], ["T", [O(1), O(2)]]]},
        {"nts": 1, "srv": 0, "count": 1, "ops": [["T", [O(1), O(2)]], ["R", 0], ["R", 0], ["T", [O(1), O(2)]], ["R", 7], ["T", [O(3)]], ["R", 1], ["T", [O(3)]]]},
        {"nts": 1, "srv": 0, "count": 5, "ops": [["T", [O(1), O(2), O(3), O(4), O(5), O(255)]], ["R", 2], ["R", 4], ["T", [O(1), O(3), O(256)]], ["T", [O(5)]]]},
        # "localhost" (no Server record) and "127.0.0.1": two remote names, one socket address, two sources
        {"nts": 1, "srv": 0, "count": 2, "ops": [["T", [O(9000), O(9001)]], ["R", 0], ["T", [O(9001), O(9000)]]]},
        # SRV: a resolution whose name has a source is skipped without using up a loop iteration
        {"nts": 1, "srv": 1, "count": 2, "ops": [["T", [S(3, 7), S(3, 8), END]], ["T", [S(3, 9), S(5, 7), END]]]},
        # SRV name "localhost" and an answer without Server record on a plain resolution: the same string
        {"nts": 1, "srv": 1, "count": 3, "ops": [["T", [S(0, 7), S(-1, 9000), ["X", 4], S(-1, 8), END]], ["R", 0],
                                                  ["T", [["E", 1], S(2, 1), S(4, 2), END]]]},
        {"nts": 1, "srv": 1, "count": 2, "ops": [["T", [["X", 3], END]], ["T", [END]], ["T", [S(1, 1), S(1, 2), END]]]},
        # two SRV names, the same server behind both: two sources (the key is the SRV name)
        {"nts": 1, "srv": 1, "count": 3, "ops": [["T", [S(1, 7), S(2, 7), S(-1, 7), END]], ["R", 1], ["T", [["H", 5], S(2, 5001), S(2, 7), END]]]},
    ]


def nts_correspondence(c, cases, stats):
    """the NTS pool cases go to their own driver test (verif_c35n_driver in harness/ntpd/c35n.rs) and are
    compared with run_nts; vplib.correspondence takes the driver name from c.prop"""
    def nontrivial(case, out):
        r = nts_split_output(case, out)
        return r is not None and sum(len(x[2]) for x in r[0] if x[0] == "T") >= 2 and any(op[0] == "R" for op in case["ops"])

    def coq_case(case, out):
        if out and out[0] == "PANIC":
            return nts_coq_input(case), "[(-999)%Z]"
        if out and out[-1] == "1":
            # two sources at one socket address: the unrepaired code (the monitor reports the finding); the model is
            # the repaired code, nothing to compare on this history
            return None
        try:
            o = vplib.coq_list([vplib.zlit(int(x)) for x in out[:-1]])      # without the same-address observation
        except ValueError:
            o = "[(-998)%Z]"
        return nts_coq_input(case), o

    saved = (c.prop, c.cov.get("model_mismatches", 0), c.cov.get("model_cases", 0))
    # preflight: the NTS pool tie needs TCP listeners and TLS key exchanges on loopback.  Where the sandbox does not
    # allow that (or it takes minutes), the tie is skipped with a note instead of raising an alarm that would only
    # describe the environment; the theorems and the plain pool tie are unaffected.
    if vplib.replay_cases() is None:
        exe, log, mode = vplib.build_harness("ntpd", "C35N")
        ok = False
        if exe is not None:
            probe = {"nts": 1, "srv": 0, "count": 1, "ops": [["T", [["O", 7, 123]]]]}
            try:
                rc, out, res = vplib.run_harness(exe, "C35N", ["0 " + nts_line_of(probe)], "ntpd", timeout=90)
                t = res[0].split() if res else []
                ok = rc == 0 and len(t) > 1 and t[1] != "PANIC"
            except Exception as e:       # timeout
                out = repr(e)
            if not ok:
                c.notes.append("NTS pool tie skipped: the loopback key-exchange probe did not succeed in this environment (%s)" % str(out)[-200:])
                stats["nts_tie_skipped"] = 1
                return None
    c.prop = "C35N"
    try:
        outs = vplib.correspondence(
            c, "ntpd", cases,
            line_of=nts_line_of,
            coq_case_of=coq_case,
            preamble="From V Require Import Model.Pool.\n",
            checker="mismatches zlist_eqb run_nts_any",
            monitor=nts_monitor,
            nontrivial=nontrivial,
            corr_name="correspondence C35 NTS pool model <-> ntpd harness (real key exchanges on loopback)",
            sample_of=lambda case, out: {"input": "nts " + nts_line_of(case), "implementation": " ".join(out)},
            shard=250,
        )
    finally:
        c.prop = saved[0]
    c.cov["model_mismatches"] = c.cov.get("model_mismatches", 0) + saved[1]
    c.cov["model_cases"] = c.cov.get("model_cases", 0) + saved[2]
    if outs:
        created = conns = rounds = same = 0
        for i, case in enumerate(cases):
            r = nts_split_output(case, outs.get(i, []))
            if r is None:
                continue
            same += 1 if outs[i][-1] == "1" else 0
            for rec in r[0]:
                if rec[0] == "T":
                    rounds += 1
                    conns += rec[1]
                    created += len(rec[2])
        stats.update({"nts_cases": len(cases), "nts_spawn_rounds": rounds, "nts_key_exchange_connections": conns,
                      "nts_sources_created": created, "nts_srv_cases": sum(1 for x in cases if x.get("srv")),
                      "nts_cases_with_two_current_sources_at_the_same_socket_address": same})
    return outs


def main():
    c = vplib.Check("C35")
    c.run_gate()
    rng = c.rng
    stats = {}
    cases = corpus_cases()
    ncorpus = len(cases)
    cases += fixed_cases()
    n = 1500 if c.tier == "quick" else 12000
    for i in range(n):
        cases.append(gen_case(rng, stats, boundary=(i % 5 == 4)))
    nops = sum(len(x["ops"]) for x in cases)
    c.cov["rule"] = ("whole histories on the real PoolSpawner: spawn rounds with scripted DNS answers (duplicates inside and "
                     "across answers, overlaps with active sources, ignored addresses, empty answers, unresolvable name, "
                     "IPv4 and IPv6, same ip on two ports) interleaved with removals (active, already removed, never created "
                     "ids; all three reasons); compared per operation: the SpawnEvents (id, address), is_complete, and at the "
                     "end the private current_sources and known_ips. A case is non-trivial when at least two sources were "
                     "created and at least one removal happened; distinct = distinct input lines")

    def nontrivial(case, out):
        r = split_output(case, out)
        if r is None:
            return False
        created = sum(len(x[1]) for x in r[0] if x[0] == "T")
        return created >= 2 and any(op[0] == "R" for op in case["ops"])

    def coq_case(case, out):
        if out and out[0] == "PANIC":
            return coq_input(case), "[(-999)%Z]"
        try:
            o = vplib.coq_list([vplib.zlit(int(x)) for x in out])
        except ValueError:
            o = "[(-998)%Z]"
        return coq_input(case), o

    # a stored failing case of the NTS pool part is replayed on its own driver only, one of the pool part on this one only
    rp = vplib.replay_cases()
    replay_nts = bool(rp) and isinstance(rp[0], dict) and bool(rp[0].get("nts"))
    outs = None if replay_nts else vplib.correspondence(
        c, "ntpd", cases,
        line_of=line_of,
        coq_case_of=coq_case,
        preamble="From V Require Import Model.Pool.\n",
        checker="mismatches zlist_eqb run",
        monitor=monitor,
        nontrivial=nontrivial,
        sample_of=lambda case, out: {"input": line_of(case), "implementation": " ".join(out)},
        shard=250,
    )
    if outs:
        created = spawn_rounds = rounds_with_events = skipped_known = 0
        final_sizes = {}
        for i, case in enumerate(cases):
            r = split_output(case, outs.get(i, []))
            if r is None:
                continue
            for rec in r[0]:
                if rec[0] == "T":
                    spawn_rounds += 1
                    created += len(rec[1])
                    rounds_with_events += 1 if rec[1] else 0
            final_sizes[len(r[1])] = final_sizes.get(len(r[1]), 0) + 1
            skipped_known += 1 if r[2] else 0
        stats.update({"cases": len(cases), "corpus": ncorpus, "operations": nops, "spawn_rounds": spawn_rounds,
                      "spawn_rounds_creating_sources": rounds_with_events, "sources_created": created,
                      "cases_ending_with_leftover_known_ips": skipped_known,
                      "final_active_sources_histogram": dict(sorted(final_sizes.items()))})
    # ---- NTS pool part: generated after the pool cases, so those are the same as before for a given seed
    global NTS_UNRESOLVABLE
    NTS_UNRESOLVABLE = c.tier != "quick"
    nts_cases = nts_fixed_cases()
    n_nts, n_hang = (400, 12) if c.tier == "quick" else (4000, 400)
    for i in range(n_nts):
        # a few cases contain connections that are never answered (5 s each; they overlap in the harness's worker threads)
        nts_cases.append(nts_gen_case(rng, stats, hang=(rng.choice([1, 1, 2]) if i < n_hang else 0), srv=i % 2))
    # The NTS pool tie performs ~1500 real TLS key exchanges and name resolutions on loopback; in the sandbox copy used by
    # `vp check` this made the quick tier take an hour (it passed).  It therefore runs in the thorough tier, in replays of
    # NTS cases, and in the quick tier only with VERIF_C35_NTS=1; the quick tier keeps the theorems and the plain pool tie.
    run_nts_tie = c.tier == "thorough" or bool(replay_nts) or os.environ.get("VERIF_C35_NTS") == "1"
    if not run_nts_tie:
        c.notes.append("NTS pool tie not run in the quick tier (thorough tier or VERIF_C35_NTS=1)")
        stats["nts_tie_skipped"] = 1
    if run_nts_tie and (not rp or replay_nts):
        nts_outs = nts_correspondence(c, nts_cases, stats)
        if nts_outs:
            for i in (0, len(nts_cases) // 2):
                c.sample({"input": "nts " + nts_line_of(nts_cases[i]), "implementation": " ".join(nts_outs.get(i, []))}, limit=8)
    c.cov["rule"] += ("; NTS pool: whole histories on the real NtsPoolSpawner (enable_srv_resolution = false) against a real "
                      "key exchange server on a loopback port (ntp-proto KeyExchangeServer, repository test certificate) whose "
                      "behaviour per accepted connection is scripted: answers naming a scripted server (repeated names, names "
                      "already active, same name with another port, names that do not resolve, no Server record), dropped "
                      "connections, no common protocol, never answered (NTS_TIMEOUT), listener closed; interleaved with "
                      "removals; compared per operation: connections accepted by the server, SpawnEvents (id, name the source "
                      "is filed under), is_complete, and at the end the private current_sources")
    c.cov["distribution"] = stats
    c.assumptions += [
        "model of PoolSpawner written by hand (coq/Model/Pool.v), of the code WITH the repair of branch fix-c35; tied to the "
        "code by the per-operation comparison above, including the private fields at the end of each history",
        "DNS answers are an oracle input of the model; in the harness they are scripted through the cfg(test)-only "
        "NormalizedAddress::with_hardcoded_dns (its rotate-by-one is undone by the harness); an unresolvable name is a real "
        "lookup of an invalid host name",
        "ClockId::new() returns fresh ids (a global counter); the harness renumbers them in order of creation",
        "NTS pool (nts_pool.rs): the oracle model (one outcome per loop iteration of try_spawn) is tied to the real "
        "NtsPoolSpawner by harness/ntpd/c35n.rs: real TCP + TLS key exchanges with ntp-proto's KeyExchangeServer on loopback "
        "ports (repository test certificate, CA given through certificate_authorities), one scripted behaviour per accepted "
        "connection; with enable_srv_resolution the private queue known_resolutions is replaced before every round by scripted "
        "resolutions ending with a closed port, so resolve_ke (DNS / SRV lookup) never runs and queue entries never survive a "
        "round; the scripted server ignores the denied-server list the client sends (as the real KeyExchangeServer does): the "
        "model assumes nothing about the pool honouring it",
        "NTS pool names: server names are IPv4 literals in 127.1.0.0/16 (resolve without DNS), 'no such host <k>.invalid' "
        "(do not resolve), 'localhost' / '127.0.0.1'; SRV names are case variants of 'localhost' (the certificate is for "
        "localhost; rustls matches case-insensitively, the spawner compares strings exactly)",
        "NTS pool timeouts are real: a never-answered connection costs NTS_TIMEOUT = 5 s of wall time; an exchange that takes "
        "longer than 5 s on an overloaded machine would show up as a model mismatch (not as a failing input)",
        "the NTS pool model is the code WITH the repair of branch fix-c35-nts (resolved socket address kept per source, a key "
        "exchange result whose address already has a source is skipped); resolved addresses are part of the oracle outcome. On a "
        "tree without the repair the harness sees two current sources at one socket address: those histories are reported as "
        "the finding C35-nts-pool-same-address (monitor, from the SpawnEvents) and are not compared with the model "
        "(distribution: nts_cases_with_two_current_sources_at_the_same_socket_address)",
    ]
    return c.finish()


MANIFEST = {
    "claimed": True,
    "text": "Theorems (Coq, every configuration and every finite history of spawn rounds with arbitrary DNS answers or DNS "
            "errors, interleaved with removals of arbitrary ids for any reason): after every prefix of the observable trace "
            "(SpawnEvents and removal notifications) the active sources are at most `count` (C35_bounded), have pairwise "
            "different socket addresses (C35_distinct) and no SpawnEvent ever names an ignored ip (C35_no_ignored); the "
            "spawner's current_sources equals the active set of the trace (C35_state_is_active) and is_complete holds exactly "
            "when count is reached (C35_complete_iff). The model is the code with the repair of branch fix-c35; the same model "
            "without the repair violates distinctness on count=2, answer [A;A] (C35_distinct_refuted_before_fix), which is "
            "what the check reports with a replay on a tree without the fix. NTS pool (C35_nts_pool_bounded_distinct): for every "
            "count and every history of spawn rounds (any outcome of connection, key exchange and name resolution per loop "
            "iteration, any names, any resolved addresses) and removals, at most `count` sources, pairwise different remote names "
            "and pairwise different socket addresses; the model is the code with the repair of branch fix-c35-nts, the same "
            "model without the address test violates address distinctness (C35_nts_pool_distinct_refuted_before_fix), which the "
            "check reports as finding C35-nts-pool-same-address on a tree without the repair. Tied to the real NtsPoolSpawner "
            "through real key exchanges against a scripted server on loopback, without and with SRV resolution "
            "(C35_nts_tie_runs_the_model, C35_nts_srv_tie_runs_the_model: the compared functions run the model of the theorem).",
    "note": "The NTS pool tie (real key exchanges on loopback) runs in the THOROUGH tier (or in the quick tier with VERIF_C35_NTS=1), not in the default quick tier. Trusted: Coq kernel+vm_compute; hand-written model coq/Model/Pool.v (incl. the model of lookup() for the SRV queue); "
            "harnesses harness/ntpd/c35.rs, harness/ntpd/c35n.rs + this driver; DNS answers as oracle (scripted via "
            "with_hardcoded_dns under cfg(test)); freshness of ClockId::new(). NTS pool: connection / key exchange / resolution "
            "outcomes are oracles of the model, produced in the tie by ntp-proto's real KeyExchangeServer with the repository's "
            "test certificate and scripted per connection; not exercised: resolve_ke (DNS, SRV lookup), resolutions left over "
            "from an earlier round, a pool that honours the denied-server list, TLS failures other than a dropped connection. "
            "The NTS pool config has no ignore list. The spawner's own copy of the address (field added by the repair) is not read by "
            "the harness (it must build on unrepaired trees): addresses are taken from the SpawnEvents. Print Assumptions: closed under the global context for all theorems.",
    "design_ref": "DESIGN.md 3 C35, 4 row 8",
}
