"""C35: pool sources are distinct, bounded and respect the ignore list.
Model: coq/Model/Pool.v; theorems: coq/Props/C35.v; tie: the real PoolSpawner (try_spawn,
handle_source_removed, is_complete, and its private current_sources / known_ips) through
harness/ntpd/c35.rs, whole histories with scripted DNS answers."""
import os

from tools import vplib

REASONS = {0: "Demobilized", 1: "NetworkIssue", 2: "Unreachable"}
# set VERIF_C35_DNS_ERR=0 to leave out the rounds whose name does not resolve (they ask the real resolver)
DNS_ERR = os.environ.get("VERIF_C35_DNS_ERR", "1") == "1"


# ---------------------------------------------------------------- case <-> text
def line_of(case):
    t = [str(case["count"]), str(len(case["ignore"]))] + [str(i) for i in case["ignore"]]
    for op in case["ops"]:
        if op[0] == "T":
            if op[1] is None:
                t += ["T", "E"]
            else:
                t += ["T", str(len(op[1]))]
                for ip, port in op[1]:
                    t += [str(ip), str(port)]
        else:
            t += ["R", str(op[1]), str(op[2])]
    return " ".join(t)


def parse_line(line):
    t = line.split()
    p = 0
    count = int(t[p]); p += 1
    n = int(t[p]); p += 1
    ign = [int(x) for x in t[p:p + n]]; p += n
    ops = []
    while p < len(t):
        if t[p] == "T":
            if t[p + 1] == "E":
                ops.append(("T", None)); p += 2
            else:
                k = int(t[p + 1]); p += 2
                ops.append(("T", [(int(t[p + 2 * j]), int(t[p + 2 * j + 1])) for j in range(k)])); p += 2 * k
        else:
            ops.append(("R", int(t[p + 1]), int(t[p + 2]))); p += 3
    return {"count": count, "ignore": ign, "ops": ops}


def coq_addr(a):
    return "(%s, %s)" % (vplib.zlit(a[0]), vplib.zlit(a[1]))


def coq_input(case):
    ops = []
    for op in case["ops"]:
        if op[0] == "T":
            ops.append("TrySpawn None" if op[1] is None else "TrySpawn (Some %s)" % vplib.coq_list([coq_addr(a) for a in op[1]]))
        else:
            ops.append("Removed %s %s" % (vplib.zlit(op[1]), REASONS[op[2]]))
    return "(%d%%nat, %s, %s)" % (case["count"], vplib.coq_list([vplib.zlit(i) for i in case["ignore"]]), vplib.coq_list(ops))


# ---------------------------------------------------------------- reading one implementation run
def split_output(case, out):
    """-> (per-op records, final current, final known) or None when the output is not well formed.
    record for T: ("T", [(id, ip, port)...], complete), for R: ("R", complete)"""
    try:
        v = [int(x) for x in out]
    except ValueError:
        return None
    p = 0
    recs = []
    try:
        for op in case["ops"]:
            if op[0] == "T":
                n = v[p]; p += 1
                evs = [(v[p + 3 * j], (v[p + 3 * j + 1], v[p + 3 * j + 2])) for j in range(n)]; p += 3 * n
                recs.append(("T", evs, v[p])); p += 1
            else:
                recs.append(("R", v[p])); p += 1
        n = v[p]; p += 1
        cur = [(v[p + 3 * j], (v[p + 3 * j + 1], v[p + 3 * j + 2])) for j in range(n)]; p += 3 * n
        n = v[p]; p += 1
        known = [(v[p + 2 * j], v[p + 2 * j + 1]) for j in range(n)]; p += 2 * n
    except IndexError:
        return None
    if p != len(v):
        return None
    return recs, cur, known


def monitor(case, out):
    """the property itself on one run of the implementation: the active sources are followed from the
    SpawnEvents and the removals only (no model, no look at the spawner's fields)"""
    if out and out[0] == "PANIC":
        return ("pool spawner panicked: %s" % " ".join(out[1:]), {"case": line_of(case)})
    r = split_output(case, out)
    if r is None:
        return None
    recs = r[0]
    active = {}      # id -> addr
    created = []     # ids in order of creation
    for k, (op, rec) in enumerate(zip(case["ops"], recs)):
        if op[0] == "T":
            for sid, a in rec[1]:
                what = None
                if a[0] in case["ignore"]:
                    what = "a source is created for the ignored address ip#%d" % a[0]
                elif a in active.values():
                    what = "two active sources for the same address ip#%d port %d" % a
                elif len(active) + 1 > case["count"]:
                    what = "%d active sources with count = %d" % (len(active) + 1, case["count"])
                if what:
                    return ("%s (operation %d of: %s)" % (what, k, line_of(case)),
                            {"count": case["count"], "ignore": case["ignore"], "operations": case["ops"][:k + 1],
                             "active_before": sorted(active.items()), "event": [sid, a]})
                active[sid] = a
                created.append(sid)
        else:
            kth = op[1]
            if kth < len(created):
                active.pop(created[kth], None)
    return None


# ---------------------------------------------------------------- generators
class Sim:
    """generator aid only (never used for a verdict): guesses which sources are active so that
    removals mostly hit active sources"""

    def __init__(self, count, ignore):
        self.count, self.ignore, self.cur, self.known, self.n = count, ignore, [], [], 0

    def spawn(self, dns):
        if len(self.cur) >= self.count:
            return
        if len(self.known) < self.count - len(self.cur):
            if dns is None:
                return
            act = [a for _, a in self.cur]
            self.known = [a for a in self.known + dns if a not in act and a[0] not in self.ignore]
        while len(self.cur) < self.count and self.known:
            a = self.known.pop()
            if a in [x for _, x in self.cur]:
                continue
            self.cur.append((self.n, a))
            self.n += 1

    def remove(self, k):
        self.cur = [(i, a) for i, a in self.cur if i != k]


def gen_answer(rng, addrs, sim, style):
    if style == "err":
        return None
    if style == "empty":
        return []
    if style == "dups":
        a = rng.choice(addrs)
        return [a] * rng.randint(2, 5) + ([rng.choice(addrs)] if rng.random() < 0.5 else [])
    if style == "ignored" and sim.ignore:
        ig = [a for a in addrs if a[0] in sim.ignore] or addrs
        return [rng.choice(ig) for _ in range(rng.randint(1, 4))]
    if style == "overlap" and sim.cur:
        l = [a for _, a in sim.cur]
        l += [rng.choice(addrs) for _ in range(rng.randint(0, 3))]
        rng.shuffle(l)
        return l
    if style == "exact":
        n = max(0, sim.count - len(sim.cur) + rng.choice([-1, 0, 0, 1]))
        return rng.sample(addrs, min(n, len(addrs)))
    return [rng.choice(addrs) for _ in range(rng.randint(1, 8))]


def gen_case(rng, stats, boundary=False):
    nip = rng.randint(2, 7)
    ips = rng.sample([1, 2, 3, 4, 5, 6, 7, 255, 256, 999, 1000, 1001, 70000], nip)
    ports = [123] if rng.random() < 0.7 else [123, 124]
    addrs = [(ip, p) for ip in ips for p in ports]
    count = rng.choice([0, 1, 1, 2, 2, 2, 3, 3, 4, 4, 5, 8]) if not boundary else rng.choice([0, 1, 2, len(addrs), len(addrs) + 1])
    ignore = rng.sample(ips, rng.choice([0, 0, 1, 1, 2, min(3, nip)]))
    if rng.random() < 0.1:
        ignore.append(4242)          # an ignored address that never shows up
    sim = Sim(count, ignore)
    ops = []
    styles = ["plain"] * 6 + ["dups"] * 3 + ["overlap"] * 3 + ["ignored"] * 2 + ["exact"] * 3 + ["empty"] + (["err"] if DNS_ERR else [])
    for _ in range(rng.randint(1, 24) if not boundary else rng.randint(2, 10)):
        if rng.random() < 0.55 or not ops:
            st = rng.choice(styles)
            dns = gen_answer(rng, addrs, sim, st)
            stats["answer_" + st] = stats.get("answer_" + st, 0) + 1
            ops.append(("T", dns))
            sim.spawn(dns)
        else:
            r = rng.random()
            if r < 0.8 and sim.cur:
                k = rng.choice(sim.cur)[0]
                stats["remove_active"] = stats.get("remove_active", 0) + 1
            elif r < 0.9:
                k = rng.randint(0, max(0, sim.n - 1))
                stats["remove_any_created"] = stats.get("remove_any_created", 0) + 1
            else:
                k = sim.n + rng.randint(0, 3)
                stats["remove_never_created"] = stats.get("remove_never_created", 0) + 1
            ops.append(("R", k, rng.randint(0, 2)))
            sim.remove(k)
    return {"count": count, "ignore": ignore, "ops": ops}


def fixed_cases():
    A, B, C, D = (1, 123), (2, 123), (3, 123), (4, 123)
    cs = [
        # the defect of the unrepaired code: duplicates inside one answer
        {"count": 2, "ignore": [], "ops": [("T", [A, A])]},
        # duplicates across answers: A left over in known_ips, answered again
        {"count": 1, "ignore": [], "ops": [("T", [A, B]), ("R", 0, 1), ("T", []), ("R", 1, 2), ("T", [A, A, A]), ("T", [A])]},
        {"count": 3, "ignore": [], "ops": [("T", [A, B, A, B, A])]},
        {"count": 3, "ignore": [], "ops": [("T", [A]), ("T", [A]), ("T", [A, A]), ("T", [B, A, B])]},
        # same ip, different port: two different server addresses, one ignore entry covers both
        {"count": 2, "ignore": [], "ops": [("T", [(1, 123), (1, 124)])]},
        {"count": 2, "ignore": [1], "ops": [("T", [(1, 123), (1, 124), B])]},
        # ignore list
        {"count": 2, "ignore": [1], "ops": [("T", [A, B, C])]},
        {"count": 2, "ignore": [1, 2, 3], "ops": [("T", [A, B, C]), ("T", [C, C]), ("T", [D])]},
        # count boundary
        {"count": 0, "ignore": [], "ops": [("T", [A, B]), ("R", 0, 0), ("T", [A])]},
        {"count": 1, "ignore": [], "ops": [("T", [A, B, C]), ("T", [D]), ("R", 0, 0), ("T", [D]), ("R", 1, 1), ("T", [D]), ("R", 2, 2), ("T", [D]), ("T", [D])]},
        {"count": 4, "ignore": [], "ops": [("T", [A, B, C]), ("T", [A, B, C]), ("T", [A, B, C, D]), ("R", 2, 1), ("R", 0, 1), ("T", [A, B, C, D])]},
        # removals of unknown / future ids, repeated removals
        {"count": 2, "ignore": [], "ops": [("R", 0, 1), ("R", 5, 2), ("T", [A, B]), ("R", 0, 0), ("R", 0, 0), ("T", [A, B]), ("R", 7, 1)]},
        # the repository's own scenarios
        {"count": 2, "ignore": [], "ops": [("T", [A, B, C]), ("R", 1, 1), ("T", [A, B, C])]},
        {"count": 2, "ignore": [], "ops": [("T", [])]},
    ]
    if DNS_ERR:
        cs += [{"count": 2, "ignore": [], "ops": [("T", None), ("T", [A]), ("T", None), ("T", [B, B])]},
               {"count": 2, "ignore": [], "ops": [("T", [A, B, C]), ("R", 0, 1), ("T", None), ("R", 1, 1), ("T", None), ("T", [D])]}]
    return cs


def corpus_cases():
    d = os.path.join(vplib.VERIF, "corpus", "C35")
    res = []
    if os.path.isdir(d):
        for f in sorted(os.listdir(d)):
            for line in open(os.path.join(d, f)):
                line = line.split("#")[0].strip()
                if line:
                    res.append(parse_line(line))
    return res


def main():
    c = vplib.Check("C35")
    c.run_gate()
    rng = c.rng
    stats = {}
    cases = corpus_cases()
    ncorpus = len(cases)
    cases += fixed_cases()
    n = 1500 if c.tier == "quick" else 12000
    for i in range(n):
        cases.append(gen_case(rng, stats, boundary=(i % 5 == 4)))
    nops = sum(len(x["ops"]) for x in cases)
    c.cov["rule"] = ("whole histories on the real PoolSpawner: spawn rounds with scripted DNS answers (duplicates inside and "
                     "across answers, overlaps with active sources, ignored addresses, empty answers, unresolvable name, "
                     "IPv4 and IPv6, same ip on two ports) interleaved with removals (active, already removed, never created "
                     "ids; all three reasons); compared per operation: the SpawnEvents (id, address), is_complete, and at the "
                     "end the private current_sources and known_ips. A case is non-trivial when at least two sources were "
                     "created and at least one removal happened; distinct = distinct input lines")

    def nontrivial(case, out):
        r = split_output(case, out)
        if r is None:
            return False
        created = sum(len(x[1]) for x in r[0] if x[0] == "T")
        return created >= 2 and any(op[0] == "R" for op in case["ops"])

    def coq_case(case, out):
        if out and out[0] == "PANIC":
            return coq_input(case), "[(-999)%Z]"
        try:
            o = vplib.coq_list([vplib.zlit(int(x)) for x in out])
        except ValueError:
            o = "[(-998)%Z]"
        return coq_input(case), o

    outs = vplib.correspondence(
        c, "ntpd", cases,
        line_of=line_of,
        coq_case_of=coq_case,
        preamble="From V Require Import Model.Pool.\n",
        checker="mismatches zlist_eqb run",
        monitor=monitor,
        nontrivial=nontrivial,
        sample_of=lambda case, out: {"input": line_of(case), "implementation": " ".join(out)},
        shard=250,
    )
    if outs:
        created = spawn_rounds = rounds_with_events = skipped_known = 0
        final_sizes = {}
        for i, case in enumerate(cases):
            r = split_output(case, outs.get(i, []))
            if r is None:
                continue
            for rec in r[0]:
                if rec[0] == "T":
                    spawn_rounds += 1
                    created += len(rec[1])
                    rounds_with_events += 1 if rec[1] else 0
            final_sizes[len(r[1])] = final_sizes.get(len(r[1]), 0) + 1
            skipped_known += 1 if r[2] else 0
        stats.update({"cases": len(cases), "corpus": ncorpus, "operations": nops, "spawn_rounds": spawn_rounds,
                      "spawn_rounds_creating_sources": rounds_with_events, "sources_created": created,
                      "cases_ending_with_leftover_known_ips": skipped_known,
                      "final_active_sources_histogram": dict(sorted(final_sizes.items()))})
    c.cov["distribution"] = stats
    c.assumptions += [
        "model of PoolSpawner written by hand (coq/Model/Pool.v), of the code WITH the repair of branch fix-c35; tied to the "
        "code by the per-operation comparison above, including the private fields at the end of each history",
        "DNS answers are an oracle input of the model; in the harness they are scripted through the cfg(test)-only "
        "NormalizedAddress::with_hardcoded_dns (its rotate-by-one is undone by the harness); an unresolvable name is a real "
        "lookup of an invalid host name",
        "ClockId::new() returns fresh ids (a global counter); the harness renumbers them in order of creation",
        "NTS pool (nts_pool.rs): model only, nothing of it runs here (TCP + TLS key exchange needed); theorem marked _partial",
    ]
    return c.finish()


MANIFEST = {
    "claimed": True,
    "text": "Theorems (Coq, every configuration and every finite history of spawn rounds with arbitrary DNS answers or DNS "
            "errors, interleaved with removals of arbitrary ids for any reason): after every prefix of the observable trace "
            "(SpawnEvents and removal notifications) the active sources are at most `count` (C35_bounded), have pairwise "
            "different socket addresses (C35_distinct) and no SpawnEvent ever names an ignored ip (C35_no_ignored); the "
            "spawner's current_sources equals the active set of the trace (C35_state_is_active) and is_complete holds exactly "
            "when count is reached (C35_complete_iff). The model is the code with the repair of branch fix-c35; the same model "
            "without the repair violates distinctness on count=2, answer [A;A] (C35_distinct_refuted_before_fix), which is "
            "what the check reports with a replay on a tree without the fix. NTS pool: model-only, bounded and distinct "
            "remote names (C35_nts_pool_bounded_distinct_names_partial).",
    "note": "Trusted: Coq kernel+vm_compute; hand-written model coq/Model/Pool.v; harness harness/ntpd/c35.rs + this driver; "
            "DNS answers as oracle (scripted via with_hardcoded_dns under cfg(test)); freshness of ClockId::new(). Partial: the "
            "NTS pool variant is not tied to the code (needs TCP+TLS) and its distinctness is by remote name, not by resolved "
            "socket address (the code does not compare addresses there); its config has no ignore list. Print Assumptions: "
            "closed under the global context for all theorems.",
    "design_ref": "DESIGN.md 3 C35, 4 row 8",
}
