"""C13: NTS cookies are used once, oldest first, and never hoarded.
Model: coq/Model/CookieStash.v + coq/Model/SrcCore.v; theorems: coq/Props/C13.v;
tie: the real NtpSource + CookieStash driven through harness/ntp-proto/c13.rs
(handle_timer / handle_incoming with datagrams built for the request just sent)."""
from tools import vplib
from tools.props import s1lib

K = s1lib.consts()
MAXC = K["max_cookies"]
BUDGET = K["budget"]

# cookie lengths around every threshold of floor(BUDGET / max(len,1)) and of the wire padding
EDGE_LENS = [0, 4, 8, 12, 16, 20, 60, 88, 90, 91, 100, 103, 104, 120, 121, 124, 144, 145, 148, 180, 181, 182, 184,
             240, 241, 242, 244, 360, 361, 362, 363, 364, 400, 720, 723, 724, 725, 728, 800, 1000, 2048]
ODD_LENS = [5, 6, 7, 9, 13, 17, 101, 102, 183, 243, 365, 721, 722, 726, 727]


def cap(length):
    return min(BUDGET // max(length, 1), 255)


class Gen:
    def __init__(self, rng):
        self.rng = rng
        self.tag = 0

    def cookie(self, length):
        if length == 0:
            return (0, 0)
        self.tag += 1
        return (self.tag, length)

    def pick_len(self, wire):
        r = self.rng.random()
        if r < 0.45:
            l = self.rng.choice(EDGE_LENS)
        elif r < 0.6 and not wire:
            l = self.rng.choice(ODD_LENS)
        elif r < 0.9:
            l = self.rng.choice([100, 104, 104, 128, 200])
        else:
            l = self.rng.randint(1, 190) * 4
        if wire:
            l -= l % 4          # cookies travelling in a response are whole words
        elif 0 < l < 4:
            l = 4
        return l


def structured(rng, long=False):
    """a client life: key exchange, then polls with mostly genuine answers, some lost, duplicated or bogus"""
    g = Gen(rng)
    cfg = rng.choice(["N4", "N4", "N5"])
    evs = []
    base = g.pick_len(False)
    same = rng.random() < 0.7
    n0 = rng.choice([0, 1, 2, 7, 8, 8, 8, 8, 9, 12])
    for _ in range(n0):
        evs.append(("S", g.cookie(base if same else g.pick_len(False))))
    held = min(n0, MAXC)
    for _ in range(rng.randint(3, 40 if long else 14)):
        evs.append(("T",))
        held = max(held - 1, 0)
        r = rng.random()
        if r < 0.62:
            want = MAXC - held
            k = want if rng.random() < 0.7 else rng.choice([0, 1, 2, want + 1, 9, 12, 17])
            wl = base - base % 4 if same else None
            evs.append(("U", [g.cookie(wl if wl is not None else g.pick_len(True)) for _ in range(k)]))
            held = min(held + k, MAXC)
            if rng.random() < 0.15:      # duplicate of the answer
                evs.append(("U", [g.cookie(g.pick_len(True)) for _ in range(rng.randint(0, 3))]))
        elif r < 0.80:
            evs.append(("O", rng.randint(0, 8)))
            if rng.random() < 0.5:
                evs.append(("U", [g.cookie(g.pick_len(True)) for _ in range(rng.randint(0, 9))]))
        elif r < 0.84:
            evs.append((rng.choice(["D", "R"]),))
        elif r < 0.90:
            evs.append(("S", g.cookie(g.pick_len(False))))
        # else: the request is lost
    return (cfg, evs)


def boundary(rng):
    """fill level x cookie length grid: f cookies of length l, then timers until empty"""
    cases = []
    g = None
    for l in EDGE_LENS + ODD_LENS:
        for f in (1, 2, 7, 8, 9):
            g = Gen(rng)
            evs = [("S", g.cookie(l)) for _ in range(f)]
            evs += [("T",)] * min(f, 3)
            evs.append(("U", [g.cookie(l - l % 4) for _ in range(MAXC)]))
            evs.append(("T",))
            cases.append((rng.choice(["N4", "N5"]), evs))
    # overfill / drain cycles: only the newest eight may survive
    for n in (8, 9, 10, 15, 16, 17, 24, 31):
        g = Gen(rng)
        evs = [("S", g.cookie(104)) for _ in range(n)] + [("T",)] * 3
        evs += [("T",), ("U", [g.cookie(104) for _ in range(n)]), ("T",), ("T",)]
        cases.append(("N4", evs))
    return cases


def plain_and_misc(rng):
    cases = []
    for cfg in ("P4", "PU", "P5", "PX"):
        g = Gen(rng)
        evs = []
        for _ in range(rng.randint(3, 10)):
            evs.append(("T",))
            r = rng.random()
            if r < 0.6:
                evs.append(("U", [g.cookie(32)] if rng.random() < 0.3 else []))
            elif r < 0.8:
                evs.append(("O", rng.randint(0, 8)))
            if rng.random() < 0.2:
                evs.append(("S", g.cookie(32)))
        cases.append((cfg, evs))
    return cases


def monitor(case, out):
    """the property on one implementation run: every cookie is sent at most once and in arrival order
    (always the oldest one held), at most eight are held and they are the newest stored, every request asks
    for min(missing, size limit) cookies.  Spec state = a python list; nothing of the Coq model is used."""
    cfg, evs = case
    if cfg[0] != "N":
        return None
    rows = s1lib.split_out(out, len(evs))
    if rows is None:
        if out and out[0] == "PANIC":
            return ("the source panicked: %s" % " ".join(out[1:]), {"case": s1lib.line_of(case)})
        return None
    held, pending, sent = [], False, []
    for i, (e, r) in enumerate(zip(evs, rows)):
        code, tag, length, nph, phlen, _un, count = r
        where = {"case": s1lib.line_of(case), "event_index": i, "event": s1lib.ev_tok(e)}
        if e[0] == "S":
            held = (held + [e[1]])[-MAXC:]
        elif e[0] in ("U", "G") and pending:
            pending = False
            held = (held + (e[1] if e[0] == "U" else []))[-MAXC:]
        elif e[0] == "T":
            if code == 2:
                c = (tag, length)
                if c[0] != 0 and c in sent:
                    return ("cookie %s sent in two requests" % (c,), where)
                if not held or held[0] != c:
                    return ("request carries cookie %s but the oldest cookie held is %s" % (c, held[:1]), where)
                if length > BUDGET:
                    return ("cookie of %d bytes sent although no new cookie can be requested with it" % length, where)
                sent.append(c)
                held = held[1:]
                pending = True
                missing = MAXC - len(held)
                want = min(missing, cap(length))
                if nph + 1 != want:
                    return ("request asks for %d new cookies, %d are missing (size limit %d)" % (nph + 1, missing, cap(length)), where)
                if nph > 0 and phlen != length:
                    return ("placeholder length differs from the cookie length %d" % length, where)
            elif code == 3 and count == len(held) - 1:
                held = held[1:]          # taken and discarded (too large): allowed, it is not sent
        if count > MAXC:
            return ("%d cookies held, more than %d" % (count, MAXC), where)
        if code in (0, 2, 3) and count != len(held):
            return ("%d cookies held, but the newest-%d rule gives %d" % (count, MAXC, len(held)), where)
        if code == 4:
            break
    return None


def main():
    c = vplib.Check("C13")
    c.run_gate()
    rng = c.rng
    quick = c.tier == "quick"
    cases = s1lib.load_corpus("C13")
    ncorpus = len(cases)
    cases += boundary(rng)
    nb = len(cases) - ncorpus
    for _ in range(350 if quick else 6000):
        cases.append(structured(rng))
    for _ in range(40 if quick else 600):
        cases.append(structured(rng, long=True))
    for _ in range(5 if quick else 60):
        cases += plain_and_misc(rng)

    ev_mix, lens = {}, {}
    for cfg, evs in cases:
        for e in evs:
            ev_mix[e[0]] = ev_mix.get(e[0], 0) + 1
            for ck in (e[1] if e[0] == "U" else [e[1]] if e[0] == "S" else []):
                b = "0" if ck[1] == 0 else "<=%d" % BUDGET if ck[1] <= BUDGET else ">%d" % BUDGET
                lens[b] = lens.get(b, 0) + 1
    c.cov["rule"] = ("histories of the real NtpSource (NTS, NTPv4 and NTPv5; a few plain ones): cookies stored directly and through "
                     "encrypted fields of hand-built answers to the request just sent (genuine, duplicate, lost, 9 kinds of bogus), "
                     "timers; compared after every event: action, cookie (tag, length), placeholder count and length of the request, "
                     "unanswered_polls, nts_cookies.  Grid: cookie length (every threshold of floor(%d/len), 0, unaligned) x fill level; "
                     "overfill/drain cycles.  Non-trivial = at least one NTS request sent and one cookie stored; distinct = distinct "
                     "input histories" % BUDGET)
    stats = {"requests": 0, "resets": 0, "demobilize": 0, "capped_requests": 0}

    def nontrivial(case, out):
        rows = s1lib.split_out(out, len(case[1]))
        if not rows:
            return False
        n2 = sum(1 for r in rows if r[0] == 2)
        stats["requests"] += n2
        stats["resets"] += sum(1 for r in rows if r[0] == 3)
        stats["demobilize"] += sum(1 for r in rows if r[0] == 4)
        stats["capped_requests"] += sum(1 for r in rows if r[0] == 2 and r[3] + 1 < MAXC - r[6])
        return n2 >= 1 and any(e[0] in ("S", "U") for e in case[1])

    vplib.correspondence(
        c, "ntp-proto", cases,
        line_of=s1lib.line_of,
        coq_case_of=s1lib.coq_case_of,
        preamble=s1lib.PREAMBLE,
        checker=s1lib.CHECKER,
        monitor=monitor,
        nontrivial=nontrivial,
        shard=150,
        sample_of=lambda case, out: {"history": s1lib.line_of(case)[:400], "implementation": " ".join(out)[:400]},
    )
    c.cov["distribution"] = {"cases": len(cases), "corpus": ncorpus, "grid": nb, "events": ev_mix,
                             "cookie_lengths": lens, "outcomes": stats}
    c.assumptions += [
        "hand-written model of CookieStash and of the cookie/reach part of NtpSource::handle_timer / handle_incoming / process_message "
        "(coq/Model/CookieStash.v, coq/Model/SrcCore.v); tied to the code by the event-by-event correspondence above",
        "classification of datagrams into usable / deny / ignored is an input of the model (proved for the decision logic by C07-C09); "
        "the harness builds datagrams of each class and the correspondence checks the implementation treats them so",
        "placeholder fields carry the cookie's length: observed by the harness on every request (nts_poll_message is not modelled)",
        "the 5 s answer window (POLL_WINDOW) is not exercised: answers are delivered immediately",
    ]
    return c.finish()


MANIFEST = {
    "claimed": True,
    "text": 'Theorems (Coq, closed under the global context, for every cookie type and every history of timers, usable answers carrying any number of cookies of any length, deny answers, ignored datagrams and direct stores): the ring buffer refines a bounded FIFO (C13_store_keeps_newest: store = append and keep the newest 8; C13_get_oldest; C13_gap); the sequence of cookies put into requests is a subsequence of the sequence of cookies that arrived, i.e. each is sent at most once and in arrival order (C13_once_fifo, C13_tags_increase, C13_once); at most 8 are held and they are a suffix of everything stored (C13_bounded, C13_step); every request carries the oldest cookie held and asks for exactly min(8 - held after taking it, floor(724/max(len,1)) capped at 255) new cookies, and a source without cookie or with a cookie longer than 724 bytes is reset without sending (C13_asks_for_missing).',
    "note": 'Trusted: Coq kernel + vm_compute; hand-written models coq/Model/CookieStash.v and coq/Model/SrcCore.v (cookie/reach part of NtpSource::handle_timer, handle_incoming, process_message), tied to the real NtpSource and CookieStash by an event-by-event correspondence (action, cookie identity and length, placeholder count and length, unanswered_polls, nts_cookies) on histories with hand-built encrypted answers; the classification of a datagram as usable / deny / ignored is an input of the model (C07-C09 own the decision logic; the harness builds datagrams of each class); placeholder length = cookie length is observed, not modelled; the 5 s answer window is not exercised; NTS sources exist only in protocol states V4 and V5 (key exchange result).',
    "design_ref": 'DESIGN.md 3 C13',
}
