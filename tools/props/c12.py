"""C12: NTP version negotiation follows the upgrade protocol.
Model: coq/Model/Source.v; theorems: coq/Props/C12.v; tie: harness/ntp-proto/s2_source.rs (c12.rs)."""
import itertools

from tools import vplib
from tools.props import s2lib as L


def monitor(case, evs):
    """the transition table of the property, evaluated on one implementation run"""
    for k, e, prev, cur in L.walk(case, evs):
        here = {"case": L.line_of(case), "event_index": k}
        v0, v1 = prev[L.D_VER], e["dump"][L.D_VER]
        if e["kind"] == "T":
            for a in L.sends(e):
                f = L.send_fields(a)
                ver, upg = f[0], f[1]
                # the request is built in the state the timer leaves behind
                if case["nts"]:
                    want = (4, 0) if v1 == 0 else (5, 0)
                else:
                    want = (4, 0) if v1 == 0 else ((4, 1) if v1 >= 100 else (5, 0))
                if (ver, upg) != want:
                    return ("event %d: request of version %d (upgrade marker %d) sent in version state %d" % (k, ver, upg, v1), here)
            if v1 != v0:
                polls = not (prev[L.D_REACH] == 0 and prev[L.D_TRIES] >= 3)
                if not (v0 == 1 and v1 == 0 and polls and prev[L.D_REACH] % 4 == 0):
                    return ("event %d: a timer moved the version state %d -> %d (reach %d, tries %d)"
                            % (k, v0, v1, prev[L.D_REACH], prev[L.D_TRIES]), here)
            elif v0 == 1 and L.sends(e) and prev[L.D_REACH] % 4 == 0:
                return ("event %d: upgraded association missed two polls (reach %d) but did not fall back" % (k, prev[L.D_REACH]), here)
            continue
        if L.measures(e) and e["ver"] not in L.expected_versions(v0):
            return ("event %d: an NTPv%d answer was accepted in version state %d" % (k, e["ver"], v0), here)
        if e["decoded"] and e["ver"] not in L.expected_versions(v0) and (e["actions"] or e["dump"] != prev):
            return ("event %d: an NTPv%d packet had an effect in version state %d" % (k, e["ver"], v0), here)
        if case["nts"] and v1 != v0:
            return ("event %d: the version of an NTS source changed %d -> %d" % (k, v0, v1), here)
        if v0 in (0, 2) and v1 != v0:
            return ("event %d: fixed version state %d changed to %d" % (k, v0, v1), here)
        # matching answer (kiss codes included) = valid response inside the window
        matching = L.bound_answer(case, e, prev, cur)
        if v0 >= 100:
            t = v0 - 100
            if matching:
                want = 1 if (e["upg"] == 1 and e["ver"] == 4) else (0 if t <= 1 else 100 + t - 1)
            else:
                want = v0
            if v1 != want and not (case["nts"]):
                return ("event %d: upgrading state %d -> %d on a %s answer %s the marker (expected %d)"
                        % (k, v0, v1, "matching" if matching else "non-matching", "with" if e["upg"] else "without", want), here)
        if v0 == 1:
            want = 2 if matching else 1
            if v1 != want:
                return ("event %d: upgraded state -> %d on a %s answer" % (k, v1, "matching" if matching else "non-matching"), here)
    return None


LETTERS = {
    "t": lambda: L.ev_timer(1, 4),
    "w": lambda: L.ev_timer(5001, 4),
    "M": lambda: L.ev_in(1, 4, 4, 2, 4, 0, None, "0", 1, "-"),
    "4": lambda: L.ev_in(1, 4, 4, 2, 4, 0, None, "0", 0, "-"),
    "3": lambda: L.ev_in(1, 3, 4, 2, 4, 0, None, "0", 0, "-"),
    "5": lambda: L.ev_in(1, 5, 4, 2, 4, 0, None, "0", 0, "d"),
    "x": lambda: L.ev_in(1, 4, 4, 2, 4, 0, None, "x", 1, "-"),
    "y": lambda: L.ev_in(1, 5, 4, 2, 4, 0, None, "x", 0, "d"),
    "k": lambda: L.ev_in(1, 4, 4, 0, 4, 2, 0, "0", 1, "-"),
    "K": lambda: L.ev_in(1, 5, 4, 0, 127, 0, 0, "0", 0, "d"),
}


def build_cases(c):
    rng = c.rng
    cases = []
    # exhaustive walk: every word up to length maxlen over the 10-letter alphabet (timer, timer after the window, matching
    # v4 answer with/without marker, v3, v5, non-matching v4/v5, matching v4/v5 kiss) from six version states
    maxlen = 3 if c.tier == "quick" else 4
    starts = [0, 2, 100 + 8, 100 + 2, 100 + 1, 1]
    for ver in starts:
        # thorough: length 4 from the two states with the richest behaviour, length 3 from the others
        top = maxlen if (c.tier == "quick" or ver in (102, 1)) else 3
        for n in range(0, top + 1):
            for word in itertools.product(LETTERS, repeat=n):
                # every history begins with a poll so that answers can match
                evs = [L.ev_timer(0, 4)] + [LETTERS[x]() for x in word]
                cases.append({"min": 4, "max": 10, "nts": False, "ver": ver, "stash": [], "events": evs})
    c.cov["exhaustive_words"] = {"alphabet": len(LETTERS), "max_length": maxlen, "start_states": len(starts), "cases": len(cases)}
    # long walks: the 8-answer countdown, two-miss fallback, races between answers and timers
    n = 150 if c.tier == "quick" else 1500
    for i in range(n):
        ver = rng.choice([108, 108, 108, 104, 102, 1, 0, 2])
        word = rng.choices(list(LETTERS), weights=[5, 2, 2, 6, 1, 4, 1, 1, 1, 1], k=rng.randint(6, 26))
        cases.append({"min": 4, "max": 10, "nts": False, "ver": ver, "stash": [],
                      "events": [L.ev_timer(0, 4)] + [LETTERS[x]() for x in word]})
    for i in range(60 if c.tier == "quick" else 500):
        case = L.random_case_header(rng)
        L.gen_history(rng, case, rng.randint(3, 12), weights={"wrongver": 4, "answer": 8, "silence": 5, "rate": 1})
        cases.append(case)
    return cases


def main():
    c = vplib.Check("C12")
    c.run_gate()
    cases = build_cases(c)
    parsed = L.standard_run(c, cases, monitor, nontrivial=lambda case, evs: len(evs) >= 2, shard=400)
    c.cov["rule"] = ("exhaustive: every event word up to the stated length over {timer, timer after the poll window, matching v4 "
                     "answer with marker, without marker, matching v3, matching v5, non-matching v4, non-matching v5, matching v4 "
                     "RATE, matching v5 DENY} from the version states V4, V5, Upgrading 8/2/1, Upgraded (each history starts with a "
                     "poll); plus random words of 6-26 letters (8-answer countdown, two-miss fallback) and mixed NTS/plain histories; "
                     "compared after every event; non-trivial = at least two events")
    c.cov["exhaustive"] = True
    if parsed is not None:
        c.cov["distribution"] = {"cases": len(cases), "event_mix": L.op_mix(cases), "outcomes": L.outcome_classes(parsed),
                                 "final_version_states": _final_versions(parsed)}
    c.assumptions += [
        "decoded-packet level (see C08); 'matching answer' = accepted for the pending request, kiss codes included (the code counts "
        "every valid response)",
        "the version an NTS source is created with is the key-exchange result (C28)",
    ]
    return c.finish()


def _final_versions(parsed):
    d = {}
    for evs, init in parsed:
        v = (evs[-1]["dump"] or init)[L.D_VER] if evs else init[L.D_VER]
        d[str(v)] = d.get(str(v), 0) + 1
    return d


MANIFEST = {
    "claimed": True,
    "text": "Theorems (Coq, model coq/Model/Source.v; all states and histories): the complete transition relation of protocol_version. "
            "A source in state V4 (V5), plain or NTS, stays there in every history and sends only NTPv4 (NTPv5) requests without marker "
            "(C12_fixed_version, C12_nts_version); while upgrading, requests are NTPv4 with the upgrade marker "
            "(C12_upgrading_sends_v4_marker); the state becomes Upgraded iff a matching answer carries the marker "
            "(C12_switch_only_on_marker); a matching answer without it decrements tries_left and the t-th such answer -- the eighth "
            "from the default -- returns to V4, nothing else touches the counter (C12_countdown, C12_upgrading_unchanged, "
            "C12_give_up_after); Upgraded goes to V5 at the first matching (necessarily NTPv5) answer and to V4 exactly at a polling "
            "timer that finds the two low reach bits zero, i.e. two polls unanswered, that very request being plain NTPv4 "
            "(C12_upgraded_to_v5, C12_fallback_two_misses, C12_fallback_request, C12_reach_*, C12_upgraded_moves); packets of a "
            "version not in expected(state) are no-ops, with V4 also expecting NTPv3 (C12_expected_only, C12_expected_table).",
    "note": "Trusted: Coq kernel+vm_compute; hand-written model; harness + drivers; decoded-packet level as for C08. 'Matching answer' "
            "includes valid kiss responses (as in the code). The NTS + V4UpgradingToV5 combination (never created by the daemon) is "
            "modelled as coded (it sends NTPv5 and expects NTPv4) and excluded from the NTS statements by nts_ver_ok. The tie includes "
            "an exhaustive walk over all event words up to length 3 from six version states (thorough: length 4 from Upgrading 2 and Upgraded). "
            "Print Assumptions: closed under the global context.",
    "design_ref": "DESIGN.md 3 C12",
}
