"""C09: kiss-o'-death codes are handled conservatively.
Model: coq/Model/Source.v; theorems: coq/Props/C09.v; tie: harness/ntp-proto/s2_source.rs (c09.rs)."""
from tools import vplib
from tools.props import s2lib as L


def monitor(case, evs):
    """the property on one implementation run"""
    floor = None      # poll exponent below which no later request may go (set by a valid RATE)
    floor_at = None
    for k, e, prev, cur in L.walk(case, evs):
        here = {"case": L.line_of(case), "event_index": k,
                "datagram": case["events"][k] if k < len(case["events"]) else ""}
        if e["kind"] == "T":
            for a in L.sends(e):
                poll = L.send_fields(a)[2]
                if floor is not None and poll < floor:
                    return ("event %d: request with poll exponent %d although the RATE answer at event %d was given to a request "
                            "with exponent %d" % (k, poll, floor_at, floor), here)
            if "M" in e["actions"]:
                if not (prev[L.D_REACH] == 0 and prev[L.D_TRIES] >= 3 and prev[L.D_DENY] == 1):
                    return ("event %d: a timer demobilised the source although it was not (unreachable with >= 3 tries and a "
                            "remembered DENY/RSTR): reach=%d tries=%d deny=%d" % (k, prev[L.D_REACH], prev[L.D_TRIES], prev[L.D_DENY]), here)
            continue
        kiss = e["decoded"] and e["stratum"] == 0
        ntsn = e["decoded"] and L.pkt_is_ntsn(e)
        deny = e["decoded"] and L.pkt_is_deny(e)
        rate = e["decoded"] and L.pkt_is_rate(e, prev[L.D_LAST])
        watched = (L.D_LAST, L.D_RMIN, L.D_PEND, L.D_DEADLINE, L.D_DENY, L.D_STRATUM, L.D_REACH, L.D_STASH)
        if kiss and (ntsn or not (deny or rate)):
            if e["actions"] or any(e["dump"][i] != prev[i] for i in watched):
                return ("event %d (t=%d ms): %s changed the source: actions %s, state %s -> %s"
                        % (k, e["now"], "an NTS NAK" if ntsn else "an unknown kiss code", e["actions"] or "none", prev, e["dump"]),
                        dict(here, shape="v5-nak-rate-deny" if (ntsn and e["ver"] == 5) else "other"))
            continue
        valid = L.bound_answer(case, e, prev, cur)
        if "M" in e["actions"] and not (case["nts"] and valid and deny):
            return ("event %d: a datagram demobilised the source although it is not a valid DENY/RSTR answer to an NTS source" % k, here)
        if kiss and valid and deny:
            if case["nts"] and e["actions"] != ["M"]:
                return ("event %d: valid DENY/RSTR answer does not demobilise the NTS source (actions %s)" % (k, e["actions"]), here)
            if not case["nts"] and (e["actions"] or e["dump"][L.D_DENY] != 1):
                return ("event %d: valid DENY/RSTR answer to a plain source: actions %s, deny memory %d"
                        % (k, e["actions"], e["dump"][L.D_DENY]), here)
        if kiss and valid and rate:
            rm, rm2, lp = prev[L.D_RMIN], e["dump"][L.D_RMIN], prev[L.D_LAST]
            if e["actions"] or rm2 < lp or rm2 < min(rm + 1, case["max"]):
                return ("event %d: valid RATE answer: actions %s, remote minimum %d -> %d with last interval %d, maximum %d"
                        % (k, e["actions"], rm, rm2, lp, case["max"]), here)
            if floor is None or lp > floor:
                floor, floor_at = lp, k
        if L.measures(e) and e["dump"][L.D_DENY] != 0:
            return ("event %d: a usable answer did not clear the DENY/RSTR memory" % k, here)
    return None


def build_cases(c):
    rng = c.rng
    L.COMBO = True
    from tools.props import c07
    cases = c07.defect_cases()
    n = 230 if c.tier == "quick" else 1500
    w = {"rate": 5, "deny": 4, "rstr": 3, "ntsn": 4, "xkiss": 3, "answer": 5, "silence": 4, "unauth": 2, "stratum": 2, "v5poll": 2}
    for i in range(n):
        case = L.random_case_header(rng)
        L.gen_history(rng, case, rng.randint(3, 10), weights=w,
                      desired_fn=lambda r, sim: r.choice([sim.min, sim.min, sim.max, r.randint(sim.min, sim.max)]))
        cases.append(case)
    # deny memory + reachability: DENY then silence until the timer gives up; with and without a usable answer in between
    for ver in (0, 2, 108):
        pv = 5 if ver == 2 else 4
        for heal in (False, True):
            for kind in ("deny", "rstr"):
                case = {"min": 4, "max": 10, "nts": False, "ver": ver, "stash": [], "events": []}
                ev = case["events"]
                ev.append(L.ev_timer(0, 4))
                if pv == 5:
                    ev.append(L.ev_in(10, 5, 4, 0, 127, 0, 0, "0", 0, "d"))
                else:
                    ev.append(L.ev_in(10, 4, 4, 0, 4, 1 if kind == "deny" else 3, 0, "0", 0, "-"))
                if heal:
                    ev.append(L.ev_in(10, pv, 4, 2, 4, 0, None, "0", 0, "d" if pv == 5 else "-"))
                for _ in range(11):
                    ev.append(L.ev_timer(16500, 4))
                cases.append(case)
    L.COMBO = False
    return cases


def main():
    c = vplib.Check("C09")
    c.run_gate()
    cases = build_cases(c)
    parsed = L.standard_run(c, cases, monitor)
    c.cov["rule"] = ("event histories against the real NtpSource, plain and NTS, NTPv3/4/5: interleavings of RATE, DENY, RSTR, NTSN, "
                     "unknown kiss codes (authenticated and not, incl. NTPv5 packets that are NAK and RATE/DENY at once), normal "
                     "answers and unanswered polls, with the controller's desire at min / max / random; plus DENY-then-silence walks to "
                     "the demobilising timer, with and without a healing answer; compared after every event; non-trivial = the state "
                     "changed at least twice")
    if parsed is not None:
        c.cov["distribution"] = {"cases": len(cases), "event_mix": L.op_mix(cases), "outcomes": L.outcome_classes(parsed)}
    c.assumptions += [
        "decoded-packet level (see C08); 'valid answer' = accepted for the pending request (window, expected version, origin, "
        "NTS: unique identifier under the authenticator)",
        "theorems about later polls assume -128 < min <= max < 127 and i8 poll fields (release wrap of PollInterval::inc at 127 is "
        "modelled and excluded by max < 127)",
    ]
    return c.finish()


MANIFEST = {
    "claimed": True,
    "text": "Theorems (Coq, model coq/Model/Source.v; all states, packets, histories; tree with branch fix-c07): a valid RATE answer "
            "produces no action, sets the remote minimum to at least the interval just used and at least one step above the old remote "
            "minimum up to the configured maximum, touching nothing else (C09_rate_step); the remote minimum never decreases in any "
            "history and every request polls at least that slowly, so after a valid RATE no later request polls faster than the one it "
            "answered (C09_remote_min_monotone, C09_rate_monotone; for -128 < min <= max < 127); a valid DENY/RSTR yields exactly "
            "[Demobilize] for an NTS source and, for a plain source, no action and the deny memory (C09_deny_nts, C09_deny_plain); a "
            "plain source is demobilised only by a timer finding reach = 0, tries >= 3 and the memory set, and every usable answer clears "
            "the memory (C09_plain_demobilize_only_if, C09_demobilize_sources, C09_answer_clears_deny); a valid NTS NAK or unknown kiss "
            "code causes no action and changes no field except the version-negotiation state (C09_ntsn_unknown_noop).",
    "note": "Trusted: Coq kernel+vm_compute; hand-written model; harness + drivers; decoded-packet level as for C08. NTPv5 packets can "
            "be NAK and DENY/RATE at once: the theorems (and branch fix-c07) treat them as NAK only; on the unrepaired tree the check "
            "reports such a datagram as VIOLATION with replay. Reachability internals (register semantics) are C11's. "
            "Print Assumptions: closed under the global context.",
    "design_ref": "DESIGN.md 3 C09",
}
