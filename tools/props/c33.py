"""C33: advertised stratum and loop avoidance are consistent.
Model: coq/Model/Stratum.v (accept_synchronization with the reference-id comparison of branch fix-c33,
from_used_sources, update_used_sources); theorems: coq/Props/C33.v; tie: harness/ntp-proto/c33.rs
(direct calls, and end to end through NtpManager + real NtpSource objects)."""
import ipaddress

from tools import vplib

V4_POOL = ["127.0.0.1", "192.168.1.1", "192.168.1.2", "10.0.0.1", "10.0.0.2", "172.16.5.4", "203.0.113.7", "198.51.100.9",
           "0.0.0.0", "255.255.255.255", "1.0.0.0", "0.0.0.1"]
V6_POOL = ["::1", "fe80::1", "2001:db8::1", "2001:db8::2", "fd00::5"]
KISS = {"DENY": 0x44454E59, "XNON": 0x584E4F4E, "PPS": 0x50505300, "GPS": 0x47505300}


def v4id(ip):
    return int(ipaddress.IPv4Address(ip))


def pick_locals(rng):
    n = rng.choice([0, 1, 1, 2, 3, 5])
    return rng.sample(V4_POOL + V6_POOL, n)


# ------------------------------------------------------------------ accept cases
def accept_case(rng, target=None):
    locals_ = pick_locals(rng)
    ls = rng.choice([16, 16, 16, 1, 2, 3, 4, 15, 17, 255, 0])
    st = rng.choice([0, 1, 1, 2, 2, 2, 3, 4, 14, 15, 16, 17, 255, max(ls - 1, 0), ls, min(ls + 1, 255)])
    reach = rng.choice([0, 1, 1, 1, 2, 128, 255, 254])
    bloom = rng.choice([0, 0, 1, 1, 2])
    src = "ip:" + rng.choice(V4_POOL + V6_POOL)
    refid = rng.choice([v4id(rng.choice(V4_POOL)), rng.randrange(1 << 32), KISS["XNON"], KISS["PPS"], KISS["GPS"], 0])
    kind = target or rng.choice(["rand", "rand", "self", "refloop", "refloop", "both", "clean"])
    if kind in ("self", "both") and locals_:
        src = "ip:" + rng.choice(locals_)
    if kind in ("refloop", "both") and locals_:
        v4 = [x for x in locals_ if ":" not in x]
        refid = v4id(rng.choice(v4)) if v4 else ("L", rng.randrange(len(locals_)))   # L: the id of a local v6 address (read back)
    if kind == "clean":
        bloom, reach = rng.choice([0, 1]), rng.choice([1, 255])
    if rng.random() < 0.1:
        src = "id:%d" % rng.randrange(1 << 32)
    return ("A", ls, locals_, st, src, refid, reach, bloom)


def v6_refids(rng, cases, table):
    """reference ids that equal the id of a local IPv6 address need from_ip (MD5): taken from a first
    read-back pass (table: address -> id as printed by the implementation)"""
    out = []
    for c in cases:
        if c[0] == "A" and isinstance(c[5], tuple):
            ip = c[2][c[5][1]]
            rid = table.get(ip)
            if rid is None:
                continue
            c = c[:5] + (rid,) + c[6:]
        out.append(c)
    return out


def accept_line(c):
    _, ls, locals_, st, src, refid, reach, bloom = c
    return "A %d %s %d %s %d %d %d" % (ls, ";".join(locals_) if locals_ else "-", st, src, refid, reach, bloom)


# ------------------------------------------------------------------ end-to-end cases
def e2e_case(rng):
    locals_ = pick_locals(rng)
    ls = rng.choice([16, 16, 16, 2, 3, 5, 17, 255])
    n = rng.randint(0, 5)
    srcs = []
    addrs = rng.sample(V4_POOL[1:] + V6_POOL[1:], n)
    for i in range(n):
        addr = addrs[i]
        if locals_ and rng.random() < 0.15:
            addr = rng.choice(locals_)
        mode = rng.choice([0, 1, 2, 2, 2, 2])
        st = rng.choice([1, 1, 2, 2, 3, 4, 15, 16, max(1, min(16, ls - 1)), max(1, min(16, ls))])
        refid = rng.choice([v4id(rng.choice(V4_POOL)), rng.randrange(1 << 32), KISS["GPS"]])
        v4loc = [x for x in locals_ if ":" not in x]
        if v4loc and rng.random() < 0.3:
            refid = v4id(rng.choice(v4loc))
        srcs.append((i + 1, addr, mode, st, refid))
    ups = []
    for _ in range(rng.randint(1, 5)):
        k = rng.randint(0, 4)
        u = []
        for _ in range(k):
            ty = rng.choice([2, 2, 2, 2, 0, 1, 3])
            cid = rng.randint(1, max(n, 1) + 1) if ty == 2 else rng.randint(50, 60)
            u.append((cid, ty))
        ups.append(u)
    return ("E", ls, locals_, srcs, ups)


def e2e_line(c):
    _, ls, locals_, srcs, ups = c
    t = ["E", str(ls), ";".join(locals_) if locals_ else "-", str(len(srcs))]
    for s in srcs:
        t += [str(s[0]), s[1], str(s[2]), str(s[3]), str(s[4])]
    for u in ups:
        t.append(",".join("%d.%d" % e for e in u) if u else "-")
    return " ".join(t)


def line_of(c):
    return accept_line(c) if c[0] == "A" else e2e_line(c)


def parse_out(c, out):
    """-> (local ids, rest) or None"""
    try:
        n = int(out[0])
        ids = [int(x) for x in out[1:1 + n]]
        rest = [int(x) for x in out[1 + n:]]
    except (ValueError, IndexError):
        return None
    if n != len(c[2]):
        return None
    return ids, rest


def coq_case_of(c, out):
    if out and out[0] == "PANIC":
        return None
    p = parse_out(c, out)
    if p is None:
        return None
    ids, rest = p
    zl = lambda l: "[" + "; ".join(str(x) for x in l) + "]"
    if c[0] == "A":
        if len(rest) != 3:
            return None
        sid, contains, code = rest
        _, ls, _, st, _, refid, reach, bloom = c
        # the filter kind the harness built: 1 = without our id, 2 = with; the implementation's own
        # contains_id verdict (printed) must agree with the construction (no false negative / positive)
        term = "CAccept %d %s %d %d %d %d %d" % (ls, zl(ids), st, sid, refid, reach, bloom)
        want_contains = {0: -1, 1: 0, 2: 1}[bloom]
        return term, "[%d]" % (code if contains == want_contains else 77)
    _, ls, _, srcs, ups = c
    ns = len(srcs)
    if len(rest) != 3 * ns + 3 * len(ups):
        return None
    sids = [rest[3 * i] for i in range(ns)]
    flags = []
    for i in range(ns):
        flags += [rest[3 * i + 1], rest[3 * i + 2]]
    tail = rest[3 * ns:]
    st = "[" + "; ".join("(%d, %d, %d, %d, %d)" % (s[0], sids[i], s[2], s[3], s[4]) for i, s in enumerate(srcs)) + "]"
    us = "[" + "; ".join("[" + "; ".join("(%d, %d)" % e for e in u) + "]" for u in ups) + "]"
    term = "CEndToEnd %d %s %s %s" % (ls, zl(ids), st, us)
    return term, vplib.coq_list([vplib.zlit(x) for x in flags + tail])


REF = {0: KISS["PPS"], 1: 0x534F434B, 3: 0x43505450}


def monitor(c, out):
    """the property on one run (python, nothing of the Coq model): a usable source has a stratum below the local
    one, is reachable, is not at one of our addresses and does not report one of them as its reference (stratum
    above 1), and its filter does not contain our id; the advertisement is primary stratum + 1 with the primary's id"""
    if out and out[0] == "PANIC":
        return ("panic: %s" % " ".join(out[1:]), {"case": line_of(c)})
    p = parse_out(c, out)
    if p is None:
        return None
    ids, rest = p
    where = {"case": line_of(c)}
    if c[0] == "A":
        if len(rest) != 3:
            return None
        sid, contains, code = rest
        _, ls, locals_, st, src, refid, reach, bloom = c
        # ids of IPv4 addresses are the address itself: check the oracle where we can
        for ip, i in zip(locals_, ids):
            if ":" not in ip and i != v4id(ip):
                return ("ReferenceId::from_ip(%s) = %d" % (ip, i), where)
        if code == 0:
            why = None
            if st >= ls:
                why = "its stratum %d is not below the local stratum %d" % (st, ls)
            elif reach == 0:
                why = "it is unreachable"
            elif st != 1 and sid in ids:
                why = "it is this daemon itself (source id %d is a local address)" % sid
            elif st > 1 and refid in ids:
                why = "it reports reference id %d, one of this daemon's addresses, at stratum %d" % (refid, st)
            elif contains == 1:
                why = "its Bloom filter contains this daemon's server id"
            if why:
                return ("source accepted for synchronisation although " + why, where)
            if st == 1 and sid in ids:
                # known finding: the own-address test is skipped for stratum-1 sources
                return ("stratum-1 source at one of this daemon's own addresses (source id %d) accepted for synchronisation" % sid,
                        dict(where, **{"class": "C33-self-stratum1"}))
        if bloom == 2 and contains != 1:
            return ("filter does not report the server id that was added to it", where)
        return None
    _, ls, locals_, srcs, ups = c
    ns = len(srcs)
    if len(rest) != 3 * ns + 3 * len(ups):
        return None
    table = {}
    for i, s in enumerate(srcs):
        sid, t_flag, a_flag = rest[3 * i:3 * i + 3]
        cid, addr, mode, st, refid = s
        if mode == 2 and a_flag == 1:
            why = None
            if st >= ls:
                why = "its stratum %d is not below the local stratum %d" % (st, ls)
            elif st != 1 and sid in ids:
                why = "it is this daemon itself (address %s)" % addr
            elif st > 1 and refid in ids:
                why = "it reports reference id %d, one of this daemon's addresses, at stratum %d" % (refid, st)
            if why:
                return ("controller told the source at %s is usable although %s" % (addr, why), where)
            if st == 1 and sid in ids:
                return ("controller told the stratum-1 source at %s, one of this daemon's own addresses, is usable" % addr,
                        dict(where, **{"class": "C33-self-stratum1"}))
        if mode >= 1 and t_flag == 1:
            return ("a source that never answered is reported usable", where)
        if mode == 1:
            table[cid] = (16, sid)
        elif mode == 2:
            table[cid] = (st, sid)
    pub = None
    for j, u in enumerate(ups):
        stv, ridv, own = rest[3 * ns + 3 * j:3 * ns + 3 * j + 3]
        resolved = all(ty != 2 or cid in table for cid, ty in u)
        if own != 1 and (resolved or pub is not None):
            return ("advertised Bloom filter does not contain the daemon's own server id", where)
        if resolved:
            if not u:
                want = (ls, KISS["XNON"])
            else:
                cid, ty = u[0]
                s0, i0 = table[cid] if ty == 2 else (0, REF[ty])
                want = (min(s0 + 1, 255), i0)
            if (stv, ridv) != want:
                return ("advertised (stratum, reference id) = (%d, %d), primary source gives (%d, %d)" % (stv, ridv, want[0], want[1]), where)
            pub = want
        elif pub is not None and (stv, ridv) != pub:
            return ("advertisement changed although a used source has not reported yet", where)
    return None


def main():
    c = vplib.Check("C33")
    c.run_gate()
    rng = c.rng
    quick = c.tier == "quick"
    cases = []
    # the confirmed defect's input first: stratum 2, reference id = a local address
    cases.append(("A", 16, ["192.168.1.1"], 2, "ip:10.0.0.1", v4id("192.168.1.1"), 1, 0))
    cases.append(("A", 16, ["10.0.0.2", "192.168.1.1"], 3, "ip:203.0.113.7", v4id("192.168.1.1"), 255, 1))
    cases.append(("E", 16, ["192.168.1.1"], [(1, "10.0.0.1", 2, 2, v4id("192.168.1.1"))], [[(1, 2)]]))
    # witnesses of the known finding C33-self-stratum1 (own-address test skipped for stratum 1)
    cases.append(("A", 16, ["192.168.1.1"], 1, "ip:192.168.1.1", KISS["GPS"], 1, 0))
    cases.append(("E", 16, ["10.0.0.2", "192.168.1.1"], [(1, "192.168.1.1", 2, 1, KISS["GPS"])], [[(1, 2)]]))
    # boundary grid: stratum x local stratum, reach, bloom, loop kinds
    for ls in (1, 2, 16, 17, 255):
        for st in sorted({0, 1, 2, ls - 1, ls, ls + 1, 16, 255} & set(range(256))):
            for kind in ("clean", "self", "refloop", "both"):
                x = list(accept_case(rng, kind))
                x[1], x[3] = ls, st
                cases.append(tuple(x))
    for _ in range(400 if quick else 8000):
        cases.append(accept_case(rng))
    for _ in range(150 if quick else 3000):
        cases.append(e2e_case(rng))
    # first saturating stratum: a used source with stratum 255 can only be built directly: covered by the model
    # theorem; the end-to-end path limits strata to 1..16 (process_message)
    # resolve "reference id = id of a local IPv6 address" through a read-back pass
    need = [x for x in cases if x[0] == "A" and isinstance(x[5], tuple)]
    table = {}
    if need:
        exe, log, mode = vplib.build_harness("ntp-proto", "C33")
        if exe:
            probe = ["%d A 16 %s 2 id:1 1 1 0" % (i, ip) for i, ip in enumerate(V6_POOL)]
            rc, o, res = vplib.run_harness(exe, "C33", probe, "ntp-proto")
            for l in res:
                t = l.split()
                if len(t) >= 3 and t[1] == "1":
                    table[V6_POOL[int(t[0])]] = int(t[2])
    cases = v6_refids(rng, cases, table)

    stats = {"accept": 0, "e2e": 0, "codes": {}, "usable_flags": 0, "loop_by_refid": 0}

    def nontrivial(case, out):
        p = parse_out(case, out)
        if p is None:
            return False
        ids, rest = p
        if case[0] == "A":
            stats["accept"] += 1
            if len(rest) == 3:
                stats["codes"][rest[2]] = stats["codes"].get(rest[2], 0) + 1
                if rest[2] == 2 and case[5] in ids and case[3] > 1:
                    stats["loop_by_refid"] += 1
            return True
        stats["e2e"] += 1
        stats["usable_flags"] += sum(1 for i in range(len(case[3])) if rest[3 * i + 2:3 * i + 3] == [1])
        return any(s[2] == 2 for s in case[3])

    vplib.correspondence(
        c, "ntp-proto", cases,
        line_of=line_of,
        coq_case_of=coq_case_of,
        preamble="From V Require Import Model.Stratum.\nOpen Scope Z_scope.\n",
        checker="mismatches Model.Bloom.zl_eqb run_c33",
        monitor=monitor,
        nontrivial=nontrivial,
        shard=400,
        sample_of=lambda case, out: {"case": line_of(case)[:300], "implementation": " ".join(out)[:200]},
    )
    c.cov["rule"] = ("(A) NtpSourceSnapshot::accept_synchronization on a grid local stratum x source stratum (around equality, 0, 1, 255) x "
                     "{clean, source at a local address, reference id = a local address (IPv4 and IPv6/MD5), both} x reach x "
                     "{no filter, filter without / with our server id} plus random cases; local address lists of 0-5 IPv4/IPv6 addresses, "
                     "their ReferenceId::from_ip read back.  (E) end to end: NtpManager with those addresses, 0-5 real NtpSource objects "
                     "(created / one timer / timer + hand-built NTPv4 answer with chosen stratum and reference id): usable flag given to "
                     "the controller after timer and after answer, then 1-5 update_used_sources calls mixing NTP (reported, unreported, "
                     "unknown), PPS, sock, CSPTP sources: published stratum, reference id, own id in the advertised filter.  "
                     "Non-trivial: every A case; E cases with at least one answered source; distinct = distinct inputs")
    c.cov["distribution"] = stats
    c.assumptions += [
        "hand-written model of accept_synchronization / from_used_sources / update_used_sources (coq/Model/Stratum.v), tied to the code "
        "by the correspondence above; ReferenceId::from_ip is an oracle (values read back; IPv4 checked against the octets)",
        "Bloom membership enters the accept model as a boolean (bit-level facts: C34); the advertised filter is checked for our own id only",
        "known finding C33-self-stratum1: the own-address test is skipped for stratum-1 sources (C33_self_stratum1_refuted); the monitor "
        "reports such accepted inputs under that class",
    ]
    return c.finish()


MANIFEST = {
    "claimed": True,
    "text": "Theorems (Coq, closed under the global context, all strata, address lists, ids, reach values, filters): a source is usable iff its stratum is below the local stratum, it is reachable, its complete Bloom filter does not contain our server id and, unless its stratum is 1, neither its own id nor the reference id it reports is the id of a local address (C33_usable_iff, C33_error_reason); the advertisement computed from the used sources has stratum min(primary stratum + 1, 255) and the primary's id (local stratum and XNON without sources), its filter contains our server id and every id of the used sources' filters (C33_advertise); it is published iff every used NTP source has reported, otherwise the previous snapshot stays (C33_published, C33_primary).  C33_self_stratum1_refuted: the own-address test is skipped for stratum-1 sources (exception to 'this daemon itself' in the stated property).",
    "note": 'Models the code WITH branch fix-c33 (reference-id comparison added to accept_synchronization); on a tree without it the check reports the confirmed defect (stratum-2 source whose reference id is a local address is accepted).  Trusted: Coq kernel + vm_compute; hand-written model coq/Model/Stratum.v tied to accept_synchronization (direct) and to NtpManager + real NtpSource objects end to end (usable flag given to the controller, update_used_sources/observe) by the correspondence; ReferenceId::from_ip is an oracle (values read back, IPv4 checked); Bloom membership enters the accept model as a boolean (bit level: C34); end-to-end strata are limited to 1..16 by process_message (saturation at 255 is covered by the theorem and direct model only).',
    "design_ref": 'DESIGN.md 3 C33',
}
