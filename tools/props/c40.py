"""C40: GPSd socket samples are validated before use.
Model: coq/Model/SockSample.v (+ Base/D3Float.v); theorems: coq/Props/C40.v;
tie: deserialize_sample directly, and the real SockSourceTask on a Unix datagram socket with a
scripted clock and a recording source controller, through harness/ntpd/c40.rs."""
import math
import struct

from tools import vplib

MAGIC = 0x534F434B
SIZE = 40
U64 = (1 << 64) - 1


def sample(offset_bits, pulse=0, leap=0, magic=MAGIC, tv=b"\0" * 16, pad=b"\0" * 4):
    return tv + struct.pack("<Q", offset_bits & U64) + struct.pack("<i", pulse) + struct.pack("<i", leap) + pad + struct.pack("<i", magic)


def i32(x):
    x &= 0xFFFFFFFF
    return x - (1 << 32) if x >= (1 << 31) else x


def bits_of(f):
    return struct.unpack("<Q", struct.pack("<d", f))[0]


INTERESTING_BITS = [
    0x0000000000000000, 0x8000000000000000,              # +-0
    0x7FF0000000000000, 0xFFF0000000000000,              # +-inf
    0x7FF8000000000000, 0xFFF8000000000000,              # quiet NaNs
    0x7FF0000000000001, 0xFFF0000000000001, 0x7FF4000000000000, 0x7FFFFFFFFFFFFFFF, 0xFFFFFFFFFFFFFFFF,  # other NaNs
    0x7FEFFFFFFFFFFFFF, 0xFFEFFFFFFFFFFFFF,              # +-max finite
    0x0000000000000001, 0x8000000000000001, 0x000FFFFFFFFFFFFF, 0x0010000000000000,  # subnormal edges
    0x3FF0000000000000, 0xBFF0000000000000, 0x3FEFFFFFFFFFFFFF, 0xBFEFFFFFFFFFFFFF, 0x3FF0000000000001,
    0x41DFFFFFFFC00000, 0x41E0000000000000, 0x41DFFFFFFFFFFFFF, 0xC1E0000000000000, 0xC1E0000000200000, 0xC1DFFFFFFFFFFFFF,  # +-2^31 edges
    0x41F0000000000000, 0x43E0000000000000, 0xC3E0000000000000, 0x43DFFFFFFFFFFFFF, 0x43F0000000000000,  # 2^32, +-2^63, 2^64
    0x411377FED1B6BD7D,                                  # the unit test's sample
    bits_of(1e300), bits_of(-1e300), bits_of(1e-300), bits_of(0.5), bits_of(-0.5), bits_of(1e-9), bits_of(-1e-9),
    bits_of(2147483647.9999998), bits_of(-2147483648.0000005), bits_of(0.9999999999), bits_of(-1e-17),
]


def rand_bits(rng):
    k = rng.random()
    if k < 0.15:
        return rng.choice(INTERESTING_BITS)
    if k < 0.45:   # plausible clock offsets
        return bits_of(rng.uniform(-1, 1) * 10 ** rng.randint(-9, 6))
    if k < 0.6:    # any exponent
        return (rng.getrandbits(1) << 63) | (rng.randint(0, 2047) << 52) | rng.getrandbits(52)
    if k < 0.7:    # exponent all ones: inf / NaN
        return (rng.getrandbits(1) << 63) | (2047 << 52) | (rng.getrandbits(52) if rng.random() < 0.8 else 0)
    if k < 0.8:    # near the i32 second limits
        return bits_of(rng.choice([-1, 1]) * (2 ** 31 + rng.uniform(-2, 2)))
    return rng.getrandbits(64)


def gen_cases(c):
    rng = c.rng
    thorough = c.tier == "thorough"
    D, S = [], []
    valid = lambda: sample(rand_bits(rng), 0, rng.choice([0, 0, 1, 2, 3, -1, rng.getrandbits(32) - (1 << 31)]),
                           MAGIC, bytes(rng.getrandbits(8) for _ in range(16)), bytes(rng.getrandbits(8) for _ in range(4)))
    # --- D: deserialize_sample(result, buf) -------------------------------------------------
    base = sample(0x411377FED1B6BD7D)
    # boundary: every reported size 0..64 and the extremes, on a valid buffer; I/O error
    for size in list(range(0, 65)) + [-1, 255, 256, 1 << 16, 1 << 31, (1 << 32) + 40, (1 << 63) - 1]:
        D.append(("D", size, base))
    # boundary: every interesting offset pattern, all exponents with both signs
    for b in INTERESTING_BITS:
        D.append(("D", SIZE, sample(b, 0, rng.choice([0, 1, 2, 3]))))
    for e in range(0, 2048, 1 if thorough else 7):
        for s in (0, 1):
            D.append(("D", SIZE, sample((s << 63) | (e << 52) | rng.getrandbits(52))))
    for e in (0, 1, 2045, 2046, 2047):
        for s in (0, 1):
            for m in (0, 1, (1 << 52) - 1, 1 << 51):
                D.append(("D", SIZE, sample((s << 63) | (e << 52) | m)))
    # boundary: magic and pulse corruptions (+-1, every single bit, byte order, sign)
    for bit in range(32):
        D.append(("D", SIZE, sample(bits_of(0.25), 0, 0, i32(MAGIC ^ (1 << bit)))))
        D.append(("D", SIZE, sample(bits_of(0.25), i32(1 << bit), 0, MAGIC)))
    for mg in (MAGIC + 1, MAGIC - 1, 0, -1, i32(0x4B434F53), -MAGIC, i32(MAGIC | 0x80000000)):
        D.append(("D", SIZE, sample(bits_of(-0.25), 0, 1, mg)))
    for p in (1, -1, 2, (1 << 31) - 1, -(1 << 31), 256):
        D.append(("D", SIZE, sample(bits_of(-0.25), p, 2, MAGIC)))
    # order of the tests: several things wrong at once
    for size in (39, 40, 41):
        for mg in (MAGIC, MAGIC ^ 1):
            for p in (0, 1):
                for ob in (bits_of(1.5), 0x7FF8000000000000, 0xFFF0000000000000):
                    D.append(("D", size, sample(ob, p, 0, mg)))
    # magic / pulse placed at the wrong position, padding and tv arbitrary
    for _ in range(40 if not thorough else 400):
        b = bytearray(rng.getrandbits(8) for _ in range(40))
        pos = rng.randrange(0, 37)
        b[pos:pos + 4] = struct.pack("<i", MAGIC)
        D.append(("D", SIZE, bytes(b)))
    # structured: valid samples
    for _ in range(1200 if not thorough else 20000):
        D.append(("D", SIZE, valid()))
    # malformed: one random byte flipped in a valid sample; fully random
    for _ in range(500 if not thorough else 8000):
        b = bytearray(valid())
        for _k in range(rng.choice([1, 1, 2, 3])):
            b[rng.randrange(40)] ^= 1 << rng.randrange(8)
        D.append(("D", rng.choice([SIZE] * 8 + [39, 41, 0]), bytes(b)))
    for _ in range(200 if not thorough else 3000):
        D.append(("D", SIZE, bytes(rng.getrandbits(8) for _ in range(40))))
    # --- S: the real task on a Unix datagram socket -------------------------------------------
    times = [0, 1, U64, 1 << 63, (1 << 63) - 1, 0xE9A0_0000_0000_0000]
    # every datagram length 0..80: a valid sample, cut or extended (zeros / random / a second sample)
    for n in range(0, 81):
        v = valid_finite(rng)
        ext = v + bytes(rng.getrandbits(8) for _ in range(41))
        S.append(("S", rng.choice(times), ext[:n]))
        S.append(("S", rng.getrandbits(64), (v + b"\0" * 41)[:n]))
    S.append(("S", 5, base + base))
    S.append(("S", 5, base * 3))
    S.append(("S", 5, base + b"\x01"))
    for n in (128, 255, 256, 1000, 4096, 20000):
        S.append(("S", 7, (base + bytes(n))[:n]))
    for b in INTERESTING_BITS:
        S.append(("S", rng.choice(times + [rng.getrandbits(64)]), sample(b, 0, rng.choice([0, 1, 2, 3, 7, -1]))))
    for _ in range(500 if not thorough else 6000):
        k = rng.random()
        if k < 0.6:
            d = valid()
        elif k < 0.75:
            d = sample(rand_bits(rng), rng.choice([0, 0, 1, -1]), rng.choice([0, 1, 2, 5]), rng.choice([MAGIC, MAGIC, MAGIC ^ 0x100]))
        elif k < 0.9:
            d = (valid() + bytes(rng.getrandbits(8) for _ in range(30)))[:rng.choice([39, 41, 42, 48, 50, 64, 70])]
        else:
            d = bytes(rng.getrandbits(8) for _ in range(rng.randint(0, 80)))
        S.append(("S", rng.choice(times) if rng.random() < 0.3 else rng.getrandbits(64), d))
    return D + S


def valid_finite(rng):
    while True:
        b = rand_bits(rng)
        if (b >> 52) & 0x7FF != 0x7FF:
            return sample(b, 0, rng.choice([0, 1, 2, 3]), MAGIC, bytes(rng.getrandbits(8) for _ in range(16)))


def well_formed(data):
    """the property's four conditions on a datagram / buffer content (independent of model and code)"""
    if len(data) != SIZE:
        return False
    off = struct.unpack("<d", data[16:24])[0]
    pulse, = struct.unpack("<i", data[24:28])
    magic, = struct.unpack("<i", data[36:40])
    return magic == MAGIC and pulse == 0 and math.isfinite(off)


def monitor(case, out):
    op, a, data = case
    if out and out[0] == "PANIC":
        return ("the sample path panics (%s) on %s %s %s" % (" ".join(out[1:2]), op, a, data.hex()),
                {"op": op, "arg": a, "bytes": data.hex()})
    if op == "D":
        if out[0] == "0" and not (a == SIZE and well_formed(data)):
            off = struct.unpack("<d", data[16:24])[0]
            return ("deserialize_sample accepts a sample that is not (size 40, magic SOCK, pulse 0, finite offset): "
                    "reported size %d, offset %r, bytes %s" % (a, off, data.hex()),
                    {"op": "D", "size": a, "bytes": data.hex(), "offset": repr(off)})
    else:
        if out[0] == "dead":
            return ("the GPSd socket task died or stalled on a %d-byte datagram %s" % (len(data), data.hex()[:200]),
                    {"op": "S", "time": a, "datagram": data.hex()})
        if out[0] not in ("none", "senderr") and not well_formed(data):
            why = "length %d" % len(data) if len(data) != SIZE else "offset %r" % struct.unpack("<d", data[16:24])[0]
            return ("a datagram that is not a well-formed sample (%s) became a measurement (sender_ts receiver_ts leap = %s): %s"
                    % (why, " ".join(out), data.hex()),
                    {"op": "S", "time": a, "datagram": data.hex(), "length": len(data)})
    return None


def main():
    c = vplib.Check("C40")
    c.run_gate()
    cases = gen_cases(c)
    nD = sum(1 for x in cases if x[0] == "D")
    dist = {"deserialize_cases": nD, "socket_cases": len(cases) - nD,
            "socket_lengths_covered": sorted({len(x[2]) for x in cases if x[0] == "S" and len(x[2]) <= 80}) == list(range(81))}
    outcome = {}

    def line_of(case):
        op, a, data = case
        return "%s %d %s" % (op, a, data.hex() if data else "-")

    def coq_case(case, out):
        op, a, data = case
        inp = "(%s, %s, %s)" % ("0%Z" if op == "D" else "1%Z", vplib.zlit(a), vplib.coq_list([vplib.zlit(b) for b in data]))
        key = out[0] if op == "D" else ("S:" + ("none" if out[0] == "none" else "meas" if out[0][0].isdigit() else out[0]))
        outcome[key] = outcome.get(key, 0) + 1
        if out[0] == "PANIC":
            o = "[(-1)%Z]"
        elif out[0] == "none":
            o = "[]"
        elif out[0] in ("dead", "senderr", "badop"):
            if out[0] == "senderr":
                return None     # the kernel refused the datagram (too long for the socket): nothing reached the task
            o = "[(-7)%Z]"
        else:
            o = vplib.coq_list([vplib.zlit(int(x)) for x in out])
        return inp, o

    vplib.correspondence(
        c, "ntpd", cases,
        line_of=line_of,
        coq_case_of=coq_case,
        preamble="From V Require Import Model.SockSample.\n",
        checker="mismatches list_Z_eqb run_c40",
        monitor=monitor,
        nontrivial=lambda case, out: (case[0] == "D" and case[1] == SIZE) or (case[0] == "S" and len(case[2]) >= 36),
        sample_of=lambda case, out: {"op": case[0], "arg": case[1], "bytes": case[2].hex()[:160], "implementation": " ".join(out)},
        shard=600,
    )
    dist["outcomes"] = outcome
    c.cov["distribution"] = dist
    c.cov["rule"] = ("D: deserialize_sample on 40-byte buffers with every reported size 0..64 (+ extremes, I/O error), the offset field "
                     "swept over all IEEE classes/exponents/edge patterns, magic and pulse with every single-bit corruption, multi-fault "
                     "combinations (order of tests), valid and mutated samples; S: the real SockSourceTask on a Unix datagram socket, every "
                     "datagram length 0..80 (+ up to 60000), valid/invalid samples, clock readings at the era edges; the output compared is the "
                     "parsed sample / error class (D) and the exact (sender_ts, receiver_ts, leap) handed to the controller (S), so "
                     "NtpDuration::from_seconds is compared bit for bit.  non-trivial = size-40 buffers (D) and datagrams that reach the magic field (S)")
    c.assumptions += [
        "hand-written model coq/Model/SockSample.v of recv/receive_sample/deserialize_sample/Measurement construction, tied by the correspondence above",
        "kernel interface: recv on a Unix datagram socket truncates to the buffer and reports the copied length (modelled by `recv`; exercised on a real socket on every run)",
        "NtpDuration::from_seconds modelled on primitive floats (Base/D3Float.v: floor, `as i64`), compared bit for bit through sender_ts",
        "outside the model: tokio's select/recv plumbing, the tracing calls, clock.now() failing (process::exit), the snapshot map insert",
    ]
    return c.finish()


MANIFEST = {
    "claimed": True,
    "text": "Theorems (Coq, every datagram = every byte list of every length; every receive result and 40-byte buffer): one loop iteration of "
            "the GPSd socket task yields a sample iff the datagram has exactly 40 bytes, magic 0x534f434b, pulse 0 and a finite binary64 "
            "offset (C40_accept_iff, C40_deserialize_accept_iff; finite = exponent field not all ones = neither NaN nor infinite: "
            "C40_finite_bits, C40_finite_not_nan_inf, proved on Coq's primitive floats through the FloatAxioms specs); any other length, in "
            "particular longer datagrams truncated by recv, is rejected (C40_wrong_length_rejected); the controller receives a measurement "
            "exactly for accepted samples, with receive time = clock reading and offset = -from_seconds(sample offset) wrapping "
            "(C40_measurement_only_if_accepted, C40_measurement); no datagram reaches a panic site (C40_total, C40_deserialize_total). "
            "Model of the repaired code (fix-c40: finite check, receive buffer one byte larger than a sample).",
    "note": "Trusted: Coq kernel+vm_compute, stdlib primitive-float axioms (FloatAxioms: Prim2SF_SF2Prim, ltb_spec, eqb_spec, abs_spec) and the "
            "classical/funext axioms pulled in by Flocq's IEEE754.Bits; the hand-written model incl. the kernel's datagram truncation "
            "semantics (checked on a real socket each run, not provable); harness + driver. Partial: tokio plumbing, tracing, "
            "clock failure exit and snapshot publication are not modelled. Observation (not part of the property text): the code hands on "
            "sender_ts = now - offset, i.e. remote-local = -offset, while gpsd/chrony define the SOCK offset as reference - system time.",
    "design_ref": "DESIGN.md 3 C40, 4 row 10",
}
