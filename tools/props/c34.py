"""C34: NTPv5 Bloom filters are transferred faithfully.
Model: coq/Model/Bloom.v; theorems: coq/Props/C34.v; tie: BloomFilter, ServerId, RemoteBloomFilter,
ReferenceIdRequest::to_response and the server path NtpPacket::timestamp_response through
harness/ntp-proto/c34.rs."""
import os

from tools import vplib

VALID_CHUNKS = [4, 8, 16, 32, 64, 128, 256, 512]
INVALID_CHUNKS = [0, 1, 2, 3, 5, 6, 12, 20, 24, 48, 100, 384, 510, 516, 520, 1024, 65532]
MOD = 1000003


def checksum(bs):
    acc = 0
    for i, x in enumerate(bs):
        acc = (acc + (i + 1) * x) % MOD
    return acc


def request_new_ok(plen, off):
    return plen % 4 == 0 and ((plen + off) % 65536) <= 512


def rand_id(rng):
    r = rng.random()
    if r < 0.7:
        return sorted(rng.sample(range(4096), 10))
    if r < 0.85:       # boundary indices, unsorted, repeated
        pool = [0, 1, 7, 8, 9, 15, 16, 4087, 4088, 4094, 4095, 2047, 2048]
        return [rng.choice(pool) for _ in range(10)]
    base = rng.randrange(0, 4096 - 16)
    return [base + rng.randrange(16) for _ in range(10)]    # clustered in two bytes


# ---------------------------------------------------------------- Bloom cases
def bloom_case(rng):
    ops = []
    added = []
    for _ in range(rng.randint(1, 10)):
        r = rng.random()
        if r < 0.4:
            i = rand_id(rng)
            ops.append(("a", i))
            added.append(i)
        elif r < 0.55:
            ids = [rand_id(rng) for _ in range(rng.randint(1, 4))]
            ops.append(("u", ids))
            added += ids
        elif r < 0.8 and added:
            ops.append(("q", rng.choice(added)))
        else:
            i = rand_id(rng)
            if added and rng.random() < 0.5:       # nine members and one stranger
                i = list(rng.choice(added))
                i[rng.randrange(10)] = rng.randrange(4096)
            ops.append(("q", i))
    for i in added[-3:]:
        ops.append(("q", i))
    return ("B", ops)


def bloom_line(ops):
    out = []
    for k, v in ops:
        if k == "u":
            out.append("u:" + ";".join(",".join(map(str, i)) for i in v))
        else:
            out.append(k + ":" + ",".join(map(str, v)))
    return "B " + " ".join(out)


def bloom_coq(ops):
    zl = lambda i: "[" + "; ".join(map(str, i)) + "]"
    t = []
    for k, v in ops:
        if k == "a":
            t.append("BAdd " + zl(v))
        elif k == "u":
            t.append("BUnion [" + "; ".join(zl(i) for i in v) + "]")
        else:
            t.append("BQuery " + zl(v))
    return "CaseBloom [" + "; ".join(t) + "]"


def bloom_monitor(ops, out):
    """no false negatives: every id added so far (directly or through a union) is reported"""
    if len(out) != len(ops) + 1:
        return None
    members = []
    for (k, v), o in zip(ops, out):
        if k == "a":
            members.append(v)
        elif k == "u":
            members += v
        elif v in members and o != "1":
            return ("id %s was added to the filter but contains_id says no" % v, {"ops": bloom_line(ops)})
    return None


# ---------------------------------------------------------------- remote cases
def server_filter(rng):
    r = rng.random()
    f = bytearray(512)
    if r < 0.08:
        return f
    if r < 0.14:
        return bytearray([255] * 512)
    for _ in range(rng.choice([1, 2, 5, 16, 40])):
        for i in rand_id(rng):
            f[i // 8] |= 1 << (i % 8)
    for _ in range(rng.choice([0, 0, 3, 20])):
        f[rng.randrange(512)] = rng.randrange(256)
    f[0] |= rng.choice([0, 1])
    f[511] |= rng.choice([0, 128])
    return f


S_EDGES = [(0, 0), (4, 0), (4, 508), (4, 512), (8, 508), (512, 0), (512, 4), (516, 0), (0, 512), (4, 65532),
           (65532, 8), (65532, 4), (2, 510), (2, 511), (6, 0), (10, 506), (600, 0), (16, 496), (16, 500), (3, 100),
           (513, 0), (5, 508), (4, 600), (65535, 1), (65535, 0), (2, 65535)]


def remote_case(rng, cs, style):
    f = server_filter(rng)
    evs = []
    cookie = rng.randrange(1, 1 << 40)
    nreq = 0
    rounds = 512 // cs
    n = {"clean": rounds + rng.choice([0, 1, 2]), "short": rng.randint(0, max(0, rounds - 1)),
         "noisy": rounds + rng.randint(0, 3)}[style]
    n = min(n, 140)
    for _ in range(n):
        cookie += rng.randint(1, 1000)
        evs.append(("q", cookie))
        nreq += 1
        if style == "noisy":
            for _ in range(rng.choice([0, 0, 1, 2])):
                r = rng.random()
                if r < 0.3 and nreq > 1:
                    evs.append(("d", rng.randrange(nreq - 1)))                 # stale answer
                elif r < 0.5:
                    evs.append(("j", cookie, rng.choice([x for x in (0, 4, cs - 4, cs + 4, 2 * cs, 512) if 0 <= x <= 512 and x != cs]),
                                rng.randrange(256)))                           # right cookie, wrong size
                elif r < 0.7:
                    evs.append(("j", cookie + 1, cs, rng.randrange(256)))      # wrong cookie, right size
                elif r < 0.8:
                    cookie += 1
                    evs.append(("q", cookie))                                   # request again (previous one lost)
                    nreq += 1
                else:
                    p, o = rng.choice(S_EDGES)
                    evs.append(("s", p, o))
            if rng.random() < 0.12:
                continue                                                        # answer lost
        evs.append(("d", nreq - 1))
        if style == "noisy" and rng.random() < 0.15:
            evs.append(("d", nreq - 1))                                         # duplicate
    if style == "noisy" and rng.random() < 0.1:
        evs.insert(0, ("d", 0))
        evs.insert(0, ("j", 5, cs, 1))
    return ("R", cs, f, evs)


def accepted_junk_case(rng, cs):
    """junk that passes both tests is copied: outside the theorem's [honest] hypothesis, inside the correspondence"""
    f = server_filter(rng)
    evs = []
    c = 100
    for _ in range(512 // cs):
        c += 1
        evs += [("q", c), ("j", c, cs, rng.randrange(256))]
    return ("R", cs, f, evs)


def sparse(f):
    return [(i, b) for i, b in enumerate(f) if b]


def remote_line(cs, f, evs):
    sp = sparse(f)
    fs = ",".join("%d.%d" % x for x in sp) if sp else "-"
    t = []
    for e in evs:
        if e[0] == "q":
            t.append("q%d" % e[1])
        elif e[0] == "d":
            t.append("d%d" % e[1])
        elif e[0] == "j":
            t.append("j%d.%d.%d" % e[1:])
        else:
            t.append("s%d.%d" % e[1:])
    return "R %d %s %s" % (cs, fs, " ".join(t))


def remote_coq(cs, f, evs):
    fs = "[" + "; ".join("%d; %d" % x for x in sparse(f)) + "]"
    t = []
    for e in evs:
        if e[0] == "q":
            t.append("HQ %d" % e[1])
        elif e[0] == "d":
            t.append("HD %d%%nat" % e[1])
        elif e[0] == "j":
            t.append("HJ %d %d%%nat %d" % e[1:])
        else:
            t.append("HS %d %d" % e[1:])
    return "CaseRemote %d %s [%s]" % (cs, fs, "; ".join(t))


def remote_monitor(cs, f, evs, out):
    """the property on one run: acceptance only for the outstanding request and the requested size; the server
    answers with exactly the requested bytes or not at all; after 512/chunk genuine answers the client holds the
    server's filter, and nothing before.  (python byte arrays; nothing of the Coq model is used)"""
    where = {"case": remote_line(cs, f, evs)[:2000]}
    valid = cs % 4 == 0 and 0 < cs <= 512 and 512 % cs == 0
    if not valid:
        return None if out == ["-1"] else ("chunk size %d accepted" % cs, where)
    if out == ["-1"]:
        return ("valid chunk size %d refused" % cs, where)
    pos = 0
    reqs = []
    outstanding = None
    genuine, junk_accepted = 0, 0
    try:
        for e in evs:
            if e[0] == "q":
                off, plen = int(out[pos]), int(out[pos + 1])
                pos += 2
                if plen != cs or off + plen > 512 or off % cs:
                    return ("request for %d bytes at %d with chunk size %d" % (plen, off, cs), where)
                reqs.append((off, e[1]))
                outstanding = (off, e[1])
            elif e[0] in ("d", "j"):
                if e[0] == "d":
                    if e[1] >= len(reqs):
                        pos += 1
                        continue
                    off, c = reqs[e[1]]
                    size = cs
                    is_genuine = outstanding == (off, c)
                else:
                    c, size, is_genuine = e[1], e[2], False
                code = int(out[pos])
                pos += 3
                should = outstanding is not None and outstanding[1] == c and size == cs
                if (code == 0) != should:
                    return ("response with cookie %d and %d bytes %s although the outstanding request is %s with chunk size %d"
                            % (c, size, "accepted" if code == 0 else "refused (code %d)" % code, outstanding, cs), where)
                if code == 0:
                    outstanding = None
                    if is_genuine:
                        genuine += 1
                    else:
                        junk_accepted += 1
            else:
                plen, off = e[1], e[2]
                got = out[pos]
                if got == "-1":
                    pos += 1
                    if off + plen <= 512:
                        return ("server gives no answer to the chunk request (%d bytes at %d)" % (plen, off), where)
                else:
                    ln, cks = int(out[pos]), int(out[pos + 1])
                    pos += 2
                    if off + plen > 512 or ln != plen or cks != checksum(f[off:off + plen]):
                        return ("server answers the chunk request (%d bytes at %d) with %d bytes that are not that slice of its filter"
                                % (plen, off, ln), where)
        full = out[pos]
        if junk_accepted == 0:
            if genuine >= 512 // cs:
                if full != "1" or int(out[pos + 1]) != checksum(f):
                    return ("all %d chunk answers received but the client does not hold the server's filter" % (512 // cs), where)
            elif full != "-1":
                return ("full filter reported after only %d of %d chunks" % (genuine, 512 // cs), where)
    except (IndexError, ValueError):
        return None
    return None


def main():
    c = vplib.Check("C34")
    c.run_gate()
    rng = c.rng
    quick = c.tier == "quick"
    cases = []
    d = os.path.join(vplib.VERIF, "corpus", "C34")
    # boundary: every chunk size, clean / short / noisy; invalid sizes
    for cs in VALID_CHUNKS:
        for style in ("clean", "short", "noisy", "noisy"):
            cases.append(remote_case(rng, cs, style))
        cases.append(accepted_junk_case(rng, cs))
    for cs in INVALID_CHUNKS:
        cases.append(("R", cs, bytearray(512), [("q", 1)]))
    cases.append(("R", 16, server_filter(rng), [("s", p, o) for p, o in S_EDGES]))
    cases.append(("R", 512, bytearray([255] * 512), [("s", p, o) for p, o in S_EDGES]))
    for _ in range(60 if quick else 1500):
        cs = rng.choice(VALID_CHUNKS[2:] if rng.random() < 0.8 else VALID_CHUNKS)
        cases.append(remote_case(rng, cs, rng.choice(["noisy", "noisy", "noisy", "clean", "short"])))
    for _ in range(150 if quick else 4000):
        cases.append(bloom_case(rng))

    def line_of(case):
        return bloom_line(case[1]) if case[0] == "B" else remote_line(*case[1:])

    def coq_case_of(case, out):
        if out and out[0] == "PANIC":
            o = "[(-99)%Z]"
        else:
            o = vplib.coq_list([vplib.zlit(int(x)) for x in out])
        return (bloom_coq(case[1]) if case[0] == "B" else remote_coq(*case[1:])), o

    def monitor(case, out):
        if out and out[0] == "PANIC":
            return ("panic: %s" % " ".join(out[1:]), {"case": line_of(case)[:2000]})
        return bloom_monitor(case[1], out) if case[0] == "B" else remote_monitor(case[1], case[2], case[3], out)

    stats = {"bloom": sum(1 for x in cases if x[0] == "B"), "remote": sum(1 for x in cases if x[0] == "R"),
             "completed_transfers": 0, "rejected_responses": 0, "accepted_responses": 0}

    def nontrivial(case, out):
        if case[0] == "B":
            return len(case[1]) >= 3
        acc = 0
        if case[1] in VALID_CHUNKS:
            # count codes of d/j events: they are the triples printed for those events
            pos = 0
            for e in case[3]:
                if e[0] == "q":
                    pos += 2
                elif e[0] in ("d", "j"):
                    if pos < len(out) and out[pos] in ("0", "1", "2", "3"):
                        if out[pos] == "0":
                            acc += 1
                            stats["accepted_responses"] += 1
                        else:
                            stats["rejected_responses"] += 1
                        pos += 3
                    else:
                        pos += 1
                else:
                    pos += 1 if pos < len(out) and out[pos] == "-1" else 2
            if len(out) >= 2 and out[-2] != "-1" and out[-3:-2] == ["1"]:
                stats["completed_transfers"] += 1
        return acc >= 1

    vplib.correspondence(
        c, "ntp-proto", cases,
        line_of=line_of,
        coq_case_of=coq_case_of,
        preamble="From V Require Import Model.Bloom.\nOpen Scope Z_scope.\n",
        checker="mismatches zl_eqb run_c34",
        monitor=monitor,
        nontrivial=nontrivial,
        shard=40,
        sample_of=lambda case, out: {"case": line_of(case)[:300], "implementation": " ".join(out)[:300]},
    )
    c.cov["rule"] = ("(R) RemoteBloomFilter for every valid chunk size (4..512) and 17 invalid ones against a real server filter: "
                     "clean, incomplete and noisy transfers (stale, duplicated, wrong-cookie, wrong-size answers, lost answers, repeated "
                     "requests, answers before any request); every genuine answer is produced by ReferenceIdRequest::to_response AND "
                     "extracted from NtpPacket::timestamp_response on a real NTPv5 request (must agree); to_response on %d boundary "
                     "(length, offset) pairs incl. u16 wrap and decoder-only requests; compared per event: offsets, result codes, "
                     "next_to_request, is_filled, and finally full_filter and the internal bytes (checksums).  (B) BloomFilter: add_id, "
                     "union (add and FromIterator), contains_id on random / boundary / clustered / near-miss ids, count_ones, final bytes.  "
                     "Non-trivial: (R) at least one response accepted, (B) at least three operations; distinct = distinct inputs"
                     % len(S_EDGES))
    c.cov["distribution"] = stats
    c.assumptions += [
        "hand-written model of BloomFilter/ServerId/RemoteBloomFilter/ReferenceIdRequest::{new,to_response} (coq/Model/Bloom.v), tied to "
        "the code by the correspondence above; filters are compared through a position-weighted checksum mod 1000003 of their 512 bytes",
        "theorem C34_complete assumes [honest]: data passing the cookie and size tests is the server's answer to the outstanding "
        "request (derived from fresh client cookies by C34_discipline_suffices); client cookies are 64 random bits (NtpClientCookie::new_random)",
        "the extension-field codec of request and response (4-byte alignment, C24) is not part of this model; the harness passes byte "
        "slices through ReferenceIdResponse::new",
    ]
    return c.finish()


MANIFEST = {
    "claimed": True,
    "text": "Theorems (Coq, closed under the global context): no false negatives and monotonicity of add_id and of filter union for all filters and ids (C34_no_false_negative, C34_union_keeps_members); the server answers a chunk request with exactly bytes [off, off+len) of its filter iff off+len <= 512 and not at all otherwise (C34_server_chunk); RemoteBloomFilter::new accepts exactly the multiples of 4 in 1..512 dividing 512 (C34_chunk_sizes); a response is accepted iff a request is outstanding, the cookie is that request's and the length is the chunk size, and handle_response cannot panic (C34_accept_only_current); for every interleaving of requests and genuine, stale, duplicated, wrong-cookie, wrong-size responses, full_filter is Some exactly when 512/chunk answers were accepted and is then the server's filter, and before that the bytes below next_to_request agree with it (C34_complete), under the hypothesis that data passing both acceptance tests is the server's answer to the outstanding request, which follows from fresh client cookies (C34_discipline_suffices).",
    "note": "Trusted: Coq kernel + vm_compute; hand-written model coq/Model/Bloom.v tied to BloomFilter, ServerId, RemoteBloomFilter, ReferenceIdRequest::{new,to_response} and to the server path NtpPacket::timestamp_response by the correspondence (all valid and 17 invalid chunk sizes, noisy transfers, boundary (length, offset) pairs incl. u16 wrap); filters compared through a position-weighted checksum mod 1000003; client cookies are 64 random bits, freshness is a hypothesis; the extension-field wire codec is C24's.",
    "design_ref": 'DESIGN.md 3 C34',
}
