"""generate seeded/RESULTS.md from seeded/<id>/meta.json (written by tools/seedcheck.py --keep) and the
re-test notes in seeded/retest.json"""
import json
import os

V = os.path.dirname(os.path.dirname(os.path.abspath(__file__)))
retest = json.load(open(os.path.join(V, "seeded", "retest.json"))) if os.path.exists(os.path.join(V, "seeded", "retest.json")) else {}
rows = []
n_replay = n_nf = 0
for d in sorted(os.listdir(os.path.join(V, "seeded"))):
    mp = os.path.join(V, "seeded", d, "meta.json")
    if not os.path.exists(mp):
        continue
    m = json.load(open(mp))
    conf = m.get("confirmed_by_lead", {})
    oc = m.get("our_checks", {})
    verdicts = []
    for k, c in oc.items():
        line = c.get("violation_line") or ""
        if c.get("exit") == 1 and "no-failing-input-found" in line:
            verdicts.append("%s: VIOLATION, no-failing-input-found" % k)
        elif c.get("exit") == 1 and line:
            verdicts.append("%s: VIOLATION with concrete replay" % k)
        else:
            verdicts.append("%s: exit %s (MISSED)" % (k, c.get("exit")))
    first = "; ".join(verdicts)
    rt = retest.get(d)
    final = rt["verdict"] if rt else first
    if "concrete replay" in final:
        n_replay += 1
    elif "no-failing-input-found" in final:
        n_nf += 1
    rows.append("| %s | %s | %s | demo %s/%s, suite unchanged: %s | %s | %s |" % (
        d, (m.get("summary") or "").replace("|", "/")[:300], (m.get("needs") or "").replace("|", "/")[:300],
        conf.get("demo_without_patch"), conf.get("demo_with_patch"), conf.get("suite_unchanged"), first,
        (rt["note"] + " -> " + rt["verdict"]) if rt else ""))
out = ["# Seeded property-breaking changes and what the checks report",
       "",
       "One change per property, produced by independent sub-agents that saw only the property record and a scratch worktree (nothing of /verif).",
       "Each was re-confirmed by `tools/seedcheck.py` in a scratch worktree of /repo's HEAD: the demonstration test passes without and fails with the patch,",
       "the workspace compiles with the patch and the full suite fails only the tests that also fail on the unchanged tree in this sandbox",
       "(`BASELINE.json: always_fail/flaky`).  Our check was then run against the patched tree (`VERIF_REPO=<worktree> ./check <id>`).",
       "",
       "Result: %d of %d changes are reported with a concrete failing input as replay, %d as `no-failing-input-found` (broken correspondence or tie, no monitor hit); none is missed." % (n_replay, len(rows), n_nf),
       "",
       "| id | change | needs | lead's confirmation | first verdict of our check | strengthening and final verdict |",
       "|---|---|---|---|---|---|"] + rows
open(os.path.join(V, "seeded", "RESULTS.md"), "w").write("\n".join(out) + "\n")
print(len(rows), n_replay, n_nf)
