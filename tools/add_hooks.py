#!/usr/bin/env python3
"""Append the guarded, add-only hook item to the listed source files of /repo and
create the (initially empty) hook files under /verif/harness.  Idempotent."""
import os, sys
SITES = {
 "ntp-proto": ["lib.rs", "source.rs", "server.rs", "keyset.rs", "cookiestash.rs", "ipfilter.rs",
   "time_types.rs", "config.rs", "system.rs", "identifiers.rs", "packet/mod.rs", "packet/extension_fields.rs",
   "packet/mac.rs", "packet/crypto.rs", "packet/v5/mod.rs", "packet/v5/server_reference_id.rs", "packet/v5/extension_fields.rs",
   "nts/mod.rs", "nts/record.rs", "nts/messages.rs", "algorithm/mod.rs", "algorithm/kalman/mod.rs",
   "algorithm/kalman/source.rs", "algorithm/kalman/select.rs", "algorithm/kalman/combiner.rs",
   "algorithm/kalman/matrix.rs"],
 "ntpd": ["lib.rs", "daemon/mod.rs", "daemon/spawn/mod.rs", "daemon/spawn/pool.rs", "daemon/spawn/standard.rs",
   "daemon/spawn/nts_pool.rs", "daemon/spawn/nts.rs", "daemon/sockets.rs", "daemon/sock_source.rs",
   "daemon/server.rs", "daemon/nts_key_provider.rs", "daemon/config/mod.rs", "daemon/clock.rs",
   "daemon/observer.rs", "daemon/keyexchange.rs", "daemon/system.rs", "daemon/ntp_source.rs"],
 "statime-wire": ["lib.rs", "common/tlv.rs", "messages/mod.rs", "messages/header.rs"],
 "statime-base": ["lib.rs", "time_types.rs"],
 "statime-algo": ["lib.rs", "estimator.rs", "filter.rs", "matrix.rs"],
 "statime-csptp": ["lib.rs", "source.rs", "server.rs", "messages.rs"],
}
for crate, files in SITES.items():
    hd = "/verif/harness/" + crate
    os.makedirs(hd, exist_ok=True)
    for f in files:
        flat = f[:-3].replace("/", "__")
        hook = "%s/hook_%s.rs" % (hd, flat)
        if not os.path.exists(hook):
            open(hook, "w").write("// hook file for %s/src/%s: declares the per-property harness modules\n" % (crate, f))
        src = "/repo/%s/src/%s" % (crate, f)
        text = open(src).read()
        item = '\n#[cfg(all(test, pendulum_project_ntpd_rs_verif))]\n#[path = "%s"]\nmod verif_hook;\n' % hook
        if "mod verif_hook;" in text:
            continue
        if not text.endswith("\n"):
            text += "\n"
        open(src, "w").write(text + item)
        print("hooked", src)
