"""setup: build the whole Coq development and the harness test binaries, offline."""
import sys

from tools import constants, vplib


def main():
    r = constants.regenerate()
    print("constants:", r)
    vplib.ensure_makefile()
    rc, out = vplib.sh("timeout 7000 make -j%d" % vplib.NCPU, cwd=vplib.COQ)
    print(out[-3000:])
    if rc != 0:
        print("setup: coq build failed (checks will report it per property)")
    exe, log, mode = vplib.build_harness("ntp-proto", "c00")
    print("harness build ->", exe, mode)
    if exe is None:
        print(log[-3000:])
    return 0


if __name__ == "__main__":
    sys.exit(main())
