"""Confirm a seeded change (patch.diff + demo.diff + demo_cmd.txt) independently and run
our checks against it.

  python3 -m tools.seedcheck <property id> <dir with patch.diff ...> [--no-suite] [--checks C07,C09]

Steps (all in one persistent scratch worktree /tmp/seedverify_wt with its own target dir, so
rebuilds are incremental; /repo itself is never touched):
  1. reset the worktree to /repo's HEAD
  2. demo.diff only            -> the demo test must PASS
  3. demo.diff + patch.diff    -> the demo test must FAIL
  4. patch.diff only           -> `cargo test --workspace` : the set of failing tests must equal the
                                  baseline failing set (computed once on the clean worktree, cached)
  5. VERIF_REPO=<worktree> ./check <id>  for the property (and any extra ids) -> expect exit 1 + VIOLATION
Prints a JSON summary; with --keep copies the files to /verif/seeded/<id>/ together with meta.json.
"""
import json
import os
import re
import shutil
import subprocess
import sys

LANE = os.environ.get("SEEDLANE", "")
WT = "/tmp/seedverify_wt" + LANE
TGT = "/tmp/seedverify_target" + LANE


def flaky_tests():
    """tests that fail intermittently or always on the unchanged tree in this sandbox (BASELINE.json),
    by the name cargo prints (without the crate prefix)"""
    try:
        b = json.load(open("/root/.vp/BASELINE.json"))
    except (OSError, ValueError):
        b = {}
    names = set(b.get("flaky", [])) | set(b.get("always_fail", [])) | set(b.get("dropped_after_offline", []))
    out = {n.split("::", 1)[1] for n in names if "::" in n}
    out |= {"test::test_ipv4", "test::test_ipv6", "daemon::ntp_source::tests::test_timeroundtrip",
            "daemon::server::tests::test_server_serves", "server::tests::test_server_rate_limit"}
    return out
VERIF = os.path.dirname(os.path.dirname(os.path.abspath(__file__)))


def sh(cmd, cwd=None, env=None, timeout=7200):
    e = dict(os.environ)
    e.update({"CARGO_TARGET_DIR": TGT, "CARGO_NET_OFFLINE": "true"})
    if env:
        e.update(env)
    p = subprocess.run(cmd, cwd=cwd, env=e, shell=True, stdout=subprocess.PIPE, stderr=subprocess.STDOUT,
                       text=True, errors="replace", timeout=timeout)
    return p.returncode, p.stdout


def reset():
    if not os.path.exists(WT):
        rc, out = sh("git -C /repo worktree add --detach %s HEAD" % WT)
        assert rc == 0, out
    else:
        head = subprocess.check_output("git -C /repo rev-parse HEAD", shell=True, text=True).strip()
        sh("git reset -q --hard; git clean -fdq; git checkout -q --detach %s; git reset -q --hard %s" % (head, head), cwd=WT)


def failing_tests(out):
    fails = set()
    for m in re.finditer(r"^test (\S+) \.\.\. FAILED", out, re.M):
        fails.add(m.group(1))
    for m in re.finditer(r"^    (\S+)$", out, re.M):
        pass
    return fails


def suite():
    rc, out = sh("cargo test --workspace --offline --no-fail-fast 2>&1", cwd=WT)
    compiled = "could not compile" not in out
    return compiled, failing_tests(out), out


def main():
    pid = sys.argv[1]
    d = os.path.abspath(sys.argv[2])
    no_suite = "--no-suite" in sys.argv
    keep = "--keep" in sys.argv
    checks = [pid]
    if "--checks" in sys.argv:
        checks = sys.argv[sys.argv.index("--checks") + 1].split(",")
    res = {"property": pid, "dir": d}
    patch = os.path.join(d, "patch.diff")
    demo = os.path.join(d, "demo.diff")
    cmd = open(os.path.join(d, "demo_cmd.txt")).read().strip().splitlines()[-1]
    cmd = re.sub(r"CARGO_TARGET_DIR=\S+\s*", "", cmd)
    cmd = re.sub(r"cd \S+ && ", "", cmd)
    if "--offline" not in cmd:
        cmd = cmd.replace("cargo test", "cargo test --offline")
    res["demo_cmd"] = cmd
    reset()
    # baseline failing set (cached per HEAD)
    head = subprocess.check_output("git -C %s rev-parse HEAD" % WT, shell=True, text=True).strip()
    cache = "/tmp/seedverify_baseline_%s%s.json" % (head, LANE)
    if not no_suite:
        if os.path.exists(cache):
            base = set(json.load(open(cache)))
        else:
            ok, base, out = suite()
            assert ok, out[-3000:]
            json.dump(sorted(base), open(cache, "w"))
        res["baseline_failing"] = sorted(base)
    # 2. demo only
    rc, out = sh("git apply %s" % demo, cwd=WT)
    assert rc == 0, "demo.diff does not apply: " + out
    rc, out = sh(cmd + " 2>&1", cwd=WT)
    res["demo_without_patch"] = "pass" if rc == 0 and re.search(r"test result: ok\. [1-9]", out) else "FAIL"
    if res["demo_without_patch"] != "pass":
        res["demo_without_patch_log"] = out[-1500:]
    # 3. demo + patch
    rc, out = sh("git apply %s" % patch, cwd=WT)
    assert rc == 0, "patch.diff does not apply on top of demo.diff: " + out
    rc, out = sh(cmd + " 2>&1", cwd=WT)
    res["demo_with_patch"] = "fail" if rc != 0 and "could not compile" not in out else "UNEXPECTED-PASS-OR-COMPILE-ERROR"
    if res["demo_with_patch"] != "fail":
        res["demo_with_patch_log"] = out[-1500:]
    # 4. patch only: whole suite
    reset()
    rc, out = sh("git apply %s" % patch, cwd=WT)
    assert rc == 0, "patch.diff does not apply: " + out
    if not no_suite:
        ok, fails, out = suite()
        res["compiles_with_patch"] = ok
        res["suite_failing_with_patch"] = sorted(fails)
        fl = flaky_tests()
        res["suite_unchanged"] = ok and (fails - fl) == (base - fl)
        res["suite_failing_not_flaky"] = sorted(fails - fl)
    # 5. our checks
    res["checks"] = {}
    for c in checks:
        rc, out = sh("./check %s" % c, cwd=VERIF, env={"VERIF_REPO": WT, "CARGO_TARGET_DIR": os.path.join(VERIF, ".cache", "target")})
        viol = [l for l in out.splitlines() if l.startswith("VIOLATION")]
        res["checks"][c] = {"exit": rc, "violation_line": viol[0] if viol else None,
                            "detail": [l for l in out.splitlines() if l.startswith("  ")][:8],
                            "tail": out[-2500:]}
    reset()
    print(json.dumps(res, indent=1))
    if keep:
        dst = os.path.join(VERIF, "seeded", pid if not os.path.exists(os.path.join(VERIF, "seeded", pid)) or "--overwrite" in sys.argv else pid + "_b")
        os.makedirs(dst, exist_ok=True)
        for f in ("patch.diff", "demo.diff", "demo_cmd.txt"):
            shutil.copy(os.path.join(d, f), dst)
        meta = {}
        mp = os.path.join(d, "meta.json")
        if os.path.exists(mp):
            try:
                meta = json.load(open(mp))
            except ValueError:
                meta = {"raw": open(mp).read()}
        meta["confirmed_by_lead"] = {k: res.get(k) for k in ("demo_cmd", "demo_without_patch", "demo_with_patch",
                                                             "compiles_with_patch", "suite_unchanged", "suite_failing_with_patch")}
        meta["our_checks"] = res["checks"]
        json.dump(meta, open(os.path.join(dst, "meta.json"), "w"), indent=1)
    return 0


if __name__ == "__main__":
    sys.exit(main())
