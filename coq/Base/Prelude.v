(* Shared definitions: result type with explicit panics, machine-integer
   wrappers over Z, and the generic comparison driver used by the
   correspondence check (the cases files call [mismatches]). *)
From Coq Require Export List ZArith NArith Bool Lia.
Export ListNotations.
Open Scope Z_scope.

Inductive res (A : Type) : Type :=
| Ok (a : A)
| Err (e : Z)          (* error class, small enum per model *)
| Panic (site : Z).    (* an explicit panic site of the Rust code *)
Arguments Ok {A} a.
Arguments Err {A} e.
Arguments Panic {A} site.

Definition res_bind {A B} (r : res A) (f : A -> res B) : res B :=
  match r with Ok a => f a | Err e => Err e | Panic s => Panic s end.
Notation "'do' x <- r ; k" := (res_bind r (fun x => k))
  (at level 200, x pattern, r at level 100, k at level 200).

Definition is_panic {A} (r : res A) : bool :=
  match r with Panic _ => true | _ => false end.

(* machine integers: values are Z, the wrap or saturation is written out *)
Definition wrap (bits : Z) (z : Z) : Z := z mod 2 ^ bits.
Definition to_signed (bits : Z) (z : Z) : Z :=
  let m := z mod 2 ^ bits in if m <? 2 ^ (bits - 1) then m else m - 2 ^ bits.
Definition clampZ (lo hi z : Z) : Z := Z.max lo (Z.min hi z).
Definition i64_min : Z := - 2 ^ 63.
Definition i64_max : Z := 2 ^ 63 - 1.
Definition sat_i64 (z : Z) : Z := clampZ i64_min i64_max z.
Definition u64_max : Z := 2 ^ 64 - 1.

(* correspondence driver: a case is (index, input, what the implementation
   answered); the result lists the cases on which the model computes
   something else, with the model's answer *)
Definition mismatches {I O : Type} (eqb : O -> O -> bool) (run : I -> O)
  (cases : list (N * I * O)) : list (N * O) :=
  flat_map (fun c => match c with (n, i, o) =>
     let m := run i in if eqb m o then [] else [(n, m)] end) cases.
