(* Compact transport of byte strings and integer lists in the correspondence
   cases of the NTS properties (C28-C30): a Coq string literal of hexadecimal
   digits is lexed in one piece, where a list of thousands of numerals is not.
   [hex_bytes]: two digits per byte.  [hex_words]: six digits per integer
   (0 .. 2^24-1); a negative or larger integer is never produced by the
   drivers.  [hex_ints]: two digits for an integer below 255, otherwise "ff"
   followed by six digits. *)
From Coq Require Import List ZArith Ascii String.
Import ListNotations.
Open Scope Z_scope.

Definition hexval (c : ascii) : Z :=
  let n := Z.of_N (N_of_ascii c) in
  if n <? 58 then n - 48 else n - 87.   (* '0'..'9', 'a'..'f' *)

Fixpoint hex_bytes (s : string) : list Z :=
  match s with
  | String a (String b r) => (hexval a * 16 + hexval b) :: hex_bytes r
  | _ => []
  end.

Fixpoint hex_words (s : string) : list Z :=
  match s with
  | String a (String b (String c (String d (String e (String f r))))) =>
    (((((hexval a * 16 + hexval b) * 16 + hexval c) * 16 + hexval d) * 16 + hexval e) * 16 + hexval f)
    :: hex_words r
  | _ => []
  end.

(* variable-length integers; the fuel (the string length) only makes the
   recursion structural *)
Fixpoint hex_ints_fuel (fuel : nat) (s : string) : list Z :=
  match fuel with
  | O => []
  | S f =>
    match s with
    | String a (String b r) =>
      let v := hexval a * 16 + hexval b in
      if v <? 255 then v :: hex_ints_fuel f r
      else
        match r with
        | String a (String b (String c (String d (String e (String g r'))))) =>
          (((((hexval a * 16 + hexval b) * 16 + hexval c) * 16 + hexval d) * 16 + hexval e) * 16 + hexval g)
          :: hex_ints_fuel f r'
        | _ => []
        end
    | _ => []
    end
  end.
Definition hex_ints (s : string) : list Z := hex_ints_fuel (String.length s) s.
