(* Float kit of the Kalman-filter model (C06): binary64 execution with Coq's
   primitive floats (hardware arithmetic, bit-exact with Rust's f64 for
   + - * / sqrt and comparisons), bit-pattern conversion, and the few
   conversions between f64 and the 64-bit fixed-point time types that the
   modelled code uses (`as f64`, `as i64`, `floor`).  Definitions only. *)
From Coq Require Export ZArith Bool Floats.
From Coq Require Import Uint63.
Open Scope Z_scope.

Definition NAN_BITS : Z := 0x7ff8000000000000.

(* IEEE-754 binary64 bit pattern; every NaN is printed as the canonical quiet NaN
   (the harness does the same) *)
Definition to_bits (f : float) : Z :=
  match Prim2SF f with
  | S754_zero s => if s then 2 ^ 63 else 0
  | S754_infinity s => (if s then 2 ^ 63 else 0) + 0x7ff0000000000000
  | S754_nan => NAN_BITS
  | S754_finite s m e =>
      let mz := Zpos m in
      (if s then 2 ^ 63 else 0)
      + (if mz <? 2 ^ 52 then mz else (e + 1075) * 2 ^ 52 + (mz - 2 ^ 52))
  end.

Definition of_bits (z : Z) : float :=
  let s := 2 ^ 63 <=? z in
  let r := z mod 2 ^ 63 in
  let E := r / 2 ^ 52 in
  let frac := r mod 2 ^ 52 in
  if E =? 2047 then
    (if frac =? 0 then (if s then neg_infinity else infinity) else nan)
  else if E =? 0 then
    match frac with
    | Zpos p => SF2Prim (S754_finite s p (-1074))
    | _ => if s then neg_zero else zero
    end
  else
    match (2 ^ 52 + frac)%Z with
    | Zpos p => SF2Prim (S754_finite s p (E - 1075))
    | _ => nan
    end.

(* `z as f64` for an i64 z: round to nearest, ties to even (of_uint63 is
   correctly rounded; the magnitude 2^63 is not a uint63 and is exact anyway) *)
Definition of_i64 (z : Z) : float :=
  if z =? - 2 ^ 63 then of_bits 0xC3E0000000000000
  else if z <? 0 then (- of_uint63 (Uint63.of_Z (- z)))%float
  else of_uint63 (Uint63.of_Z z).

(* f64::floor *)
Definition ffloor (f : float) : float :=
  match Prim2SF f with
  | S754_finite s m e =>
      if 0 <=? e then f
      else
        let q := Z.shiftr (Zpos m) (- e) in
        let exact := Z.shiftl q (- e) =? Zpos m in
        if s then (- of_uint63 (Uint63.of_Z (if exact then q else q + 1)))%float
        else of_uint63 (Uint63.of_Z q)
  | _ => f
  end.

(* `f as i64`: truncation toward zero, saturating, NaN -> 0 *)
Definition f2i64 (f : float) : Z :=
  match Prim2SF f with
  | S754_nan => 0
  | S754_zero _ => 0
  | S754_infinity s => if s then - 2 ^ 63 else 2 ^ 63 - 1
  | S754_finite s m e =>
      let a := if 0 <=? e then Z.shiftl (Zpos m) e else Z.shiftr (Zpos m) (- e) in
      let v := if s then - a else a in
      Z.max (- 2 ^ 63) (Z.min (2 ^ 63 - 1) v)
  end.

Definition U32MAX_F : float := of_bits 0x41EFFFFFFFE00000.   (* 4294967295.0 = u32::MAX as f64 *)

(* NtpDuration::to_seconds *)
Definition to_seconds_f (d : Z) : float := (of_i64 d / U32MAX_F)%float.

(* f64::round: nearest integer, ties away from zero *)
Definition fround (f : float) : float :=
  match Prim2SF f with
  | S754_finite s m e =>
      if 0 <=? e then f
      else
        let q := Z.shiftr (Zpos m) (- e) in
        let r := Zpos m - Z.shiftl q (- e) in
        let v := if Z.shiftl 1 (- e) <=? 2 * r then q + 1 else q in
        if v =? 0 then (if s then neg_zero else zero)
        else if s then (- of_uint63 (Uint63.of_Z v))%float else of_uint63 (Uint63.of_Z v)
  | _ => f
  end.

(* NtpDuration::from_seconds, release semantics (the debug_assert on NaN/inf is inactive);
   [rnd]: the fractional part is rounded (code after the C32 repair) instead of truncated *)
Definition from_seconds_f (rnd : bool) (x : float) : Z :=
  let i := ffloor x in
  let f := (x - i)%float in
  let iz := f2i64 i in
  if (- 2 ^ 31 <=? iz) && (iz <=? 2 ^ 31 - 1) then
    Z.lor (iz * 2 ^ 32) (f2i64 (if rnd then fround (f * U32MAX_F)%float else (f * U32MAX_F)%float))
  else if iz <? - 2 ^ 31 then - 2 ^ 63 else 2 ^ 63 - 1.

Definition fmax (a b : float) : float :=   (* f64::max: a NaN operand is ignored *)
  if is_nan a then b else if is_nan b then a else if (a <? b)%float then b else a.

(* f64 `%` (C fmod): exact remainder with the sign of the dividend *)
Definition ffmod (x y : float) : float :=
  match Prim2SF x, Prim2SF y with
  | S754_nan, _ | _, S754_nan | S754_infinity _, _ | _, S754_zero _ => nan
  | _, S754_infinity _ => x
  | S754_zero _, _ => x
  | S754_finite sx mx ex, S754_finite _ my ey =>
      let e := Z.min ex ey in
      let X := Z.shiftl (Zpos mx) (ex - e) in
      let Y := Z.shiftl (Zpos my) (ey - e) in
      match (X mod Y)%Z with
      | Zpos r => SF2Prim (S754_finite sx r e)
      | _ => if sx then neg_zero else zero
      end
  end.
