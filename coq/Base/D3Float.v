(* binary64 values at the harness boundary (64-bit patterns) and the handful of
   core::f64 operations used on the modelled paths of C38/C39/C40, executed on
   Coq's primitive floats (hardware binary64).  Definitions only; the facts
   are in Base/D3FloatFacts.v. *)
From Coq Require Import ZArith Bool Floats Uint63.
From Flocq Require IEEE754.Binary IEEE754.Bits.
From V Require Import Base.Prelude.
Open Scope Z_scope.

(* ---- bit pattern -> float (f64::from_bits) ---- *)
Definition sf_of_bits (b : Z) : spec_float :=
  Binary.FF2SF (Bits.binary_float_of_bits_aux 52 11 b).
Definition f64_of_bits (b : Z) : float := SF2Prim (sf_of_bits b).

Definition f64_exp_field (b : Z) : Z := (b / 2 ^ 52) mod 2 ^ 11.
Definition f64_man_field (b : Z) : Z := b mod 2 ^ 52.
Definition f64_sign_bit (b : Z) : bool := 2 ^ 63 <=? b.

(* ---- float -> bit pattern (f64::to_bits); every NaN is printed as the
   canonical quiet NaN (payloads are not observable through Prim2SF) ---- *)
Definition f64_to_bits (x : float) : Z :=
  match Prim2SF x with
  | S754_zero s => if s then 2 ^ 63 else 0
  | S754_infinity s => (if s then 2 ^ 63 else 0) + 2047 * 2 ^ 52
  | S754_nan => 2047 * 2 ^ 52 + 2 ^ 51
  | S754_finite s m e =>
      (if s then 2 ^ 63 else 0) +
      (if Zpos m <? 2 ^ 52 then Zpos m else (e + 1075) * 2 ^ 52 + (Zpos m - 2 ^ 52))
  end.

(* ---- core::f64 predicates, written the way core writes them ---- *)
Definition f64_is_nan (x : float) : bool := negb (PrimFloat.eqb x x).
Definition f64_is_infinite (x : float) : bool :=
  PrimFloat.eqb x PrimFloat.infinity || PrimFloat.eqb x PrimFloat.neg_infinity.
Definition f64_is_finite (x : float) : bool :=
  PrimFloat.ltb (PrimFloat.abs x) PrimFloat.infinity.
Definition f64_lt0 (x : float) : bool := PrimFloat.ltb x PrimFloat.zero.

(* ---- the value of a finite float as an integer ---- *)
Definition sf_signed_mantissa (s : bool) (m : positive) : Z :=
  if s then Zneg m else Zpos m.

(* the float with value p, for p < 2^53 (exact: mantissa shifted to 53 digits) *)
Definition sf_of_pos_int (p : positive) : spec_float :=
  match 53 - Zpos (digits2_pos p) with
  | Zpos k => S754_finite false (shift_pos k p) (Zneg k)
  | _ => S754_finite false p 0
  end.

(* f64::floor: a float with a non-negative exponent is an integer; otherwise
   |x| < 2^53 and the floor (Z./ rounds down) is converted back exactly *)
Definition f64_floor (x : float) : float :=
  match Prim2SF x with
  | S754_finite s m e =>
      if 0 <=? e then x
      else
        match (sf_signed_mantissa s m / 2 ^ (- e))%Z with
        | Z0 => PrimFloat.zero
        | Zpos p => SF2Prim (sf_of_pos_int p)
        | Zneg p => PrimFloat.opp (SF2Prim (sf_of_pos_int p))
        end
  | _ => x
  end.

(* `x as i64`: truncation toward zero, saturating, NaN -> 0 *)
Definition f64_to_i64 (x : float) : Z :=
  match Prim2SF x with
  | S754_nan => 0
  | S754_zero _ => 0
  | S754_infinity s => if s then i64_min else i64_max
  | S754_finite s m e =>
      let v := if 0 <=? e then sf_signed_mantissa s m * 2 ^ e
               else Z.quot (sf_signed_mantissa s m) (2 ^ (- e)) in
      sat_i64 v
  end.

(* `x as f64` for an i64 / u64 value: round to nearest even *)
Definition f64_of_Z (z : Z) : float :=
  SF2Prim (binary_normalize prec emax z 0 false).

Definition i32_min : Z := - 2 ^ 31.
Definition i32_max : Z := 2 ^ 31 - 1.
Definition u32_max_f : float := PrimFloat.of_uint63 4294967295%uint63.

(* NtpDuration::from_seconds, release profile (the debug_assert is inactive):
     let i = seconds.floor(); let f = seconds - i;
     match i as i64 { i32 range => (i << 32) | (f * u32::MAX as f64) as i64,
                      below => i64::MIN, above => i64::MAX } *)
Definition from_seconds (s : float) : Z :=
  let i := f64_floor s in
  let f := PrimFloat.sub s i in
  let iz := f64_to_i64 i in
  if (i32_min <=? iz) && (iz <=? i32_max)
  then Z.lor (iz * 2 ^ 32) (f64_to_i64 (PrimFloat.mul f u32_max_f))
  else if iz <? i32_min then i64_min else i64_max.

(* NtpDuration::to_seconds:  self.duration as f64 / u32::MAX as f64 *)
Definition to_seconds (d : Z) : float :=
  PrimFloat.div (f64_of_Z d) u32_max_f.

(* little-endian / big-endian byte strings *)
Fixpoint le_Z (bs : list Z) : Z :=
  match bs with [] => 0 | b :: r => b + 256 * le_Z r end.
Definition be_Z (bs : list Z) : Z := le_Z (rev bs).
Definition slice (a b : nat) (l : list Z) : list Z := firstn (b - a) (skipn a l).
