(* Facts about Base/D3Float.v: the float denoted by a 64-bit pattern and the
   core::f64 predicates on it, in terms of the IEEE-754 fields. *)
From Coq Require Import ZArith Bool Floats Lia.
From Flocq Require IEEE754.Binary IEEE754.Bits.
From V Require Import Base.Prelude Base.D3Float.
Open Scope Z_scope.

Lemma Zeq_bool_eqb x y : Zeq_bool x y = (x =? y).
Proof.
  unfold Zeq_bool. rewrite Z.eqb_compare. reflexivity.
Qed.

Definition sf_of_fields (s : bool) (e m : Z) : spec_float :=
  if e =? 0 then (if m =? 0 then S754_zero s else S754_finite s (Z.to_pos m) (-1074))
  else if e =? 2047 then (if m =? 0 then S754_infinity s else S754_nan)
  else S754_finite s (Z.to_pos (m + 2 ^ 52)) (e - 1075).

Lemma sf_of_bits_fields b :
  sf_of_bits b = sf_of_fields (f64_sign_bit b) (f64_exp_field b) (f64_man_field b).
Proof.
  unfold sf_of_bits, Bits.binary_float_of_bits_aux, Bits.split_bits, sf_of_fields,
    f64_sign_bit, f64_exp_field, f64_man_field.
  change (Z.pow 2 52 * Z.pow 2 11) with (2 ^ 63).
  assert (Hm : 0 <= b mod 2 ^ 52 < 2 ^ 52) by (apply Z.mod_pos_bound; lia).
  remember (b mod 2 ^ 52) as m. remember ((b / 2 ^ 52) mod 2 ^ 11) as e.
  remember (2 ^ 63 <=? b) as s.
  rewrite !Zeq_bool_eqb.
  change (2 ^ 11 - 1) with 2047.
  destruct (e =? 0) eqn:E0.
  - destruct m as [|p|p]; cbn; try reflexivity. lia.
  - destruct (e =? 2047) eqn:E1.
    + destruct m as [|p|p]; cbn; reflexivity.
    + remember (2 ^ 52) as P. destruct (m + P) as [|p|p] eqn:EP; try lia.
      cbn. f_equal. lia.
Qed.

Lemma sf_of_bits_valid b : valid_binary (sf_of_bits b) = true.
Proof.
  unfold sf_of_bits.
  pose proof (Bits.binary_float_of_bits_aux_correct 52 11 eq_refl eq_refl eq_refl b) as H.
  destruct (Bits.binary_float_of_bits_aux 52 11 b); cbn in *; auto.
Qed.

Lemma Prim2SF_of_bits b : Prim2SF (f64_of_bits b) = sf_of_bits b.
Proof. apply Prim2SF_SF2Prim, sf_of_bits_valid. Qed.

Lemma sf_finite_eqb_refl s m e : negb (SFeqb (S754_finite s m e) (S754_finite s m e)) = false.
Proof.
  unfold SFeqb, SFcompare. rewrite Z.compare_refl.
  assert (Pos.compare_cont Eq m m = Eq) as H by apply Pos.compare_cont_refl.
  fold (Pos.compare_cont Eq m m). destruct s; rewrite ?H; reflexivity.
Qed.

(* classification of a bit pattern by its exponent and mantissa fields *)
Lemma f64_is_finite_bits b :
  f64_is_finite (f64_of_bits b) = negb (f64_exp_field b =? 2047).
Proof.
  unfold f64_is_finite. rewrite ltb_spec, abs_spec, Prim2SF_of_bits, sf_of_bits_fields.
  unfold sf_of_fields.
  destruct (f64_exp_field b =? 0) eqn:E0.
  - assert ((f64_exp_field b =? 2047) = false) as -> by lia.
    destruct (f64_man_field b =? 0); reflexivity.
  - destruct (f64_exp_field b =? 2047).
    + destruct (f64_man_field b =? 0); reflexivity.
    + reflexivity.
Qed.

Lemma f64_is_nan_bits b :
  f64_is_nan (f64_of_bits b) = (f64_exp_field b =? 2047) && negb (f64_man_field b =? 0).
Proof.
  unfold f64_is_nan. rewrite FloatAxioms.eqb_spec, Prim2SF_of_bits, sf_of_bits_fields.
  unfold sf_of_fields.
  destruct (f64_exp_field b =? 0) eqn:E0.
  - assert ((f64_exp_field b =? 2047) = false) as -> by lia.
    destruct (f64_man_field b =? 0); [reflexivity| apply sf_finite_eqb_refl].
  - destruct (f64_exp_field b =? 2047).
    + destruct (f64_man_field b =? 0); [destruct (f64_sign_bit b)|]; reflexivity.
    + apply sf_finite_eqb_refl.
Qed.

Lemma f64_is_infinite_bits b :
  f64_is_infinite (f64_of_bits b) = (f64_exp_field b =? 2047) && (f64_man_field b =? 0).
Proof.
  unfold f64_is_infinite. rewrite !FloatAxioms.eqb_spec, Prim2SF_of_bits, sf_of_bits_fields.
  unfold sf_of_fields.
  change (Prim2SF infinity) with (S754_infinity false).
  change (Prim2SF neg_infinity) with (S754_infinity true).
  destruct (f64_exp_field b =? 0) eqn:E0.
  - assert ((f64_exp_field b =? 2047) = false) as -> by lia.
    destruct (f64_man_field b =? 0); reflexivity.
  - destruct (f64_exp_field b =? 2047).
    + destruct (f64_man_field b =? 0); [destruct (f64_sign_bit b)|]; reflexivity.
    + reflexivity.
Qed.

Lemma f64_finite_iff b :
  f64_is_finite (f64_of_bits b) = negb (f64_is_nan (f64_of_bits b) || f64_is_infinite (f64_of_bits b)).
Proof.
  rewrite f64_is_finite_bits, f64_is_nan_bits, f64_is_infinite_bits.
  destruct (f64_exp_field b =? 2047), (f64_man_field b =? 0); reflexivity.
Qed.

(* v < 0.0 : the sign bit is set and the value is neither a zero nor a NaN *)
Lemma f64_lt0_bits b :
  f64_lt0 (f64_of_bits b) =
  f64_sign_bit b && negb (f64_is_nan (f64_of_bits b))
  && negb ((f64_exp_field b =? 0) && (f64_man_field b =? 0)).
Proof.
  rewrite f64_is_nan_bits.
  unfold f64_lt0. rewrite ltb_spec, Prim2SF_of_bits, sf_of_bits_fields.
  unfold sf_of_fields. change (Prim2SF zero) with (S754_zero false).
  destruct (f64_exp_field b =? 0) eqn:E0.
  - assert ((f64_exp_field b =? 2047) = false) as -> by lia.
    destruct (f64_man_field b =? 0); destruct (f64_sign_bit b); reflexivity.
  - destruct (f64_exp_field b =? 2047).
    + destruct (f64_man_field b =? 0); destruct (f64_sign_bit b); reflexivity.
    + destruct (f64_sign_bit b); reflexivity.
Qed.
