(* Facts about Base/D3Float.v: the float denoted by a 64-bit pattern and the
   core::f64 predicates on it, in terms of the IEEE-754 fields. *)
From Coq Require Import ZArith Bool Floats Lia ZifyBool.
From Flocq Require IEEE754.Binary IEEE754.Bits.
From V Require Import Base.Prelude Base.D3Float.
Open Scope Z_scope.

Lemma Zeq_bool_eqb x y : Zeq_bool x y = (x =? y).
Proof.
  unfold Zeq_bool. rewrite Z.eqb_compare. reflexivity.
Qed.

Definition sf_of_fields (s : bool) (e m : Z) : spec_float :=
  if e =? 0 then (if m =? 0 then S754_zero s else S754_finite s (Z.to_pos m) (-1074))
  else if e =? 2047 then (if m =? 0 then S754_infinity s else S754_nan)
  else S754_finite s (Z.to_pos (m + 2 ^ 52)) (e - 1075).

Lemma sf_of_bits_fields b :
  sf_of_bits b = sf_of_fields (f64_sign_bit b) (f64_exp_field b) (f64_man_field b).
Proof.
  unfold sf_of_bits, Bits.binary_float_of_bits_aux, Bits.split_bits, sf_of_fields,
    f64_sign_bit, f64_exp_field, f64_man_field.
  change (Z.pow 2 52 * Z.pow 2 11) with (2 ^ 63).
  assert (Hm : 0 <= b mod 2 ^ 52 < 2 ^ 52) by (apply Z.mod_pos_bound; lia).
  remember (b mod 2 ^ 52) as m. remember ((b / 2 ^ 52) mod 2 ^ 11) as e.
  remember (2 ^ 63 <=? b) as s.
  rewrite !Zeq_bool_eqb.
  change (2 ^ 11 - 1) with 2047.
  destruct (e =? 0) eqn:E0.
  - destruct m as [|p|p]; cbn; try reflexivity. lia.
  - destruct (e =? 2047) eqn:E1.
    + destruct m as [|p|p]; cbn; reflexivity.
    + remember (2 ^ 52) as P. destruct (m + P) as [|p|p] eqn:EP; try lia.
      cbn. f_equal. lia.
Qed.

Lemma sf_of_bits_valid b : valid_binary (sf_of_bits b) = true.
Proof.
  unfold sf_of_bits.
  pose proof (Bits.binary_float_of_bits_aux_correct 52 11 eq_refl eq_refl eq_refl b) as H.
  destruct (Bits.binary_float_of_bits_aux 52 11 b); cbn in *; auto.
Qed.

Lemma Prim2SF_of_bits b : Prim2SF (f64_of_bits b) = sf_of_bits b.
Proof. apply Prim2SF_SF2Prim, sf_of_bits_valid. Qed.

Lemma sf_finite_eqb_refl s m e : negb (SFeqb (S754_finite s m e) (S754_finite s m e)) = false.
Proof.
  unfold SFeqb, SFcompare. rewrite Z.compare_refl.
  assert (Pos.compare_cont Eq m m = Eq) as H by apply Pos.compare_cont_refl.
  fold (Pos.compare_cont Eq m m). destruct s; rewrite ?H; reflexivity.
Qed.

(* classification of a bit pattern by its exponent and mantissa fields *)
Lemma f64_is_finite_bits b :
  f64_is_finite (f64_of_bits b) = negb (f64_exp_field b =? 2047).
Proof.
  unfold f64_is_finite. rewrite ltb_spec, abs_spec, Prim2SF_of_bits, sf_of_bits_fields.
  unfold sf_of_fields.
  destruct (f64_exp_field b =? 0) eqn:E0.
  - assert ((f64_exp_field b =? 2047) = false) as -> by lia.
    destruct (f64_man_field b =? 0); reflexivity.
  - destruct (f64_exp_field b =? 2047).
    + destruct (f64_man_field b =? 0); reflexivity.
    + reflexivity.
Qed.

Lemma f64_is_nan_bits b :
  f64_is_nan (f64_of_bits b) = (f64_exp_field b =? 2047) && negb (f64_man_field b =? 0).
Proof.
  unfold f64_is_nan. rewrite FloatAxioms.eqb_spec, Prim2SF_of_bits, sf_of_bits_fields.
  unfold sf_of_fields.
  destruct (f64_exp_field b =? 0) eqn:E0.
  - assert ((f64_exp_field b =? 2047) = false) as -> by lia.
    destruct (f64_man_field b =? 0); [reflexivity| apply sf_finite_eqb_refl].
  - destruct (f64_exp_field b =? 2047).
    + destruct (f64_man_field b =? 0); [destruct (f64_sign_bit b)|]; reflexivity.
    + apply sf_finite_eqb_refl.
Qed.

Lemma f64_is_infinite_bits b :
  f64_is_infinite (f64_of_bits b) = (f64_exp_field b =? 2047) && (f64_man_field b =? 0).
Proof.
  unfold f64_is_infinite. rewrite !FloatAxioms.eqb_spec, Prim2SF_of_bits, sf_of_bits_fields.
  unfold sf_of_fields.
  change (Prim2SF infinity) with (S754_infinity false).
  change (Prim2SF neg_infinity) with (S754_infinity true).
  destruct (f64_exp_field b =? 0) eqn:E0.
  - assert ((f64_exp_field b =? 2047) = false) as -> by lia.
    destruct (f64_man_field b =? 0); reflexivity.
  - destruct (f64_exp_field b =? 2047).
    + destruct (f64_man_field b =? 0); [destruct (f64_sign_bit b)|]; reflexivity.
    + reflexivity.
Qed.

Lemma f64_finite_iff b :
  f64_is_finite (f64_of_bits b) = negb (f64_is_nan (f64_of_bits b) || f64_is_infinite (f64_of_bits b)).
Proof.
  rewrite f64_is_finite_bits, f64_is_nan_bits, f64_is_infinite_bits.
  destruct (f64_exp_field b =? 2047), (f64_man_field b =? 0); reflexivity.
Qed.

(* v < 0.0 : the sign bit is set and the value is neither a zero nor a NaN *)
Lemma f64_lt0_bits b :
  f64_lt0 (f64_of_bits b) =
  f64_sign_bit b && negb (f64_is_nan (f64_of_bits b))
  && negb ((f64_exp_field b =? 0) && (f64_man_field b =? 0)).
Proof.
  rewrite f64_is_nan_bits.
  unfold f64_lt0. rewrite ltb_spec, Prim2SF_of_bits, sf_of_bits_fields.
  unfold sf_of_fields. change (Prim2SF zero) with (S754_zero false).
  destruct (f64_exp_field b =? 0) eqn:E0.
  - assert ((f64_exp_field b =? 2047) = false) as -> by lia.
    destruct (f64_man_field b =? 0); destruct (f64_sign_bit b); reflexivity.
  - destruct (f64_exp_field b =? 2047).
    + destruct (f64_man_field b =? 0); destruct (f64_sign_bit b); reflexivity.
    + destruct (f64_sign_bit b); reflexivity.
Qed.

(* ---- NtpDuration::from_seconds of a number that is not NaN, not infinite and
   not below zero is a non-negative duration (integer-level reasoning on the
   SpecFloat definitions; no real analysis) ---- *)
(* ---------- facts ---------- *)
Lemma digits2_bounds p : 2 ^ (Zpos (digits2_pos p) - 1) <= Zpos p < 2 ^ Zpos (digits2_pos p).
Proof.
  induction p as [p IH|p IH|]; cbn [digits2_pos].
  - rewrite Pos2Z.inj_succ, Z.pow_succ_r by lia.
    replace (Z.succ (Zpos (digits2_pos p)) - 1) with (Z.succ (Zpos (digits2_pos p) - 1)) by lia.
    rewrite Z.pow_succ_r by lia. lia.
  - rewrite Pos2Z.inj_succ, Z.pow_succ_r by lia.
    replace (Z.succ (Zpos (digits2_pos p)) - 1) with (Z.succ (Zpos (digits2_pos p) - 1)) by lia.
    rewrite Z.pow_succ_r by lia. lia.
  - cbn. lia.
Qed.

Lemma digits2_mono p q : Zpos p <= Zpos q -> Zpos (digits2_pos p) <= Zpos (digits2_pos q).
Proof.
  intros H. destruct (Z_le_gt_dec (Zpos (digits2_pos p)) (Zpos (digits2_pos q))) as [|G]; [assumption|].
  exfalso. pose proof (digits2_bounds p) as [Lp _]. pose proof (digits2_bounds q) as [_ Uq].
  assert (2 ^ Zpos (digits2_pos q) <= 2 ^ (Zpos (digits2_pos p) - 1)) by (apply Z.pow_le_mono_r; lia).
  lia.
Qed.

Lemma shift_pos_val k p : Zpos (shift_pos k p) = Zpos p * 2 ^ Zpos k.
Proof. rewrite shift_pos_correct. rewrite Zpower_pos_nat, Zpower_nat_Z, positive_nat_Z. lia. Qed.

Lemma digits2_shift k p : digits2_pos (shift_pos k p) = (digits2_pos p + k)%positive.
Proof.
  unfold shift_pos. induction k using Pos.peano_ind.
  - cbn. lia.
  - rewrite Pos.iter_succ. cbn [digits2_pos]. rewrite IHk. lia.
Qed.

Lemma sf_of_pos_int_valid p :
  Zpos (digits2_pos p) <= 53 -> valid_binary (sf_of_pos_int p) = true.
Proof.
  intros H. unfold sf_of_pos_int.
  destruct (53 - Zpos (digits2_pos p)) as [|k|k] eqn:E; try lia.
  - cbn [valid_binary]. unfold bounded, canonical_mantissa, fexp, SpecFloat.emin, prec, emax.
    apply andb_true_intro. split; [|reflexivity].
    apply Zeq_is_eq_bool. lia.
  - cbn [valid_binary]. unfold bounded, canonical_mantissa, fexp, SpecFloat.emin, prec, emax.
    rewrite digits2_shift. apply andb_true_intro. split.
    + apply Zeq_is_eq_bool. pose proof (Pos2Z.is_pos (digits2_pos p)). lia.
    + apply Zle_imp_le_bool. lia.
Qed.

(* value of sf_of_pos_int: mantissa * 2^exponent = p, with a non-positive exponent *)
Lemma sf_of_pos_int_value p :
  exists my ey, sf_of_pos_int p = S754_finite false my ey /\ ey <= 0 /\ Zpos my = Zpos p * 2 ^ (- ey).
Proof.
  unfold sf_of_pos_int. destruct (53 - Zpos (digits2_pos p)) as [|k|k].
  - exists p, 0. repeat split; cbn; lia.
  - exists (shift_pos k p), (Zneg k). repeat split; [lia|]. rewrite shift_pos_val. reflexivity.
  - exists p, 0. repeat split; cbn; lia.
Qed.

(* the sign class: zero (either sign), NaN, +infinity, positive finite *)
Definition nonneg_class (x : spec_float) : Prop :=
  match x with
  | S754_infinity true => False
  | S754_finite true _ _ => False
  | _ => True
  end.

Lemma bra_class mx ex lx : nonneg_class (binary_round_aux prec emax false mx ex lx).
Proof.
  unfold binary_round_aux.
  destruct (shr_fexp prec emax mx ex lx) as [mrs' e'].
  destruct (shr_fexp prec emax _ e' loc_Exact) as [mrs'' e''].
  destruct (shr_m mrs'') as [|q|q]; [exact I| | exact I].
  destruct (Zle_bool e'' (emax - prec)); exact I.
Qed.

Lemma bround_class mx ex : nonneg_class (binary_round prec emax false mx ex).
Proof.
  unfold binary_round. destruct (shl_align mx ex _) as [mz ez]. apply bra_class.
Qed.

Lemma bnorm_class m e : 0 <= m -> nonneg_class (binary_normalize prec emax m e false).
Proof.
  intros H. destruct m as [|p|p]; cbn [binary_normalize]; [exact I| apply bround_class | lia].
Qed.

Lemma shl_align_val mx ex ex' :
  ex' <= ex -> Zpos (fst (shl_align mx ex ex')) = Zpos mx * 2 ^ (ex - ex').
Proof.
  intros H. unfold shl_align. destruct (ex' - ex) as [|d|d] eqn:E; cbn [fst]; try lia.
  - replace (ex - ex') with 0 by lia. lia.
  - rewrite shift_pos_val. f_equal. f_equal. lia.
Qed.

Definition good_number (f : float) : Prop :=
  f64_is_nan f = false /\ f64_is_infinite f = false /\ f64_lt0 f = false.

Lemma good_number_sf f :
  good_number f ->
  (exists s, Prim2SF f = S754_zero s) \/ (exists m e, Prim2SF f = S754_finite false m e).
Proof.
  intros (N & I & L). unfold f64_is_nan, f64_is_infinite, f64_lt0 in *.
  rewrite FloatAxioms.eqb_spec in N. rewrite !FloatAxioms.eqb_spec in I. rewrite FloatAxioms.ltb_spec in L.
  change (Prim2SF infinity) with (S754_infinity false) in I.
  change (Prim2SF neg_infinity) with (S754_infinity true) in I.
  change (Prim2SF zero) with (S754_zero false) in L.
  destruct (Prim2SF f) as [s|s| |s m e].
  - left; eauto.
  - destruct s; cbn in I; discriminate.
  - cbn in N. discriminate.
  - destruct s; [cbn in L; discriminate|]. right; eauto.
Qed.

Lemma to_i64_nonneg y : nonneg_class (Prim2SF y) -> 0 <= f64_to_i64 y.
Proof.
  unfold f64_to_i64. destruct (Prim2SF y) as [s|s| |s m e]; cbn [nonneg_class]; intros H.
  - lia.
  - destruct s; [contradiction|]. unfold i64_max. lia.
  - lia.
  - destruct s; [contradiction|]. cbn [sf_signed_mantissa].
    assert (0 <= (if 0 <=? e then Zpos m * 2 ^ e else Zpos m ÷ 2 ^ (- e))) as V.
    { destruct (0 <=? e) eqn:E.
      - apply Z.mul_nonneg_nonneg; [lia| apply Z.pow_nonneg; lia].
      - apply Z.quot_pos; [lia| apply Z.pow_pos_nonneg; lia]. }
    unfold sat_i64, clampZ, i64_min, i64_max. lia.
Qed.

Lemma mul_class g : nonneg_class (Prim2SF g) -> nonneg_class (Prim2SF (PrimFloat.mul g u32_max_f)).
Proof.
  intros H. rewrite FloatAxioms.mul_spec. unfold SF64mul.
  assert (C : exists mc ec, Prim2SF u32_max_f = S754_finite false mc ec) by (eexists _, _; vm_compute; reflexivity).
  destruct C as (mc & ec & ->).
  destruct (Prim2SF g) as [s|s| |s m e]; cbn [SFmul nonneg_class] in *.
  - exact I.
  - destruct s; [contradiction| exact I].
  - exact I.
  - destruct s; [contradiction|]. cbn [xorb]. apply bra_class.
Qed.

Lemma valid_digits s m e : valid_binary (S754_finite s m e) = true -> Zpos (digits2_pos m) <= 53.
Proof.
  cbn [valid_binary]. unfold bounded, canonical_mantissa, fexp, SpecFloat.emin, prec, emax.
  intros H. apply andb_prop in H. destruct H as [H _]. apply Zeq_bool_eq in H. lia.
Qed.

(* the fractional part s - floor s of a good number has a sign bit clear *)
Lemma frac_class f :
  good_number f ->
  nonneg_class (Prim2SF (f64_floor f)) /\
  nonneg_class (Prim2SF (PrimFloat.sub f (f64_floor f))).
Proof.
  intros G. pose proof (Prim2SF_valid f) as V.
  rewrite FloatAxioms.sub_spec. unfold f64_floor.
  destruct (good_number_sf f G) as [[s E] | (m & e & E)]; rewrite E in *.
  - rewrite E. split; [exact I|]. cbn. destruct s; exact I.
  - destruct (0 <=? e) eqn:Ee.
    + rewrite E. split; [exact I|]. unfold SF64sub, SFsub.
      cbn [cond_Zopp]. rewrite Z.sub_diag. exact I.
    + cbn [sf_signed_mantissa].
      pose proof (valid_digits _ _ _ V) as Dm.
      assert (P2 : 0 < 2 ^ (- e)) by (apply Z.pow_pos_nonneg; lia).
      destruct (Zpos m / 2 ^ (- e)) as [|p|p] eqn:Z.
      * change (Prim2SF zero) with (S754_zero false). split; exact I.
      * assert (Zpos p <= Zpos m).
        { rewrite <- Z. apply Z.div_le_upper_bound; [lia|]. nia. }
        pose proof (digits2_mono p m H) as Dp.
        rewrite (Prim2SF_SF2Prim _ (sf_of_pos_int_valid p ltac:(lia))).
        destruct (sf_of_pos_int_value p) as (my & ey & -> & Hey & Hmy).
        split; [exact I|].
        unfold SF64sub, SFsub. cbn [cond_Zopp].
        apply bnorm_class.
        rewrite !shl_align_val by lia.
        assert (Zpos p * 2 ^ (- e) <= Zpos m).
        { rewrite <- Z. rewrite Z.mul_comm. apply Z.mul_div_le. lia. }
        set (ez := Z.min e ey).
        rewrite Hmy.
        assert (Zpos p * 2 ^ (- ey) * 2 ^ (ey - ez) = Zpos p * 2 ^ (- ez)) as ->.
        { rewrite <- Z.mul_assoc, <- Z.pow_add_r by lia. f_equal. f_equal. lia. }
        assert (Zpos p * 2 ^ (- ez) = Zpos p * 2 ^ (- e) * 2 ^ (e - ez)) as ->.
        { rewrite <- Z.mul_assoc, <- Z.pow_add_r by lia. f_equal. f_equal. lia. }
        assert (0 <= 2 ^ (e - ez)) by (apply Z.pow_nonneg; lia).
        nia.
      * exfalso. assert (0 <= Zpos m / 2 ^ (- e)) by (apply Z.div_pos; lia). lia.
Qed.

Lemma from_seconds_nonneg f : good_number f -> 0 <= from_seconds f.
Proof.
  intros G. destruct (frac_class f G) as [Ci Cf].
  unfold from_seconds.
  pose proof (to_i64_nonneg _ Ci) as Hi.
  pose proof (to_i64_nonneg _ (mul_class _ Cf)) as Hf.
  destruct ((i32_min <=? f64_to_i64 (f64_floor f)) && (f64_to_i64 (f64_floor f) <=? i32_max)).
  - apply Z.lor_nonneg. split; [|exact Hf]. apply Z.mul_nonneg_nonneg; lia.
  - assert ((f64_to_i64 (f64_floor f) <? i32_min) = false) as -> by (unfold i32_min; lia).
    unfold i64_max. lia.
Qed.
