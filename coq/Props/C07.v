(* C07  NTS sources ignore everything that is not authenticated.
   Property theorems only; proofs are in Proofs/SourceIncoming.v, Proofs/SourceVersion.v.

   A received datagram reaches the decision logic as [None] (rejected by the
   decoder; this includes every datagram with a present but failing NTS
   authenticator, which NtpPacket::deserialize reports as DecryptError) or as
   [Some p]; [authenticated p] says that an authenticator decrypted under the
   session's server-to-client key, and only then can [p] have unique identifiers
   or cookies in authenticated / encrypted position (cluster P: C25).
   [uid_bound p id]: the unique identifier of request [id] is present under the
   authenticator and no identifier under it differs.  The statements are about
   the tree with branch fix-c07 (NTS NAK tested before RATE / DENY). *)
From V Require Import Model.Source Gen.ConstSource Proofs.SourceBase Proofs.SourceIncoming Proofs.SourceVersion.

(* Whatever has any observable effect on an NTS source -- an action (measurement,
   demobilisation) or any change of the modelled state (cookies, poll rate,
   protocol version, reachability, deny memory, pending request) -- is an
   authenticated packet bound to the pending request: inside the window, origin
   timestamp / client cookie and unique identifier of that request, and it is
   not an NTS NAK. *)
Theorem C07_effect_only_if : forall c s now op s' acts,
  s_nts s = true -> nts_ver_ok s ->
  step_incoming c s now op = (s', acts) -> (s' <> s \/ acts <> []) ->
  exists p id dl, op = Some p /\ authenticated p = true
    /\ s_req s = Some (id, dl) /\ now <= dl
    /\ expected (s_ver s) (p_ver p) = true
    /\ p_origin p = id /\ uid_bound p id /\ is_kiss_ntsn p = false.
Proof. exact nts_effect_only_if. Qed.

(* no authenticator (forged, unauthenticated kiss codes including NTS NAKs with the
   cleartext identifiers of the request): nothing happens *)
Theorem C07_unauth_noop : forall c s now p,
  s_nts s = true -> nts_ver_ok s -> authenticated p = false ->
  step_incoming c s now (Some p) = (s, []).
Proof. exact nts_unauth_noop. Qed.

(* failing authenticator (bit flips, other keys, replays re-encrypted): decoder error, nothing happens *)
Theorem C07_rejected_noop : forall c s now, step_incoming c s now None = (s, []).
Proof. exact step_incoming_none. Qed.

(* authenticated but not bound to the pending request (replay of an answer to an
   earlier request, other origin, identifier missing or only outside the authenticator) *)
Theorem C07_bound_to_request : forall c s now p,
  s_nts s = true -> nts_ver_ok s ->
  (forall id dl, s_req s = Some (id, dl) -> now <= dl -> ~ (p_origin p = id /\ uid_bound p id)) ->
  step_incoming c s now (Some p) = (s, []).
Proof. exact nts_unbound_noop. Qed.

(* New cookies are only ever taken from the encrypted part of an accepted answer:
   handle_incoming leaves the stash alone or stores exactly the encrypted-position
   cookies of the packet it measured (whatever cookies sit in authenticated or
   untrusted position) ... *)
Theorem C07_cookies_only_encrypted : forall c s now op s' acts,
  step_incoming c s now op = (s', acts) ->
  s_stash s' = s_stash s \/
  exists p id, op = Some p /\ acts = [Measure id] /\ s_nts s = true /\
    s_stash s' = fold_left stash_store (cookies_encr p) (s_stash s).
Proof. exact incoming_stash. Qed.

(* ... so along every history, every cookie in the stash was there initially or
   came in encrypted position of some received packet (an unauthenticated packet
   has none) *)
Theorem C07_stash_provenance : forall c evs s s' tr x,
  run c s evs = Ok (s', tr) -> In x (s_stash s') -> In x (s_stash s) \/ In x (offered evs).
Proof. exact stash_provenance. Qed.

Theorem C07_unauth_offers_nothing : forall p, authenticated p = false -> cookies_encr p = [].
Proof. exact unauth_offers_nothing. Qed.

(* the hypothesis [nts_ver_ok] (version V4 or V5, as negotiated by key exchange) is an invariant *)
Theorem C07_nts_version_invariant : forall c evs s s' tr,
  nts_ver_ok s -> s_nts s = true -> run c s evs = Ok (s', tr) -> s_ver s' = s_ver s /\ nts_ver_ok s'.
Proof. exact nts_version. Qed.

(* non-vacuity: NTPv5 NTS source with a pending request; the unauthenticated NAK+DENY
   and NAK+RATE packets of DESIGN.md section 4 row 2 (cleartext identifier and client
   cookie of the request) do nothing, a genuine answer is measured and its two
   encrypted cookies -- not the ones planted in authenticated / untrusted position -- are stored *)
Example C07_nonvacuous :
  let c := mkCfg 4 10 in
  let s0 := init c true [(7, 100); (8, 100)] V5 in
  let nak poll := Some (mkPkt 5 4 0 poll 0 true 0 false None [0] []) in
  let good := Some (mkPkt 5 4 2 4 0 false 0 false
                      (Some (mkSealed [0] [] [(21, 64); (22, 64)] [(66, 64)])) [] [(77, 64)]) in
  exists s1 a1, step c s0 (Timer 0 4) = Ok (s1, a1) /\ s_req s1 = Some (0, 5000)
  /\ step_incoming c s1 10 (nak 127) = (s1, [])
  /\ step_incoming c s1 10 (nak 20) = (s1, [])
  /\ exists s2, step_incoming c s1 10 good = (s2, [Measure 0])
       /\ s_stash s2 = [(8, 100); (21, 64); (22, 64)].
Proof. vm_compute. eexists. eexists. repeat split. eexists. split; reflexivity. Qed.

Print Assumptions C07_effect_only_if.
Print Assumptions C07_unauth_noop.
Print Assumptions C07_rejected_noop.
Print Assumptions C07_bound_to_request.
Print Assumptions C07_cookies_only_encrypted.
Print Assumptions C07_stash_provenance.
Print Assumptions C07_unauth_offers_nothing.
Print Assumptions C07_nts_version_invariant.
