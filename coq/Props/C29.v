(* C29  Pool key-exchange requests require a configured token.
   Property theorems only; proofs are in Proofs/NtsKe.v.

   handle_new cfg export permit pr  models KeyExchangeServer::handle_connection
   after the TLS accept: pr is the outcome of Request::parse (model of C30),
   permit whether a long-lived connection slot is available; the result is
   (records written to the client, how the connection ends, whether the permit
   was asked for).  lt_step / longterm model handle_longterm. *)
From V Require Import Model.NtsKe Proofs.NtsKe Gen.ConstNts.

(* A fixed-key or supported-parameters request whose token is not configured
   is answered with exactly [Error(BadRequest); EndOfMessage], the connection is
   closed with NotPermitted and the permit is not even asked for ... *)
Theorem C29_token_required : forall cfg export permit q auth,
  req_auth q = Some auth -> ~ In auth (c_tokens cfg) ->
  handle_new cfg export permit (Ok q) = (bad_request, Closed E_NOT_PERMITTED, false).
Proof. exact token_required. Qed.

(* ... and that answer carries no cookie and no keep-alive record. *)
Theorem C29_rejection_shape :
  bad_request = [RRec (ErrorR ERR_BAD_REQUEST); RRec EndOfMessage]
  /\ existsb is_cookie bad_request = false /\ existsb is_keep_alive bad_request = false.
Proof. exact bad_request_shape. Qed.

(* Served only with a configured token: for every such request, either its token
   is configured or the outcome is the rejection. *)
Theorem C29_served_only_with_token : forall cfg export permit q auth,
  req_auth q = Some auth ->
  In auth (c_tokens cfg) \/
  handle_new cfg export permit (Ok q) = (bad_request, Closed E_NOT_PERMITTED, false).
Proof. exact served_only_with_token. Qed.

(* The same on the byte stream of a whole connection. *)
Theorem C29_connection_without_token : forall cfg export permit stream q rest auth,
  parse_request stream = (Ok q, rest) -> req_auth q = Some auth -> ~ In auth (c_tokens cfg) ->
  serve cfg export permit stream = (bad_request, Closed E_NOT_PERMITTED, false, None).
Proof. exact serve_tokenless. Qed.

(* For EVERY outcome of the request parser: the connection is kept open iff the
   request is a pool request with a configured token that asked for keep-alive
   and a slot was available; the slot is asked for iff token and wish are
   there; the response carries a keep-alive record iff the connection is kept. *)
Theorem C29_kept_open_iff : forall cfg export permit pr resp e asked,
  handle_new cfg export permit pr = (resp, e, asked) ->
  (e = KeptOpen <->
     exists q auth, pr = Ok q /\ req_auth q = Some auth /\ In auth (c_tokens cfg)
                    /\ req_keep_alive q = true /\ permit = true)
  /\ (asked = true <->
     exists q auth, pr = Ok q /\ req_auth q = Some auth /\ In auth (c_tokens cfg)
                    /\ req_keep_alive q = true)
  /\ (existsb is_keep_alive resp = true <-> e = KeptOpen).
Proof. exact kept_open_iff. Qed.

(* A plain key-exchange request on a kept-open connection: bad request, and
   handle_longterm ends with Invalid (for every configuration) ... *)
Theorem C29_no_plain_on_longterm : forall cfg als ps dn,
  lt_step cfg (Ok (KeyExchange als ps dn)) = (bad_request, Some E_INVALID).
Proof. exact no_plain_on_longterm. Qed.

(* ... also as the first thing read from the kept-open stream. *)
Theorem C29_no_plain_on_longterm_stream : forall f cfg stream als ps dn rest,
  parse_request stream = (Ok (KeyExchange als ps dn), rest) ->
  longterm (S f) cfg stream = (bad_request, E_INVALID).
Proof. exact longterm_plain_first. Qed.

Theorem C29_site_census :
  TOKEN_TESTS = 2 /\ PROTOCOL_FIND = 1 /\ ALGORITHM_FIND = 1 /\ DEFAULT_NUMBER_OF_COOKIES = 8.
Proof. exact ntske_census. Qed.

(* non-vacuity: with token "hi" configured, a fixed-key request carrying it and
   asking for keep-alive is kept open when a slot is available, closed (but
   served) when not; with another token it is rejected; a following plain
   key exchange on the kept connection is refused *)
Definition ex_fk (tok : list Z) : list Z :=
  [0;14;0;2] ++ tok ++ [128;12;0;64] ++ repeat 7 64 ++ [128;1;0;2;0;0; 128;4;0;2;0;15; 0;8;0;0; 128;0;0;0].
Definition ex_ke : list Z := [128;1;0;2;0;0; 128;4;0;2;0;15; 128;0;0;0].
Definition ex_cfg : srv_cfg := mkCfg [0] [[104;105]] None None.
Example C29_nonvacuous :
  (let '(resp, e, asked, lt) := serve ex_cfg (fun _ _ => ([], [])) true (ex_fk [104;105] ++ ex_ke) in
   (e, asked, lt, existsb is_keep_alive resp, length (filter is_cookie resp)))
    = (KeptOpen, true, Some E_INVALID, true, 8%nat)
  /\ (let '(resp, e, asked, lt) := serve ex_cfg (fun _ _ => ([], [])) false (ex_fk [104;105] ++ ex_ke) in
   (e, asked, lt, existsb is_keep_alive resp, length (filter is_cookie resp)))
    = (Closed 0, true, None, false, 8%nat)
  /\ serve ex_cfg (fun _ _ => ([], [])) true (ex_fk [104;111] ++ ex_ke)
    = (bad_request, Closed E_NOT_PERMITTED, false, None).
Proof. vm_compute. repeat split. Qed.

Print Assumptions C29_token_required.
Print Assumptions C29_rejection_shape.
Print Assumptions C29_served_only_with_token.
Print Assumptions C29_connection_without_token.
Print Assumptions C29_kept_open_iff.
Print Assumptions C29_no_plain_on_longterm.
Print Assumptions C29_no_plain_on_longterm_stream.
Print Assumptions C29_site_census.
